"""C08  Degree elevation preserves a Bezier shape and reduction inverts it.

streams (kind -> op line for the Lean driver -> what the real code is asked)
  elev      elev p num P            helpers.degree_elevation(p, P, num=num)           (points; Cartesian or homogeneous)
  elev-rows elev p num P            same call, every control "point" is a flattened row of m points (see ASSUMPTIONS)
  elevred   elevred p num P         elevate by num, then num times helpers.degree_reduction
  red       red p P                 helpers.degree_reduction on an arbitrary polygon (correspondence + end points)
  reject    elev|red ...            malformed input: wrong number of points, num <= 0, degree < 2
  binom     binom k i               linalg.binomial_coefficient
  bern      bern P u                the Bezier curve through the real evaluator (one-span clamped knot vector)
  opdeg     opdeg p num P           operations.degree_operations(curve, [num]) on a one-span curve (diagnostic, public API)
The oracle uses de Casteljau's algorithm on Fractions (no binomials, no geomdl code).
"""
from fractions import Fraction as F
import math
from core import Case, q, qs, qpts, fr, show_list, show_pts, err_class
import gen as G

PID = 'C08'
FLOAT_KINDS = {'elevred', 'elev', 'elev-rows', 'red', 'binom', 'binomrow', 'bern', 'opdeg'}      # float-mode companion (core.float_companion)
FLOAT_TOL = 1e-8
STATS = G.STATS
PARTIAL = []   # every planned theorem of DESIGN section 7/C08 (tier 1 and tier 2) is proved, see Props/C08.lean
ASSUMPTIONS = [
    "all control points of a polygon have the same number of coordinates (hypothesis `Rect d P` of the theorems)",
    "rows of points: helpers.degree_elevation/degree_reduction accept a list of POINTS only (a nested row raises TypeError in "
    "`coeff * p2`; the surface branch of operations.degree_operations is `pass`); a row of m points is therefore passed as one "
    "point with m*dim coordinates, which is the coordinatewise statement the theorems make",
    "operations.degree_operations is compared on one-span (Bezier) curves only (stream 'opdeg', diagnostic); its "
    "decompose / link / knot-removal pipeline for multi-span curves belongs to C04-C07",
    "binomial_coefficient: Python divides two integers with true division; exact up to 2^53, i.e. for all degrees the "
    "generators use (<= 18)",
]


# ------------------------------------------------------------------ independent exact reference
def casteljau(P, u):
    pts = [list(p) for p in P]
    while len(pts) > 1:
        pts = [[(1 - u) * a + u * b for a, b in zip(p0, p1)] for p0, p1 in zip(pts, pts[1:])]
    return pts[0]


PARAMS = [F(0), F(1), F(1, 2), F(1, 3), F(7, 10), F(-1, 2), F(2)]


def plain(P):
    """Q -> Fraction"""
    return [[F(c.q) if hasattr(c, 'q') else F(c) for c in pt] for pt in P]


def poly(rng, n, dim, hom):
    if hom:
        return G.homogeneous(G.points(rng, n, dim - 1), G.weights(rng, n))
    return G.points(rng, n, dim)


# ------------------------------------------------------------------ generator
def gen(rng, tier):
    quick = tier == 'quick'
    maxp = 8 if quick else 12
    maxnum = 4 if quick else 6
    out = []
    # small cases first (the replay of a violation is the shortest failing line)
    for p in range(1, 10):
        P = [[F(rng.randint(-4, 4))] for _ in range(p + 1)]
        out.append(Case('elevred', "elevred %d 1 %s" % (p, show_pts(P)), dict(p=p, num=1, P=P)))
    for p in range(1, maxp + 1):
        for num in range(1, maxnum + 1):
            for rep in range(2 if quick else 8):
                hom = rng.random() < .5
                dim = rng.randint(2, 4) if hom else rng.randint(1, 4)
                P = poly(rng, p + 1, dim, hom)
                G.count('elev_degree', p); G.count('elev_num', num); G.count('coords', 'homogeneous' if hom else 'cartesian')
                us = [F(rng.randint(0, 60), 60), F(rng.randint(1, 16), 17)]
                out.append(Case('elev', "elev %d %d %s" % (p, num, show_pts(P)), dict(p=p, num=num, P=P, hom=hom, us=us)))
    # rows of points (flattened)
    for _ in range(40 if quick else 500):
        p = rng.randint(1, maxp); num = rng.randint(1, maxnum); m = rng.randint(2, 4); dim = rng.randint(2, 4)
        while m == dim:
            m = rng.randint(2, 5)
        rows = [G.points(rng, m, dim) for _ in range(p + 1)]
        flat = [[c for pt in row for c in pt] for row in rows]
        G.count('rows', "%dx%d" % (m, dim))
        out.append(Case('elev-rows', "elev %d %d %s" % (p, num, show_pts(flat)), dict(p=p, num=num, P=flat, m=m, dim=dim,
                                                                                     us=[F(rng.randint(0, 30), 30)])))
    # reduce after elevate
    for p in range(1, (9 if quick else 13)):
        for num in range(1, (3 if quick else 5)):
            for rep in range(3 if quick else 12):
                hom = rng.random() < .5
                dim = rng.randint(2, 4) if hom else rng.randint(1, 3)
                P = poly(rng, p + 1, dim, hom)
                G.count('elevred_degree', p + num)
                out.append(Case('elevred', "elevred %d %d %s" % (p, num, show_pts(P)), dict(p=p, num=num, P=P)))
    # arbitrary polygons through reduction
    for _ in range(40 if quick else 600):
        p = rng.randint(2, maxp + 1); dim = rng.randint(1, 3)
        P = G.points(rng, p + 1, dim)
        G.count('red_degree', p)
        out.append(Case('red', "red %d %s" % (p, show_pts(P)), dict(p=p, P=P)))
    # malformed stream
    for _ in range(40 if quick else 400):
        p = rng.randint(1, maxp); dim = rng.randint(1, 3)
        r = rng.random()
        if r < .25:      # too many / too few points
            n = p + 1 + rng.choice([-1, 1, 2]) if p > 1 else p + 1 + rng.choice([1, 2])
            P = G.points(rng, n, dim); num = rng.randint(1, 3)
            out.append(Case('reject', "elev %d %d %s" % (p, num, show_pts(P)), dict(op='elev', p=p, num=num, P=P, why='count')))
        elif r < .5:     # non-positive elevation count
            P = G.points(rng, p + 1, dim); num = rng.choice([0, 0, -1, -2, -5])
            out.append(Case('reject', "elev %d %d %s" % (p, num, show_pts(P)), dict(op='elev', p=p, num=num, P=P, why='num')))
        elif r < .75:    # reduction: wrong number of points
            p = max(p, 2)
            n = p + 1 + rng.choice([-1, 1, 2])
            P = G.points(rng, n, dim)
            out.append(Case('reject', "red %d %s" % (p, show_pts(P)), dict(op='red', p=p, P=P, why='count')))
        else:            # reduction below degree 2
            p = rng.choice([0, 1, 1])
            P = G.points(rng, p + 1, dim)
            out.append(Case('reject', "red %d %s" % (p, show_pts(P)), dict(op='red', p=p, P=P, why='degree')))
        G.count('reject', out[-1].data['why'] + '/' + out[-1].data['op'])
    # binomials
    ks = range(0, 15) if quick else range(0, 19)
    for k in ks:
        for i in (range(0, k + 3) if not quick else sorted({0, 1, k // 2, max(k - 1, 0), k, k + 1, k + 2})):
            out.append(Case('binom', "binom %d %d" % (k, i), dict(k=k, i=i)))
    # whole rows of the table (every k up to 18 in both tiers): each row is ONE case, so the float-mode companion - whose budget
    # is shared among the kinds - sees every entry in plain doubles (a formula that is exact in rationals but rounds in doubles)
    for k in range(0, 19):
        out.append(Case('binomrow', "binomrow %d" % k, dict(k=k)))
    # Bernstein form = the library's curve on the one-span clamped knot vector
    for _ in range(40 if quick else 500):
        p = rng.randint(1, maxp); dim = rng.randint(2, 4)     # the curve classes want >= 2 coordinates
        P = G.points(rng, p + 1, dim)
        u = rng.choice([F(0), F(1), F(rng.randint(0, 40), 40), F(rng.randint(1, 12), 13)])
        G.count('bern_param', 'end' if u in (0, 1) else 'interior')
        out.append(Case('bern', "bern %s %s" % (show_pts(P), fr(u)), dict(p=p, P=P, u=u)))
    # public API (diagnostic): operations.degree_operations on a one-span curve
    for _ in range(40 if quick else 500):
        p = rng.randint(1, maxp); rat = rng.random() < .5
        dim = rng.randint(2, 3)
        P = G.homogeneous(G.points(rng, p + 1, dim), G.weights(rng, p + 1)) if rat else G.points(rng, p + 1, dim)
        r = rng.random()
        if r < .6:
            num = rng.randint(1, maxnum)
        elif r < .65:
            num = 0
        else:       # reduction of an exact elevation (weights stay positive)
            num = -1
            P = [list(x) for x in plain_elev(P, 1)]
            p = p + 1
        a, b = (F(0), F(1)) if rng.random() < .7 else (F(rng.randint(-3, 1)), F(rng.randint(2, 5)))
        G.count('opdeg', ('rational' if rat else 'polynomial') + ('/elev' if num > 0 else '/red' if num < 0 else '/noop'))
        out.append(Case('opdeg', "opdeg %d %d %s" % (p, num, show_pts(P)), dict(p=p, num=num, P=P, rat=rat, a=a, b=b,
                                                                              us=[F(rng.randint(0, 20), 20), F(1, 3)])))
    return out


def plain_elev(P, num):
    """reference elevation by one, `num` times (Eq. 5.36 for t = 1), on Fractions; used only to BUILD reducible inputs"""
    for _ in range(num):
        n = len(P)
        Q = [P[0]]
        for i in range(1, n):
            a = F(i, n)
            Q.append([a * x + (1 - a) * y for x, y in zip(P[i - 1], P[i])])
        Q.append(P[-1])
        P = Q
    return P


# ------------------------------------------------------------------ the real code
def _elevred(p, num, P):
    from geomdl import helpers
    Q = helpers.degree_elevation(p, qpts(P), num=num)
    d = p + num
    for _ in range(num):
        Q = helpers.degree_reduction(d, Q)
        d -= 1
    return Q


def _curve(d, P=None, p=None):
    from geomdl import BSpline, NURBS
    P = d['P'] if P is None else P
    p = d['p'] if p is None else p
    a, b = d.get('a', F(0)), d.get('b', F(1))
    if d.get('rat'):
        c = NURBS.Curve(); c.degree = p; c.ctrlptsw = qpts(P)
    else:
        c = BSpline.Curve(); c.degree = p; c.ctrlpts = qpts(P)
    c.knotvector = qs([a] * (p + 1) + [b] * (p + 1))
    return c


def _opdeg(d):
    from geomdl import operations
    c = _curve(d)
    operations.degree_operations(c, [d['num']])
    return c


def impl(c):
    from geomdl import helpers, linalg
    d = c.data
    k = c.kind
    if k in ('elev', 'elev-rows'):
        return show_pts(helpers.degree_elevation(d['p'], qpts(d['P']), num=d['num']))
    if k == 'elevred':
        return show_pts(_elevred(d['p'], d['num'], d['P']))
    if k == 'red':
        return show_pts(helpers.degree_reduction(d['p'], qpts(d['P'])))
    if k == 'reject':
        if d['op'] == 'elev':
            return show_pts(helpers.degree_elevation(d['p'], qpts(d['P']), num=d['num']))
        return show_pts(helpers.degree_reduction(d['p'], qpts(d['P'])))
    if k == 'binom':
        return fr(linalg.binomial_coefficient(d['k'], d['i']))
    if k == 'binomrow':
        return ",".join(fr(linalg.binomial_coefficient(d['k'], i)) for i in range(d['k'] + 3))
    if k == 'bern':
        return show_list(_curve(d).evaluate_single(q(d['u'])))
    if k == 'opdeg':
        cv = _opdeg(d)
        return show_pts(cv.ctrlptsw if d['rat'] else cv.ctrlpts)
    raise ValueError(k)


# ------------------------------------------------------------------ the property, on the implementation
def _same_curve(P, Q, us, what):
    for u in us:
        a, b = casteljau(P, u), casteljau(Q, u)
        if a != b:
            return "%s: the curve point at u=%s moves from (%s) to (%s)" % (what, fr(u), show_list(a), show_list(b))
    return None


def oracle(c):
    from geomdl import helpers, linalg
    d = c.data
    k = c.kind
    if k in ('elev', 'elev-rows'):
        p, num, P = d['p'], d['num'], d['P']
        inp = qpts(P)
        Q = plain(helpers.degree_elevation(p, inp, num=num))
        if plain(inp) != P:
            return "degree_elevation changes its input"
        if len(Q) != p + num + 1:
            return "degree_elevation(degree=%d, num=%d) returns %d control points, expected %d" % (p, num, len(Q), p + num + 1)
        if any(len(pt) != len(P[0]) for pt in Q):
            return "degree_elevation returns points of another dimension"
        if Q[0] != P[0] or Q[-1] != P[-1]:
            return "degree_elevation(degree=%d, num=%d) moves an end point" % (p, num)
        us = PARAMS + list(d.get('us', []))
        if k == 'elev':
            why = _same_curve(P, Q, us, "degree_elevation(degree=%d, num=%d)" % (p, num))
            if why:
                return why
            if d.get('hom'):
                for u in us:
                    a, b = casteljau(P, u), casteljau(Q, u)
                    if a[-1] != 0 and [x / a[-1] for x in a] != [x / b[-1] for x in b]:
                        return "projected point differs at u=%s" % fr(u)
        else:
            m, dim = d['m'], d['dim']
            for col in range(m):     # every column of the net is a Bezier curve of its own
                Pc = [pt[col * dim:(col + 1) * dim] for pt in P]
                Qc = [pt[col * dim:(col + 1) * dim] for pt in Q]
                why = _same_curve(Pc, Qc, us, "degree_elevation(degree=%d, num=%d) on rows, column %d" % (p, num, col))
                if why:
                    return why
        return None
    if k == 'elevred':
        p, num, P = d['p'], d['num'], d['P']
        Q = plain(_elevred(p, num, P))
        if Q != P:
            bad = [i for i in range(min(len(P), len(Q))) if Q[i] != P[i]]
            return ("degree_reduction does not invert degree_elevation: degree %d elevated by %d and reduced %d time(s) returns %d points, "
                    "control point(s) %s differ (e.g. index %s: (%s) instead of (%s))"
                    % (p, num, num, len(Q), bad, bad[0] if bad else '-', show_list(Q[bad[0]]) if bad else '', show_list(P[bad[0]]) if bad else ''))
        return None
    if k == 'red':
        p, P = d['p'], d['P']
        inp = qpts(P)
        Q = plain(helpers.degree_reduction(p, inp))
        if plain(inp) != P:
            return "degree_reduction changes its input"
        if len(Q) != p:
            return "degree_reduction(degree=%d) returns %d control points" % (p, len(Q))
        if Q[0] != P[0] or Q[-1] != P[-1]:
            return "degree_reduction(degree=%d) moves an end point" % p
        return None
    if k == 'reject':
        if d['op'] == 'elev':
            e = err_class(lambda: helpers.degree_elevation(d['p'], qpts(d['P']), num=d['num']))
        else:
            e = err_class(lambda: helpers.degree_reduction(d['p'], qpts(d['P'])))
        if e is None:          # the property says 'rejected': any exception will do
            return "%s with %s is not rejected (got %s)" % (
                'degree_elevation' if d['op'] == 'elev' else 'degree_reduction',
                {'count': 'a non-Bezier number of control points', 'num': 'num=%s' % d.get('num'), 'degree': 'degree %d' % d['p']}[d['why']], e)
        return None
    if k == 'binomrow':
        comb = __import__('math').comb
        for i in range(d['k'] + 3):
            got = linalg.binomial_coefficient(d['k'], i)
            if got != comb(d['k'], i):
                return "binomial_coefficient(%d,%d) = %s, expected %d" % (d['k'], i, fr(got), comb(d['k'], i))
        return None
    if k == 'binom':
        got = linalg.binomial_coefficient(d['k'], d['i'])
        want = math.comb(d['k'], d['i'])
        if F(got) != want:
            return "binomial_coefficient(%d,%d) = %s, expected %d" % (d['k'], d['i'], fr(got), want)
        return None
    if k == 'bern':
        got = plain([_curve(d).evaluate_single(q(d['u']))])[0]
        want = casteljau(d['P'], d['u'])
        if got != want:
            return "one-span curve of degree %d at u=%s evaluates to (%s), de Casteljau gives (%s)" % (d['p'], fr(d['u']), show_list(got), show_list(want))
        return None
    if k == 'opdeg':
        p, num, P, rat = d['p'], d['num'], d['P'], d['rat']
        before = _curve(d)
        a, b = plain([before.knotvector])[0][0], plain([before.knotvector])[0][-1]   # the setter normalises the domain
        cv = _opdeg(d)
        newp = p + num if num >= 0 else p - 1
        if cv.degree != newp:
            return "degree_operations([%d]) on degree %d gives degree %d" % (num, p, cv.degree)
        Q = plain(cv.ctrlptsw if rat else cv.ctrlpts)
        if len(Q) != newp + 1:
            return "degree_operations([%d]) on a Bezier curve of degree %d gives %d control points" % (num, p, len(Q))
        if plain([cv.knotvector])[0] != [a] * (newp + 1) + [b] * (newp + 1):
            return "degree_operations([%d]): knot vector is not the one-span clamped vector of the new degree" % num
        for u in [F(0), F(1), F(1, 2)] + list(d['us']):
            t = a + (b - a) * u
            x, y = before.evaluate_single(q(t)), cv.evaluate_single(q(t))
            if plain([x]) != plain([y]):
                return ("degree_operations([%d]) on a %s Bezier curve of degree %d: point at u=%s moves from (%s) to (%s)"
                        % (num, 'rational' if rat else 'polynomial', p, fr(t), show_list(x), show_list(y)))
        return None
    return None


# ------------------------------------------------------------------ findings
def classify(c, why):
    """F-08: the second sweep of degree_reduction never runs from degree 5 on, control points right of the middle stay zero"""
    d = c.data
    if c.kind == 'elevred' and 'does not invert' in why and d['p'] + d['num'] >= 5:
        return 'F-08'
    if c.kind == 'opdeg' and d['num'] < 0 and d['p'] >= 5:
        return 'F-08'
    return None


def witness(fid):
    if fid == 'F-08':
        P = [[F(x)] for x in (1, 2, 4, 8, 16)]
        Q = plain(_elevred(4, 1, P))
        return "elevate (1),(2),(4),(8),(16) once and reduce: %s" % show_pts(Q) if Q != P else None
    return None
