"""C16  Linear-algebra routines satisfy their defining equations on every call.

Ops (all handled by `Drv.handleLinalg`, names start with `la.`):
  la.op <call>                       one public call, answered by the cache-free model function
  la.hist <call> ; <call> ; ...      a history of public calls, answered by the model with the
                                     memoised identity matrix as explicit state (empty at the start)
  <call> ::= ident n | pivot A | inverse A | det A | lusolve A B | lufactor A B
  la.dot / la.cross / la.norm / la.normalize / la.vmul / la.vsum / la.vgen / la.ptrans / la.pmid /
  la.vmean / la.viszero / la.transpose / la.mmul / la.mvec / la.mscal / la.binom / la.lud /
  la.fwd / la.bwd                    helpers (public) and substitutions
  linspace a b n                     (shared with C03, handled by `handleBasic`)
The memoised `matrix_identity` is emptied (`cache_clear`) at the start of every case, so every
case - in particular every history - is self-contained and replayable on its own.
"""
import math
from fractions import Fraction as F
from core import Case, q, qs, qpts, fr, show_list, show_pts, show_pts2
import gen as G

PID = 'C16'
FLOAT_KINDS = {'dot', 'cross', 'vmul', 'vsum', 'vmean', 'transpose', 'mmul', 'mvec', 'mscal', 'binom', 'linspace', 'vgen', 'pmid', 'ptrans'}      # float-mode companion (core.float_companion)
FLOAT_TOL = 1e-9
STATS = {}
PARTIAL = [
    "matrix_determinant = Matrix.det is NOT a theorem for all non-singular inputs (open finding F-16b, refuted in Lean on the witness); what is proved is the exact region: "
    "matrixDeterminant_eq_det_iff (correct iff Doolittle on the row-permuted matrix meets no zero pivot or the matrix is singular - after a zero pivot the code returns 0), "
    "doolittle_pivots_iff_minors (no zero pivot iff all leading principal minors non-zero), matrixDeterminant_eq_det_iff_minors (correct iff singular or no leading principal minor "
    "of P*m of a size 2..n-1 vanishes), hence complete for sizes <= 2 (matrixDeterminant_eq_det_le_two) and an explicit 2x2-minor criterion for size 3; "
    "matrixDeterminant_eq_det_partial (the 'no zero pivot' form) is kept under its name because the property as worded fails on the code",
    "shape guards: every theorem about a list-level routine (lu_solve, lu_factor, matrix_pivot, matrix_inverse, matrix_determinant, matrix_multiply, the history theorems) "
    "carries the decidable guard under which the implementation does not raise ValueError/IndexError for the shape of its input (isSquare, luSolveOk, luFactorOk, "
    "matrixInverseOk, matrixMultiplyOk, matrixVectorOk, admissible); the guards are not tested inside the model functions (which pad with 0), they are hypotheses, and "
    "driver_guard is the definitional identity between the guard and the test after which the driver answers ERR (it says nothing about Python); the guards are SUFFICIENT "
    "(never too weak: enumerated against the real code on all shapes with <= 3 rows of length <= 3), NOT necessary: lu_factor with a right-hand side whose later rows are longer, "
    "right-hand sides without columns, matrix_pivot on some ragged inputs return in Python (and in the model, same values) although the guard fails "
    "(guards_sufficient_not_necessary) - the driver would answer ERR there, the generators do not produce these shapes; nothing is claimed outside the guards; "
    "lu_solve with fewer right-hand-side rows than len(A) is accepted by guard and code but every theorem assumes len(b) = len(A)",
    "collocation matrices have non-zero Doolittle pivots: proved for degree 1 only (collocation_degree_one_identity: the matrix is the identity for strictly increasing "
    "parameters, curve and surface directions; interpolateCurve_degree_one_returns: interpolate_curve(.,1) returns the data points); for degree >= 2 total positivity / "
    "Schoenberg-Whitney is NOT proved - collocation_luSolve_returns_of_minors states the hypothesis explicitly (all leading principal minors of the collocation matrix non-zero, "
    "equivalent to 'no zero pivot' by doolittle_pivots_iff_minors), only the positive diagonal is a theorem (C11, for the exact factor 1/p; with the code's rounded 1.0/3 the diagonal can vanish and lu_solve raises: open finding F-11b of C11), and the oracle checks that lu_solve returns on generated "
    "interpolation matrices; that interpolate_surface of degree 1 returns as a whole call is not stated (only: both matrices are the identity and lu_solve(identity, b) returns b)",
    "strict diagonal dominance: both readings are theorems (luSolve_sdd rows, luSolve_sdd_col columns); weak / irreducible dominance is not covered",
    "vector_magnitude / vector_normalize: the square root is an input of the model (normSq is modelled and proved equal to dot(v,v)); the oracle compares with math.sqrt",
    "frange, vector_angle_between, triangle_normal/center, convex_hull: not part of this check (float-only or generator semantics)",
    "LRU eviction order of functools.lru_cache is modelled (most recent first, 16 entries); the history theorem holds for every eviction policy that only drops entries",
    "the refutation of the pinned behaviour F-16a is about a model of the pinned code (`stepPinned`) that is compared with the implementation only through the replayed witnesses, not by the correspondence stream",
]
ASSUMPTIONS = [
    "matrices passed to pivot / inverse / determinant / lu_factor are square lists of lists (the code exchanges only the first n entries of a row) - now an explicit hypothesis (isSquare / ...Ok) of every theorem, not only an assumption of the harness",
    "the right-hand side of lu_solve has exactly len(A) rows in the theorems (the model also follows the code for fewer rows)",
]
TRUSTED = ["harness/props/c16.py exact Bareiss determinant and matrix product (independent of geomdl and of the Lean model)"]


def _cnt(key, sub):
    d = STATS.setdefault(key, {})
    d[str(sub)] = d.get(str(sub), 0) + 1


# ---------------------------------------------------------------- independent exact linear algebra
def mmul(A, B):
    return [[sum((A[i][k] * B[k][j] for k in range(len(B))), F(0)) for j in range(len(B[0]))] for i in range(len(A))]


def ident(n):
    return [[F(1) if i == j else F(0) for j in range(n)] for i in range(n)]


def bareiss(A):
    """exact determinant (fraction-free elimination with row exchanges)"""
    M = [[F(x) for x in r] for r in A]
    n = len(M)
    if n == 0:
        return F(1)
    sign = 1
    prev = F(1)
    for k in range(n - 1):
        if M[k][k] == 0:
            sw = next((i for i in range(k + 1, n) if M[i][k] != 0), None)
            if sw is None:
                return F(0)
            M[k], M[sw] = M[sw], M[k]
            sign = -sign
        for i in range(k + 1, n):
            for j in range(k + 1, n):
                M[i][j] = (M[i][j] * M[k][k] - M[i][k] * M[k][j]) / prev
        prev = M[k][k]
    return sign * M[n - 1][n - 1]


def leading_minors_nonzero(A):
    return all(bareiss([r[:k] for r in A[:k]]) != 0 for k in range(1, len(A) + 1))


def is_sdd(A):
    return all(abs(A[i][i]) > sum(abs(A[i][j]) for j in range(len(A)) if j != i) for i in range(len(A)))


def perm_of(P):
    """the permutation sigma with P[k] = e_sigma(k), or None"""
    n = len(P)
    sig = []
    for r in P:
        if len(r) != n or any(x not in (0, 1) for x in r) or sum(1 for x in r if x == 1) != 1:
            return None
        sig.append([i for i, x in enumerate(r) if x == 1][0])
    return sig if sorted(sig) == list(range(n)) else None


def perm_sign(sig):
    s = 1
    for i in range(len(sig)):
        for j in range(i + 1, len(sig)):
            if sig[i] > sig[j]:
                s = -s
    return s


def pivoted_reference(A):
    """what matrix_pivot must do, written independently: returns sigma"""
    n = len(A)
    sig = list(range(n))
    M = [list(r) for r in A]
    for j in range(n):
        row = j; amax = F(0)
        for i in range(j, n):
            if abs(M[i][j]) > amax:
                amax = abs(M[i][j]); row = i
        if row != j:
            M[j], M[row] = M[row], M[j]; sig[j], sig[row] = sig[row], sig[j]
    return sig, M


# ---------------------------------------------------------------- generators
def _num(rng, kind):
    if kind == 'int':
        return F(rng.randint(-9, 9))
    if kind == 'rat':
        return F(rng.randint(-12, 12), rng.choice([1, 2, 3, 4, 5, 7]))
    if kind == 'float':
        return F(round(rng.uniform(-4, 4), rng.choice([1, 2, 6])))     # the exact value of a double
    return F(rng.randint(-64, 64), rng.choice([1, 2, 4, 8, 16]))       # dyadic


def collocation(rng, n):
    p = rng.randint(1, min(4, n - 1)) if n > 1 else 0
    if n == 1:
        return [[F(1)]], 0
    cuts = sorted(rng.sample(range(1, 60), n - 2)) if n > 2 else []
    uk = [F(0)] + [F(c, 60) for c in cuts] + [F(1)]
    kv = [F(0)] * (p + 1) + [sum(uk[j:j + p], F(0)) / p for j in range(1, n - p)] + [F(1)] * (p + 1)
    A = [[G.cox_de_boor(kv, p, j, u, F(1)) for j in range(n)] for u in uk]
    return A, p


def matrix(rng, n, shape=None):
    """returns (A, shape-tag); mostly non-singular"""
    kind = rng.choice(['int', 'int', 'rat', 'rat', 'dyadic', 'float'])
    if kind == 'float' and n > 5:
        kind = 'rat'
    shape = shape or rng.choice(['random', 'random', 'sdd', 'needswap', 'zerodiag', 'perm', 'diag', 'tri', 'colloc', 'singular', 'f16b'])
    if shape == 'colloc':
        A, p = collocation(rng, n)
    elif shape == 'sdd':
        A = [[_num(rng, kind) for _ in range(n)] for _ in range(n)]
        for i in range(n):
            s = sum(abs(A[i][j]) for j in range(n) if j != i)
            A[i][i] = (s + F(rng.randint(1, 5), rng.choice([1, 2, 3]))) * rng.choice([1, -1])
    elif shape == 'diag':
        A = [[(_num(rng, kind) or F(2)) if i == j else F(0) for j in range(n)] for i in range(n)]
    elif shape == 'perm':
        sig = list(range(n)); rng.shuffle(sig)
        A = [[(_num(rng, kind) or F(1)) if j == sig[i] else F(0) for j in range(n)] for i in range(n)]
    elif shape == 'tri':
        up = rng.random() < .5
        A = [[(_num(rng, kind) if (j >= i if up else j <= i) else F(0)) for j in range(n)] for i in range(n)]
        for i in range(n):
            A[i][i] = A[i][i] or F(3)
    elif shape == 'singular':
        A = [[_num(rng, kind) for _ in range(n)] for _ in range(n)]
        if n == 1:
            A = [[F(0)]]
        else:
            i, j = rng.sample(range(n), 2)
            c = _num(rng, 'int')
            A[i] = [c * x for x in A[j]] if rng.random() < .6 else [F(0)] * n
    elif shape == 'f16b' and n >= 3:
        # column maxima on the unreduced matrix do not prevent a zero pivot (pattern of F-16b)
        A = [[_num(rng, 'int') for _ in range(n)] for _ in range(n)]
        a = F(rng.randint(1, 5))
        A[0][0] = a; A[1][0] = a; A[0][1] = F(rng.randint(-4, 4)); A[1][1] = A[0][1]
        for i in range(2, n):
            A[i][0] = F(rng.randint(-int(a), int(a)))
            A[i][1] = F(rng.randint(0, abs(int(A[0][1])))) if A[0][1] else F(0)
    else:
        A = [[_num(rng, kind) for _ in range(n)] for _ in range(n)]
        if shape in ('needswap', 'zerodiag'):
            for i in range(n if shape == 'zerodiag' else 1):
                if rng.random() < .7 or i == 0:
                    A[i][i] = F(0)
        else:
            shape = 'random'
    if shape == 'f16b' and n < 3:
        shape = 'random'
    if shape in ('sdd', 'random', 'needswap', 'tri', 'diag') and rng.random() < .12:
        # the same matrix at a very small / very large scale: regular pivots of size 1e-9 are pivots, not zeros
        sc = rng.choice([F(1, 10 ** 9), F(1, 10 ** 12), F(10 ** 9)])
        A = [[sc * x for x in row] for row in A]
        shape += '@scaled'
    return A, shape + ':' + kind


def rhs(rng, n, dim=None):
    dim = dim or rng.choice([1, 1, 2, 3])
    kind = rng.choice(['int', 'rat', 'dyadic'])
    return [[_num(rng, kind) for _ in range(dim)] for _ in range(n)]


def call_text(o):
    k = o['call']
    if k == 'ident':
        return "ident %d" % o['n']
    if k in ('pivot', 'inverse', 'det'):
        return "%s %s" % (k, show_pts(o['A']))
    return "%s %s %s" % (k, show_pts(o['A']), show_pts(o['b']))


def mk_call(rng, n, call=None, shape=None):
    call = call or rng.choice(['pivot', 'inverse', 'det', 'lusolve', 'lufactor', 'lufactor', 'inverse'])
    if call == 'ident':
        return dict(call='ident', n=n)
    A, tag = matrix(rng, n, shape)
    o = dict(call=call, A=A, tag=tag)
    if call in ('lusolve', 'lufactor'):
        o['b'] = rhs(rng, n)
    _cnt('call', call); _cnt('size', n); _cnt('shape', tag.split(':')[0]); _cnt('entries', tag.split(':')[1])
    return o


def vec(rng, n, kind=None):
    kind = kind or rng.choice(['int', 'rat', 'dyadic'])
    return [_num(rng, kind) for _ in range(n)]


PYTH = [(3, 4), (5, 12), (1, 2, 2), (2, 3, 6), (4, 4, 7), (1, 4, 8), (2, 10, 11), (0, 0, 5), (3, 4, 0), (1, 1, 1, 1), (2, 4, 5, 6)]


def gen(rng, tier):
    out = []
    thorough = tier != 'quick'
    maxn = 8
    # ---- fixed small cases first (they double as the shrunk witnesses of F-16a / F-16c / F-16b)
    fixed = [
        [dict(call='lufactor', A=[[F(0), F(1)], [F(1), F(0)]], b=[[F(1)], [F(2)]], tag='fixed')],
        [dict(call='lufactor', A=[[F(1), F(2)], [F(3), F(4)]], b=[[F(5)], [F(6)]], tag='fixed')],
        [dict(call='pivot', A=[[F(0), F(1)], [F(1), F(0)]], tag='fixed'), dict(call='inverse', A=[[F(2), F(0)], [F(0), F(4)]], tag='fixed')],
        [dict(call='pivot', A=[[F(0), F(1)], [F(1), F(0)]], tag='fixed'), dict(call='ident', n=2)],
        [dict(call='det', A=[[F(0), F(1)], [F(1), F(0)]], tag='fixed'), dict(call='det', A=[[F(2), F(0)], [F(0), F(4)]], tag='fixed')],
        [dict(call='det', A=[[F(1), F(1), F(0)], [F(1), F(1), F(1)], [F(0), F(1), F(1)]], tag='fixed')],
    ]
    for ops in fixed:
        out.append(_hist_case(ops) if len(ops) > 1 else _op_case(ops[0]))
    # ---- single calls
    for _ in range(150 if not thorough else 2500):
        n = rng.choice([1, 2, 2, 3, 3, 4, 4, 5, 6, 7, 8])
        out.append(_op_case(mk_call(rng, n)))
    # lu_solve on the classes for which the property promises a result
    for _ in range(40 if not thorough else 600):
        n = rng.randint(1, maxn)
        out.append(_op_case(mk_call(rng, n, 'lusolve', rng.choice(['sdd', 'colloc', 'tri', 'diag']))))
    # ---- histories (interleavings); few distinct sizes so that the memoised identity is hit again
    for _ in range(60 if not thorough else 900):
        sizes = [rng.randint(1, 5 if not thorough else maxn) for _ in range(rng.choice([1, 1, 2]))]
        ops = []
        for _ in range(rng.randint(2, 6)):
            n = rng.choice(sizes)
            if rng.random() < .12:
                ops.append(dict(call='ident', n=n))
            else:
                ops.append(mk_call(rng, n, None, rng.choice([None, None, 'needswap', 'perm', 'diag', 'sdd'])))
        out.append(_hist_case(ops))
    # more than 16 sizes in one history: the LRU evicts
    if thorough:
        ops = []
        for n in list(range(1, 20)) + [1, 2, 3]:
            ops.append(mk_call(rng, n if n <= 6 else 2, 'pivot', 'perm') if n <= 6 else dict(call='ident', n=n))
        out.append(_hist_case(ops))
    # ---- malformed stream (error branch)
    for _ in range(16 if not thorough else 200):
        n = rng.randint(1, 5)
        o = mk_call(rng, n, rng.choice(['inverse', 'det', 'lusolve', 'lufactor']))
        r = rng.random()
        if r < .4 and n > 1:
            o['A'] = [row[:-1] if i == len(o['A']) - 1 else row for i, row in enumerate(o['A'])]
        elif r < .7 and 'b' in o:
            o['b'] = o['b'] + [o['b'][0]]
        else:
            o['A'] = o['A'] + [o['A'][0]]
        o['tag'] = 'malformed'
        out.append(_op_case(o))
    # ---- helpers
    for _ in range(120 if not thorough else 1500):
        r = rng.random()
        n = rng.randint(1, 6)
        if r < .12:
            v, w = vec(rng, n), vec(rng, rng.choice([n, n, n + 1]))
            out.append(Case('dot', "la.dot %s %s" % (show_list(v), show_list(w)), dict(v=v, w=w)))
        elif r < .24:
            v, w = vec(rng, rng.choice([2, 3, 3])), vec(rng, rng.choice([2, 3, 3, 3, 4]))
            out.append(Case('cross', "la.cross %s %s" % (show_list(v), show_list(w)), dict(v=v, w=w)))
        elif r < .32:
            base = rng.choice(PYTH); s = F(rng.randint(1, 9), rng.choice([1, 2, 4, 8, 8, 3]))
            v = [s * x * rng.choice([1, -1]) for x in base]
            rng.shuffle(v)
            if rng.random() < .25:
                v = vec(rng, len(v))
            k = rng.choice(['norm', 'normalize'])
            out.append(Case(k, "la.%s %s" % (k, show_list(v)), dict(v=v)))
        elif r < .38:
            v = vec(rng, n); s = _num(rng, 'rat')
            out.append(Case('vmul', "la.vmul %s %s" % (show_list(v), fr(s)), dict(v=v, s=s)))
        elif r < .44:
            v, w, c = vec(rng, n), vec(rng, n), _num(rng, 'rat')
            out.append(Case('vsum', "la.vsum %s %s %s" % (show_list(v), show_list(w), fr(c)), dict(v=v, w=w, c=c)))
        elif r < .50:
            v, w = vec(rng, n), vec(rng, n)
            k = rng.choice(['vgen', 'ptrans', 'pmid'])
            out.append(Case(k, "la.%s %s %s" % (k, show_list(v), show_list(w)), dict(v=v, w=w)))
        elif r < .55:
            m = [vec(rng, n, 'rat') for _ in range(rng.randint(1, 5))]
            out.append(Case('vmean', "la.vmean %s" % show_pts(m), dict(m=m)))
        elif r < .60:
            tol = F(10e-8)
            v = [rng.choice([F(0), tol / 2, -tol / 2, tol * 2, tol, F(1, 3)]) for _ in range(n)]
            out.append(Case('viszero', "la.viszero %s" % show_list(v), dict(v=v), tags=('tol-probe',)))
        elif r < .70:
            rr, cc = rng.randint(1, 5), rng.randint(1, 5)
            while cc == rr:
                cc = rng.randint(1, 6)
            m = [vec(rng, cc, 'rat') for _ in range(rr)]
            if rng.random() < .1:
                m[-1] = m[-1][:-1]                       # ragged: short last row
            out.append(Case('transpose', "la.transpose %s" % show_pts(m), dict(m=m)))
        elif r < .82:
            a_r, a_c, b_c = rng.randint(1, 5), rng.randint(1, 5), rng.randint(1, 5)
            A = [vec(rng, a_c, 'rat') for _ in range(a_r)]
            B = [vec(rng, b_c, 'rat') for _ in range(a_c if rng.random() < .9 else a_c + 1)]
            out.append(Case('mmul', "la.mmul %s %s" % (show_pts(A), show_pts(B)), dict(A=A, B=B)))
        elif r < .88:
            a_r, a_c = rng.randint(1, 5), rng.randint(1, 5)
            A = [vec(rng, a_c, 'rat') for _ in range(a_r)]; v = vec(rng, a_c)
            out.append(Case('mvec', "la.mvec %s %s" % (show_pts(A), show_list(v)), dict(A=A, v=v)))
        elif r < .92:
            rr, cc = rng.randint(1, 4), rng.randint(1, 4)
            m = [vec(rng, cc, 'rat') for _ in range(rr)]; s = _num(rng, 'rat')
            out.append(Case('mscal', "la.mscal %s %s" % (show_pts(m), fr(s)), dict(m=m, s=s)))
        else:
            k = rng.randint(0, 30); i = rng.randint(0, k + 2) if rng.random() < .85 else k + rng.randint(1, 3)
            out.append(Case('binom', "la.binom %d %d" % (k, i), dict(k=k, i=i)))
    for _ in range(20 if not thorough else 200):
        n = rng.randint(1, 6)
        A, tag = matrix(rng, n)
        out.append(Case('lud', "la.lud %s" % show_pts(A), dict(A=A, tag=tag)))
        # substitutions on triangular factors (helper level)
        Lm = [[_num(rng, 'rat') if j < i else (F(rng.choice([1, 1, 2, -3])) if j == i else F(0)) for j in range(n)] for i in range(n)]
        if rng.random() < .1:
            Lm[rng.randrange(n)][rng.randrange(n)] = F(0)
        b = vec(rng, n)
        out.append(Case('fwd', "la.fwd %s %s" % (show_pts(Lm), show_list(b)), dict(L=Lm, b=b)))
        Um = [[Lm[j][i] for j in range(n)] for i in range(n)]
        out.append(Case('bwd', "la.bwd %s %s" % (show_pts(Um), show_list(b)), dict(U=Um, y=b)))
        a = F(rng.randint(-3, 3)); bb = a + F(rng.randint(1, 9), rng.choice([1, 2, 3])); m = rng.randint(1, 30)
        if rng.random() < .3:
            a, bb = bb, a                          # a descending sequence (start > stop)
        elif rng.random() < .08:
            bb = a                                 # degenerate interval: correspondence only (the code returns [start])
        out.append(Case('linspace', "linspace %s %s %d" % (fr(a), fr(bb), m), dict(a=a, b=bb, m=m)))
    # ---- frange (the other evenly spaced sequence; model function of C20, same driver line): positive steps only
    for _ in range(12 if not thorough else 150):
        a = F(rng.randint(-6, 6), rng.choice([1, 2, 3])); step = F(rng.randint(1, 9), rng.choice([1, 2, 3, 7]))
        b = a + (rng.randint(1, 9) * step if rng.random() < .5 else step * F(rng.randint(0, 40), 8))
        out.append(Case('frange', "frange %s %s %s" % (fr(a), fr(b), fr(step)), dict(a=a, b=b, step=step)))
    # ---- geometric helpers (oracle only): distance, angle, triangle centre / normal
    for _ in range(40 if not thorough else 400):
        r = rng.random()
        if r < .35:
            base = rng.choice(PYTH); sc = F(rng.randint(1, 9), rng.choice([1, 2, 4, 8, 3]))
            dv = [sc * x * rng.choice([1, -1]) for x in base]
            if rng.random() < .3:
                dv = vec(rng, len(dv))
            p1 = vec(rng, len(dv))
            out.append(Case('pdist', None, dict(p1=p1, p2=[a_ + b_ for a_, b_ in zip(p1, dv)], bad=(rng.random() < .1))))
        elif r < .6:
            n = rng.choice([2, 3, 3])
            v, w = vec(rng, n), vec(rng, n)
            if any(v) and any(w):
                out.append(Case('angle', None, dict(v=v, w=w, deg=(rng.random() < .5))))
        else:
            out.append(Case('tri', None, dict(pts=[vec(rng, 3) for _ in range(3)], uvs=[vec(rng, 2) for _ in range(3)])))
    return out


def _op_case(o):
    return Case('op-' + o['call'], "la.op " + call_text(o), dict(ops=[o]))


def _hist_case(ops):
    return Case('hist', "la.hist " + " ; ".join(call_text(o) for o in ops), dict(ops=ops))


# ---------------------------------------------------------------- implementation
def _fresh():
    """empty the memoised identity (start of a self-contained history)"""
    from geomdl import linalg
    cc = getattr(linalg.matrix_identity, 'cache_clear', None)
    if cc:
        cc()


_BUF = {}


def _call(o):
    """one public call on the real implementation; returns the raw result"""
    from geomdl import linalg
    k = o['call']
    if k == 'ident':
        return [linalg.matrix_identity(o['n'])]
    A = qpts(o['A'])
    buf = _BUF.get((k in ('lusolve', 'lufactor'), len(A), len(A[0]) if A else 0))
    if buf is not None and o.get('_reuse'):
        # the caller refills the matrix object he used in the previous call of this kind (same list objects, new entries)
        for r_, row in enumerate(A):
            for c_, x_ in enumerate(row):
                buf[r_][c_] = x_
        A = buf
    _BUF[(k in ('lusolve', 'lufactor'), len(A), len(A[0]) if A else 0)] = A
    o['_args'] = [A]                  # kept so that the oracle can see whether a routine modified its arguments
    if 'b' in o:
        o['_args'].append(None)
    if k == 'pivot':
        mp, p, s = linalg.matrix_pivot(A, sign=True)
        return [mp, p, [[s]]]
    if k == 'inverse':
        return [linalg.matrix_inverse(A)]
    if k == 'det':
        return [[[linalg.matrix_determinant(A)]]]
    if k == 'lusolve':
        b = qpts(o['b']); o['_args'][1] = b
        return [linalg.lu_solve(A, b)]
    if k == 'lufactor':
        b = qpts(o['b']); o['_args'][1] = b
        return [linalg.lu_factor(A, b)]
    raise ValueError(k)


def _run(ops):
    """the history on the real implementation: list of raw results / None for an exception"""
    _fresh()
    _BUF.clear()
    res = []
    for n_, o in enumerate(ops):
        o['_reuse'] = (n_ % 2 == 1)       # every second call of a history reuses the caller's matrix object
        try:
            res.append(_call(o))
        except Exception:
            o.pop('_args', None)
            res.append(None)
        o.pop('_reuse', None)
        # the arguments are judged NOW (a later call may legitimately refill the same objects)
        if '_args' in o:
            if _fx(o['_args'][0]) != o['A']:
                o['_argsmod'] = "%s modified its matrix argument in place" % o['call']
            elif len(o['_args']) > 1 and o['_args'][1] is not None and _fx(o['_args'][1]) != o['b']:
                o['_argsmod'] = "%s modified its right-hand side argument in place" % o['call']
            o.pop('_args', None)
    return res


def _fx(M):
    """exact entries (Fractions) of an implementation result"""
    return [[F(fr(x)) for x in r] for r in M]


def impl(c):
    from geomdl import linalg
    d = c.data
    k = c.kind
    if k.startswith('op-') or k == 'hist':
        res = _run(d['ops'])
        return " ; ".join('ERR' if r is None else show_pts2(r) for r in res)
    _fresh()
    if k == 'dot':
        return fr(linalg.vector_dot(qs(d['v']), qs(d['w'])))
    if k == 'cross':
        return show_list(linalg.vector_cross(qs(d['v']), qs(d['w'])))
    if k == 'norm':
        sq = sum((x * x for x in d['v']), F(0))
        m = linalg.vector_magnitude(qs(d['v']))
        return fr(m) if F(fr(m)) ** 2 == sq else 'IRR'
    if k == 'normalize':
        sq = sum((x * x for x in d['v']), F(0))
        o = linalg.vector_normalize(qs(d['v']))
        m = linalg.vector_magnitude(qs(d['v']))
        return show_list(o) if F(fr(m)) ** 2 == sq else 'IRR'
    if k == 'vmul':
        return show_list(linalg.vector_multiply(qs(d['v']), q(d['s'])))
    if k == 'vsum':
        return show_list(linalg.vector_sum(qs(d['v']), qs(d['w']), q(d['c'])))
    if k == 'vgen':
        return show_list(linalg.vector_generate(qs(d['v']), qs(d['w'])))
    if k == 'ptrans':
        return show_list(linalg.point_translate(qs(d['v']), qs(d['w'])))
    if k == 'pmid':
        return show_list(linalg.point_mid(qs(d['v']), qs(d['w'])))
    if k == 'vmean':
        return show_list(linalg.vector_mean(*qpts(d['m'])))
    if k == 'viszero':
        return str(linalg.vector_is_zero(qs(d['v'])))
    if k == 'transpose':
        return show_pts(linalg.matrix_transpose(qpts(d['m'])))
    if k == 'mmul':
        return show_pts(linalg.matrix_multiply(qpts(d['A']), qpts(d['B'])))
    if k == 'mvec':
        return show_list(linalg.matrix_multiply(qpts(d['A']), qs(d['v'])))
    if k == 'mscal':
        return show_pts(linalg.matrix_scalar(qpts(d['m']), q(d['s'])))
    if k == 'binom':
        return fr(linalg.binomial_coefficient(d['k'], d['i']))
    if k == 'lud':
        L, U = linalg.lu_decomposition(qpts(d['A']))
        return show_pts2([L, U])
    if k == 'fwd':
        return show_list(linalg.forward_substitution(qpts(d['L']), qs(d['b'])))
    if k == 'bwd':
        return show_list(linalg.backward_substitution(qpts(d['U']), qs(d['y'])))
    if k == 'linspace':
        return show_list(linalg.linspace(q(d['a']), q(d['b']), d['m']))
    if k == 'frange':
        return show_list(list(linalg.frange(q(d['a']), q(d['b']), q(d['step']))))
    raise ValueError(k)


# ---------------------------------------------------------------- oracle
def _square(A):
    return all(len(r) == len(A) for r in A)


def _check_call(o, r):
    """the property for one call with raw result r (None = raised); returns None | description.
    Descriptions of the recorded finding F-16b start with 'matrix_determinant'."""
    k = o['call']
    if k == 'ident':
        if r is None or _fx(r[0]) != ident(o['n']):
            return "matrix_identity(%d) is not the identity matrix: %s" % (o['n'], 'raised' if r is None else show_pts(r[0]))
        return None
    A = o['A']
    n = len(A)
    tag = o.get('tag', '')
    if tag == 'malformed' or not _square(A) or n == 0:
        return None
    dA = bareiss(A)
    if k in ('lusolve', 'lufactor'):
        b = o['b']
        if len(b) != n:
            return None
        name = 'lu_solve' if k == 'lusolve' else 'lu_factor'
        if r is None:
            if k == 'lusolve' and (is_sdd(A) or tag.startswith('colloc')):
                return "lu_solve raised on a %s matrix" % ('strictly diagonally dominant' if is_sdd(A) else 'spline collocation')
            if k == 'lusolve' and leading_minors_nonzero(A):
                return "lu_solve raised although every leading minor is non-zero"
            return None
        x = _fx(r[0])
        if len(x) != n or any(len(row) != len(b[0]) for row in x):
            return "%s returns a result of the wrong shape" % name
        if mmul(A, x) != b:
            return "%s(A, b) returns x with A*x != b (A=%s, b=%s, x=%s)" % (name, show_pts(A), show_pts(b), show_pts(x))
        if dA == 0:
            return "%s returns a result for a singular matrix" % name
        return None
    if k == 'inverse':
        if r is None:
            return None
        X = _fx(r[0])
        if len(X) != n or any(len(row) != n for row in X):
            return "matrix_inverse returns a result of the wrong shape"
        if mmul(A, X) != ident(n) or mmul(X, A) != ident(n):
            return "matrix_inverse(A) returns X with A*X != I (A=%s, X=%s)" % (show_pts(A), show_pts(X))
        return None
    if k == 'det':
        if r is None:
            return "matrix_determinant raised"
        d = F(fr(r[0][0][0]))
        if d != dA:
            return "matrix_determinant(%s) returns %s, the determinant is %s" % (show_pts(A), fr(d), fr(dA))
        return None
    if k == 'pivot':
        if r is None:
            return "matrix_pivot raised"
        mp, p, s = _fx(r[0]), _fx(r[1]), F(fr(r[2][0][0]))
        sig = perm_of(p)
        if sig is None:
            return "matrix_pivot: P is not a permutation matrix (%s)" % show_pts(p)
        if mp != [A[i] for i in sig] or mp != mmul(p, A):
            return "matrix_pivot: the returned matrix is not P*A"
        if any(abs(mp[i][j]) > abs(mp[j][j]) for j in range(n) for i in range(j + 1, n)):
            return "matrix_pivot: a diagonal entry is not the column maximum of the rows below it"
        if s != perm_sign(sig):
            return "matrix_pivot: sign %s is not det(P) = %d" % (fr(s), perm_sign(sig))
        return None
    return None


def _is_f16b(o, why):
    """exactly the recorded pattern: non-singular matrix, 0 returned, Doolittle of the row-permuted
    matrix (the implementation's own, correct, P*A) meets a zero pivot (a leading minor of P*A vanishes)"""
    if not (why and why.startswith('matrix_determinant(') and o['call'] == 'det'):
        return False
    A = o['A']
    if bareiss(A) == 0 or ' returns 0,' not in why:
        return False
    from geomdl import linalg
    _fresh()
    mp, p = linalg.matrix_pivot(qpts(A))
    mp, sig = _fx(mp), perm_of(_fx(p))
    if sig is None or mp != [A[i] for i in sig]:
        return False          # pivoting itself is wrong: not the recorded finding
    return not leading_minors_nonzero(mp)


def oracle(c):
    from geomdl import linalg
    d = c.data
    k = c.kind
    if k.startswith('op-') or k == 'hist':
        ops = d['ops']
        res = _run(ops)
        known = None
        for i, (o, r) in enumerate(zip(ops, res)):
            why = _check_call(o, r)
            # the routines answer questions about their arguments: they must not modify them
            if not why and o.get('_argsmod'):
                why = o['_argsmod']
            o.pop('_argsmod', None)
            if why:
                if _is_f16b(o, why):
                    known = known or why
                    continue
                return ("call %d of %d: " % (i + 1, len(ops)) if len(ops) > 1 else "") + why
        # history independence: every call answers as it does on its own
        if len(ops) > 1:
            for i, (o, r) in enumerate(zip(ops, res)):
                alone = _run([o])[0]
                a = 'ERR' if alone is None else show_pts2(alone)
                h = 'ERR' if r is None else show_pts2(r)
                if a != h:
                    return "call %d of %d (%s) answers %s after the preceding calls and %s on its own" % (i + 1, len(ops), o['call'], h, a)
        return known
    _fresh()
    if k == 'pdist':
        p1, p2 = d['p1'], d['p2']
        if d.get('bad'):
            try:
                linalg.point_distance(qs(p1), qs(p2 + [F(1)]))
            except Exception:
                return None
            return "point_distance accepts points of different dimension"
        got = F(fr(linalg.point_distance(qs(p1), qs(p2))))
        sq = sum(((a - b) ** 2 for a, b in zip(p1, p2)), F(0))
        if got < 0 or abs(got * got - sq) > F(1, 10 ** 12) * max(sq, F(1)):
            return "point_distance %s is not the Euclidean distance (square %s)" % (fr(got), fr(sq))
        return None
    if k == 'angle':
        v, w = d['v'], d['w']
        dot = sum((a * b for a, b in zip(v, w)), F(0))
        n2 = sum((a * a for a in v), F(0)) * sum((a * a for a in w), F(0))
        cos2 = dot * dot / n2                                  # exact cos^2
        try:
            got = float(linalg.vector_angle_between(qs(v), qs(w), degrees=d['deg']))
        except ValueError:
            # |cos| = 1 up to rounding (parallel vectors): dot/(|v||w|) may come out as 1 + 2^-52 and acos refuses it
            return None if cos2 > 1 - F(1, 10 ** 12) else "vector_angle_between raises ValueError for vectors that are not parallel"
        rad = math.radians(got) if d['deg'] else got
        want_cos = math.copysign(math.sqrt(float(cos2)), float(dot))
        # compared through the cosine (acos is ill-conditioned next to +-1); the angle itself must lie in [0, pi]
        if not (-1e-12 <= rad <= math.pi + 1e-12) or abs(math.cos(rad) - want_cos) > 1e-9:
            return "vector_angle_between gives %r (%s), its cosine is %r, the vectors' cosine is %r" % (got, 'degrees' if d['deg'] else 'radians', math.cos(rad), want_cos)
        return None
    if k == 'tri':
        from geomdl import elements
        vs = []
        for i, (p, uv) in enumerate(zip(d['pts'], d['uvs'])):
            vtx = elements.Vertex(*qs(p)); vtx.uv = qs(uv); vtx.id = i
            vs.append(vtx)
        tri = elements.Triangle(*vs)
        cen = [F(fr(x)) for x in linalg.triangle_center(tri)]
        if cen != [sum((p[j] for p in d['pts']), F(0)) / 3 for j in range(3)]:
            return "triangle_center is not the mean of the three vertices"
        cuv = [F(fr(x)) for x in linalg.triangle_center(tri, uv=True)]
        if cuv != [sum((p[j] for p in d['uvs']), F(0)) / 3 for j in range(2)]:
            return "triangle_center(uv=True) is not the mean of the three parameter pairs"
        nrm = [F(fr(x)) for x in linalg.triangle_normal(tri)]
        a, b, c_ = d['pts']
        e1 = [y - x for x, y in zip(a, b)]; e2 = [y - x for x, y in zip(b, c_)]
        want = [e1[1] * e2[2] - e1[2] * e2[1], e1[2] * e2[0] - e1[0] * e2[2], e1[0] * e2[1] - e1[1] * e2[0]]
        if nrm != want:
            return "triangle_normal is not the cross product of the edges"
        return None
    if k == 'dot':
        v, w = d['v'], d['w']
        got = F(fr(linalg.vector_dot(qs(v), qs(w))))
        if got != sum((a * b for a, b in zip(v, w)), F(0)):
            return "vector_dot is not the sum of products"
        return None
    if k == 'cross':
        v, w = d['v'], d['w']
        if not (2 <= len(v) <= 3 and 2 <= len(w) <= 3):
            return None
        got = [F(fr(x)) for x in linalg.vector_cross(qs(v), qs(w))]
        a = list(v) + [F(0)] * (3 - len(v)); b = list(w) + [F(0)] * (3 - len(w))
        want = [bareiss([[F(1) if t == i else F(0) for t in range(3)], a, b]) for i in range(3)]
        if got != want:
            return "vector_cross differs from the cofactor definition"
        if sum(x * y for x, y in zip(got, a)) != 0 or sum(x * y for x, y in zip(got, b)) != 0:
            return "vector_cross is not orthogonal to its arguments"
        return None
    if k in ('norm', 'normalize'):
        v = d['v']
        sq = sum((x * x for x in v), F(0))
        m = F(fr(linalg.vector_magnitude(qs(v))))
        if m < 0 or abs(m * m - sq) > sq * F(1, 2 ** 49):
            return "vector_magnitude is not the square root of the sum of squares (relative deviation of the square above 2^-49)"
        if k == 'normalize' and sq > 0:
            o = [F(fr(x)) for x in linalg.vector_normalize(qs(v))]
            if o != [x / m for x in v]:
                return "vector_normalize is not v / |v|"
        return None
    if k == 'vmean':
        m = d['m']
        got = [F(fr(x)) for x in linalg.vector_mean(*qpts(m))]
        if got != [sum((r[i] for r in m), F(0)) / len(m) for i in range(len(m[0]))]:
            return "vector_mean is not the arithmetic mean"
        return None
    if k == 'pmid':
        got = [F(fr(x)) for x in linalg.point_mid(qs(d['v']), qs(d['w']))]
        if got != [(a + b) / 2 for a, b in zip(d['v'], d['w'])]:
            return "point_mid is not the midpoint"
        return None
    if k == 'transpose':
        m = d['m']
        if any(len(r) != len(m[0]) for r in m):
            return None
        t = _fx(linalg.matrix_transpose(qpts(m)))
        if t != [[m[j][i] for j in range(len(m))] for i in range(len(m[0]))]:
            return "matrix_transpose[i][j] != m[j][i]"
        if _fx(linalg.matrix_transpose(qpts(t))) != m:
            return "matrix_transpose is not an involution"
        return None
    if k == 'mmul':
        A, B = d['A'], d['B']
        if len(A[0]) != len(B):
            return None
        if _fx(linalg.matrix_multiply(qpts(A), qpts(B))) != mmul(A, B):
            return "matrix_multiply differs from the definition"
        return None
    if k == 'mvec':
        A, v = d['A'], d['v']
        got = [F(fr(x)) for x in linalg.matrix_multiply(qpts(A), qs(v))]
        if got != [sum((r[i] * v[i] for i in range(len(v))), F(0)) for r in A]:
            return "matrix_multiply (matrix-vector) differs from the definition"
        return None
    if k == 'binom':
        got = F(fr(linalg.binomial_coefficient(d['k'], d['i'])))
        if got != math.comb(d['k'], d['i']):
            return "binomial_coefficient(%d,%d) = %s" % (d['k'], d['i'], fr(got))
        return None
    if k == 'lud':
        A = d['A']
        L, U = linalg.lu_decomposition(qpts(A))
        L, U = _fx(L), _fx(U)
        n = len(A)
        if any(U[i][i] == 0 for i in range(n)):
            return None
        if any(L[i][i] != 1 for i in range(n)) or any(L[i][j] != 0 for i in range(n) for j in range(i + 1, n)) \
                or any(U[i][j] != 0 for i in range(n) for j in range(i)):
            return "lu_decomposition: L is not unit lower or U is not upper triangular"
        if mmul(L, U) != A:
            return "lu_decomposition: L*U != A although no pivot vanishes"
        return None
    if k == 'fwd':
        L, b = d['L'], d['b']
        try:
            y = [F(fr(x)) for x in linalg.forward_substitution(qpts(L), qs(b))]
        except ZeroDivisionError:
            return None if any(L[i][i] == 0 for i in range(len(b))) else "forward_substitution raised without a zero diagonal entry"
        if [sum(L[i][j] * y[j] for j in range(len(b))) for i in range(len(b))] != b and all(L[i][j] == 0 for i in range(len(b)) for j in range(i + 1, len(b))):
            return "forward_substitution: L*y != b"
        return None
    if k == 'bwd':
        U, y = d['U'], d['y']
        try:
            x = [F(fr(t)) for t in linalg.backward_substitution(qpts(U), qs(y))]
        except ZeroDivisionError:
            return None if any(U[i][i] == 0 for i in range(len(y))) else "backward_substitution raised without a zero diagonal entry"
        if [sum(U[i][j] * x[j] for j in range(len(y))) for i in range(len(y))] != y and all(U[i][j] == 0 for i in range(len(y)) for j in range(i)):
            return "backward_substitution: U*x != y"
        return None
    if k == 'frange':
        a, b, step = d['a'], d['b'], d['step']
        got = [F(fr(x)) for x in linalg.frange(q(a), q(b), q(step))]
        want = [a]
        while want[-1] + step / 2 < b:
            want.append(a + len(want) * step)
        if b > want[-1]:
            want.append(b)
        if got != want:
            return "frange(%s,%s,%s) is not start + i*step up to the last value within half a step of stop, then stop" % (fr(a), fr(b), fr(step))
        return None
    if k == 'linspace':
        a, b, m = d['a'], d['b'], d['m']
        o = [F(fr(x)) for x in linalg.linspace(q(a), q(b), m)]
        if m >= 2 and a != b and o != [a + i * (b - a) / (m - 1) for i in range(m)]:
            return "linspace is not start + i*(stop-start)/(num-1)"
        return None
    return None


def classify(c, why):
    """F-16b only if every failing call of the case is exactly the recorded pattern"""
    d = c.data
    if 'ops' in d and why and why.startswith('matrix_determinant('):
        for o in d['ops']:
            if o['call'] == 'det' and _is_f16b(o, why) and show_pts(o['A']) in why:
                return 'F-16b'
    return None


def witness(fid):
    if fid == 'F-16b':
        from geomdl import linalg
        _fresh()
        A = [[1, 1, 0], [1, 1, 1], [0, 1, 1]]
        got = linalg.matrix_determinant(qpts([[F(x) for x in r] for r in A]))
        return "matrix_determinant([[1,1,0],[1,1,1],[0,1,1]]) = %s, determinant is -1" % fr(got) if F(fr(got)) != -1 else None
    return None
