"""C03  Basis functions and knot-span search satisfy their defining identities."""
from fractions import Fraction as F
from core import Case, q, qs, fr, show_list, show_pts, safe
import gen as G

PID = 'C03'
FLOAT_KINDS = {'basis', 'basisall', 'basisone', 'bders', 'bdersone', 'kvgen', 'kvnorm', 'linspace'}      # float-mode companion (core.float_companion)
FLOAT_TOL = 1e-9
STATS = G.STATS
TOL_SPAN = F(1, 100000)
PARTIAL = [
    "A2.3: the literal transcription (basisFunsDersA23, compared with helpers.basis_function_ders by the C02 stream bders23) is proved equal to the specification table in C02; rows-sum-to-zero and row 0 = A2.2 are proved for that table",
    "A2.4 (basis_function_one) = Cox-de Boor is proved on the domain except where it is false as worded: the last function at the last knot returns 1 (half-open Cox-de Boor: 0; proved equal to the A2.2 entry of the last span for end-clamped vectors), and the first function at U[0] returns 1 also outside the domain of an unclamped vector / for start multiplicity > p+1 (hypotheses U p <= u, U 0 < U (p+1))",
    "A2.5 (basis_function_ders_one, literal model) = column of the A2.3 specification table is proved for order <= degree on half-open spans; at the last knot A2.5 returns zeros (no boundary special case, unlike A2.4) - covered only by the closed form",
    "support of a Cox-de Boor function without a span index (coxDeBoor_support, _zero_set, _support_by_multiplicity): for sorted knots, every degree / index and EVERY number u, N_{i,p}(u) >= 0 and N_{i,p}(u) != 0 iff U_i <= u < U_{i+p+1} and (U_i < u or U_{i+p} <= u) - proved in full; A2.5 at the last knot as coded (basisFunDersOne_last_knot: order+1 zeros for every accepted index and every order, also order > degree - the guard returns first) is proved, and that it is NOT the left-limit value / derivatives there (basisFunDersOne_last_knot_differs: A2.5 gives 0, A2.4 gives 1, row 0 of A2.3 on the last span gives 1; witness with derivatives 0,0,0 against 1,2,2); OPEN FINDING F-03c (known_findings.json): the exact oracle now judges A2.5 at the last knot of the vector too (against the A2.3 column of the span found = left limit, as the property asks 'at both ends, all derivative orders') and classifies exactly this failure pattern (u = last knot, all-zero answer) as F-03c; only at an INTERIOR domain end of an unclamped vector the comparison is skipped (A2.5 right-continuous, A2.3 on the left piece); the correspondence stream bdersone (model = code) covers every parameter - supersedes the last clause of the A2.5 item above",
]
PARTIAL.append("F-03b (open, recorded): for a knot vector whose END knot is repeated more than p+1 times, A2.4 (basis_function_one) at u = the last knot returns 1 for the LAST function (the special case of The NURBS Book, `i == m-p-1 and u == U[m]`), which has empty support there, and 0 for the last function with non-empty support, whose Cox-de Boor left limit (= the A2.2 entry on the span the repaired search finds) is 1; the A2.4 sentence above ('the last function at the last knot returns 1 ... proved equal to the A2.2 entry of the last span for end-clamped vectors') is about end-clamped vectors with EXACTLY p+1 equal end knots (KnotsOk: non-empty last span), where the last function is the one with the value 1; for end multiplicity > p+1 A2.4 has no theorem, it is judged by the exact oracle of the stream empty-last-span (kind span-end, every function index) and classified as F-03b; unclamped vectors with U_{n-1} = U_n (end-of-domain multiplicity <= p) are judged too and A2.4 is right there")
PARTIAL.append("knot vectors with an empty last domain span (F-01b, repaired): the span statements are proved for the literal models of the REPAIRED searches (findSpanLinearR / findSpanBinR, Model/SpanR.lean: first loop, then the step back while the span is empty; tolerance shortcut + step back, then the unchanged bisection) - findSpanR_eq_unrepaired (= the searches without step back whenever the span found is not empty, so every KnotsOk theorem transfers), findSpanLinearR_spec (every sorted knot vector with U_p < U_n, every u of the closed domain: legal NON-EMPTY span containing u, half-open below U_n, the LAST NON-EMPTY span at U_n), findSpanLinearR_unique, findSpanBinR_eq_linearR (tolerance hypothesis stated for the last non-empty span), witness findSpanR_witness_F01b; correspondence with the real functions at u = U_n too (stream empty-last-span: kind span-end now has a model line `span linr` / `span binr` besides the oracle; ordinary knot vectors: stream ordinary-r, kinds span-linr / span-binr). NOT lifted: the whole-domain composition of the search with A2.4 (basisFunOne_eq_basisFuns_domain keeps its end-clamped hypothesis); the ops `span lin` / `span bin` (findSpanLinear / findSpanBin, no step back) still answer ERR when the span they find is empty; the consumers of the repaired linear search are lifted in C01 / C02 (point evaluation, evaluate_list, sampled grids, derivatives of curves and surfaces through findSpanLinearR: Model/SpanRGrid.lean, theorems *_repaired_* there), all resting on findSpanLinearR_spec")
ASSUMPTIONS = ["distinct knots are further apart than the tolerances 1e-5 (binary search) / 1e-7 (multiplicity), except in the tolerance-probe stream"]


def _kv(d):
    return qs(d['kv'])


def gen(rng, tier):
    n_cases = 260 if tier == 'quick' else 4000
    maxp = 7 if tier == 'quick' else 9
    out = []
    for _ in range(n_cases):
        p = rng.randint(1, maxp)
        clamped = rng.random() < .8
        kv, n = G.knots(rng, p, clamped=clamped)
        u = G.param(rng, kv, p, n)
        U = show_list(kv)
        d = dict(p=p, n=n, kv=kv, u=u)
        r = rng.random()
        if r < .18:
            out.append(Case('span-lin', "span lin %d %d %s %s" % (p, n, U, fr(u)), d))
        elif r < .36:
            out.append(Case('span-bin', "span bin %d %d %s %s" % (p, n, U, fr(u)), d))
        elif r < .42:
            out.append(Case('mult', "mult %s %s" % (fr(u), U), d))
        elif r < .60:
            k = G.span_of(kv, p, n, u); d['k'] = k
            out.append(Case('basis', "basis %d %s %d %s" % (p, U, k, fr(u)), d))
        elif r < .68:
            k = G.span_of(kv, p, n, u); d['k'] = k
            out.append(Case('basisall', "basisall %d %s %d %s" % (p, U, k, fr(u)), d))
        elif r < .80:
            k0 = G.span_of(kv, p, n, u)
            # mostly one of the basis functions that are active at u (incl. the last one at the domain end)
            i = rng.randint(k0 - p, k0) if rng.random() < .7 else rng.randint(0, n - 1)
            d['i'] = i
            out.append(Case('basisone', "basisone %d %s %d %s" % (p, U, i, fr(u)), d))
        else:
            k = G.span_of(kv, p, n, u); d['k'] = k; d['order'] = rng.randint(0, p)
            out.append(Case('bders', "bders %d %s %d %s %d" % (p, U, k, fr(u), d['order']), d))
    # interior knots of FULL multiplicity (p + 1) with the parameter exactly on them: every routine must take
    # the right-hand span there
    for _ in range(24 if tier == 'quick' else 300):
        p = rng.randint(1, 5)
        kv, n = G.knots(rng, p, max_interior=3, clamped=rng.random() < .8, max_mult=p + 1)
        full = [x for x in set(kv[p + 1:n]) if kv.count(x) == p + 1]
        if not full:
            continue
        u = rng.choice(full)
        U = show_list(kv)
        k0 = G.span_of(kv, p, n, u)
        d = dict(p=p, n=n, kv=kv, u=u, k=k0)
        r = rng.random()
        if r < .2:
            out.append(Case('span-lin', "span lin %d %d %s %s" % (p, n, U, fr(u)), d, tags=('full-multiplicity',)))
        elif r < .35:
            out.append(Case('span-bin', "span bin %d %d %s %s" % (p, n, U, fr(u)), d, tags=('full-multiplicity',)))
        elif r < .55:
            out.append(Case('basis', "basis %d %s %d %s" % (p, U, k0, fr(u)), d, tags=('full-multiplicity',)))
        else:
            d['i'] = rng.randint(k0 - p, k0) if rng.random() < .8 else rng.randint(0, n - 1)
            out.append(Case('basisone', "basisone %d %s %d %s" % (p, U, d['i'], fr(u)), d, tags=('full-multiplicity',)))
    # empty-last-span (F-01b, repaired): knot vectors with U_{n-1} = U_n.  Strictly inside the domain: correspondence
    # (model line, unrepaired AND repaired model searches) + oracle; AT u = U_n the repaired find_span_linear /
    # find_span_binsearch step back to the last NON-EMPTY span: model line with the repaired model searches
    # (findSpanLinearR / findSpanBinR, Model/SpanR.lean; the unrepaired findSpanLinear / findSpanBin have no step back and
    # their ops answer ERR there) + the exact oracle, which demands the last non-empty span and the Cox-de Boor left-limit
    # basis values there
    for _i in range(24 if tier == 'quick' else 300):
        p = rng.randint(1, 5)
        kv, n = G.knots_empty_last(rng, p)
        U = show_list(kv)
        inner = sorted(set(x for x in kv[p:n + 1] if x < kv[n]))
        u = rng.choice(inner) if rng.random() < .4 else kv[p] + (kv[n] - kv[p]) * F(rng.randint(0, 99), 100)
        kind = rng.choice(['lin', 'bin'])
        out.append(Case('span-' + kind, "span %s %d %d %s %s" % (kind, p, n, U, fr(u)), dict(p=p, n=n, kv=kv, u=u), tags=('empty-last-span', 'inside')))
        G.count('empty_last_span', ('span', 'p+2' if kv[n] == kv[-1] else 'end-multiplicity'))
        # at the domain end: model line with the REPAIRED searches of the model (findSpanLinearR / findSpanBinR, ops
        # `span linr` / `span binr`, alternating) + the oracle (which judges both searches and the basis values)
        srch = ('linr', 'binr')[_i % 2]
        out.append(Case('span-end', "span %s %d %d %s %s" % (srch, p, n, U, fr(kv[n])), dict(p=p, n=n, kv=kv, u=kv[n], search=srch),
                        tags=('empty-last-span', 'at-end')))
        # … and the repaired searches strictly inside that domain too
        out.append(Case('span-' + kind + 'r', "span %sr %d %d %s %s" % (kind, p, n, U, fr(u)), dict(p=p, n=n, kv=kv, u=u), tags=('empty-last-span', 'inside')))
    # A2.5 basis_function_ders_one: active functions, arbitrary functions, order up to the degree and
    # (guard stream) above it
    for _ in range(70 if tier == 'quick' else 1200):
        p = rng.randint(1, maxp)
        kv, n = G.knots(rng, p, clamped=rng.random() < .8)
        u = G.param(rng, kv, p, n)
        k0 = G.span_of(kv, p, n, u)
        i = rng.randint(k0 - p, k0) if rng.random() < .75 else rng.randint(0, n - 1)
        order = rng.randint(0, p) if rng.random() < .9 else p + rng.randint(1, 2)
        d = dict(p=p, n=n, kv=kv, u=u, i=i, order=order)
        out.append(Case('bdersone', "bdersone %d %s %d %s %d" % (p, show_list(kv), i, fr(u), order), d, tags=(('diagnostic',) if order > p else ())))
    # knot vector generation / normalisation / check, linspace
    for _ in range(40 if tier == 'quick' else 400):
        p = rng.randint(1, 9); n = rng.randint(p + 1, p + 14); c = rng.random() < .7
        out.append(Case('kvgen', "kvgen %d %d %d" % (p, n, 1 if c else 0), dict(p=p, n=n, clamped=c)))
        kv, n2 = G.knots(rng, p)
        out.append(Case('kvnorm', "kvnorm %s" % show_list(kv), dict(kv=kv, p=p, n=n2)))
        bad = list(kv)
        r = rng.random()
        if r < .3:
            bad = bad[:-1]
        elif r < .5 and len(bad) > 3:
            i = rng.randint(1, len(bad) - 2); bad[i], bad[i + 1] = bad[i + 1] + F(1, 3), bad[i]
        elif r < .65:
            bad[-1] = bad[-2] - F(1, 20)          # the only descent is at the very last knot
        elif r < .75:
            bad[0] = bad[1] + F(1, 20)            # … or at the very first
        out.append(Case('kvcheck', "kvcheck %d %s %d" % (p, show_list(bad), n2), dict(kv=bad, p=p, n=n2, orig=kv)))
        a = F(rng.randint(-3, 3)); b = a + F(rng.randint(1, 9), rng.choice([1, 2, 3])); m = rng.randint(1, 40)
        out.append(Case('linspace', "linspace %s %s %d" % (fr(a), fr(b), m), dict(a=a, b=b, m=m)))
    # list variants and refusals (oracle only): basis_functions / find_spans over parameter lists; empty / non-list knot vectors,
    # zero degree / size are rejected
    for _ in range(8 if tier == 'quick' else 80):
        p = rng.randint(1, 5); kv, n = G.knots(rng, p)
        us = [G.param(rng, kv, p, n) for _ in range(rng.randint(1, 4))]
        out.append(Case('plural', None, dict(p=p, n=n, kv=kv, us=us)))
    out.append(Case('refuse-kv', None, dict()))
    # tolerance probes: an interior knot at half / twice the binary-search tolerance from the end
    for mul in (F(1, 2), F(2)):
        p = 2
        t = 1 - TOL_SPAN * mul
        kv = [F(0)] * 3 + [F(1, 2), t] + [F(1)] * 3
        for u in (t - TOL_SPAN / 4, t + (1 - t) / 2, t):
            d = dict(p=p, n=5, kv=kv, u=u)
            out.append(Case('span-bin', "span bin 2 5 %s %s" % (show_list(kv), fr(u)), d, tags=('tol-probe',)))
            out.append(Case('span-binr', "span binr 2 5 %s %s" % (show_list(kv), fr(u)), dict(d), tags=('tol-probe',)))
    # the REPAIRED model searches (findSpanLinearR / findSpanBinR) on ORDINARY knot vectors: they must agree with the code
    # everywhere (parameters on knots / ends included), not only on the empty-last-span stream
    for _ in range(80 if tier == 'quick' else 1200):
        p = rng.randint(1, maxp)
        kv, n = G.knots(rng, p, clamped=rng.random() < .7)
        u = G.param(rng, kv, p, n)
        knd = 'lin' if rng.random() < .5 else 'bin'
        out.append(Case('span-%sr' % knd, "span %sr %d %d %s %s" % (knd, p, n, show_list(kv), fr(u)), dict(p=p, n=n, kv=kv, u=u), tags=('ordinary-r',)))
    # … and the tolerance shortcut of the repaired binary search on an EMPTY last span, parameter within the tolerance
    # below the domain end (the step back from n-1 must land on the span of u) and exactly on it
    for p, kv in ((2, [F(0)] * 3 + [F(1, 2)] + [F(1)] * 4), (3, [F(0), F(1, 4), F(1, 2), F(3, 4), F(1), F(1), F(1), F(3, 2), F(2), F(3)])):
        n = len(kv) - p - 1
        assert kv[n - 1] == kv[n]
        for u in (kv[n] - TOL_SPAN / 2, kv[n] - TOL_SPAN * 2, kv[n]):
            for knd in ('lin', 'bin'):
                out.append(Case('span-end' if u == kv[n] else 'span-%sr' % knd, "span %sr %d %d %s %s" % (knd, p, n, show_list(kv), fr(u)),
                                dict(p=p, n=n, kv=kv, u=u, search=knd + 'r'), tags=('empty-last-span', 'tol-probe')))
    return out


def impl(c):
    from geomdl import helpers, knotvector, linalg
    d = c.data
    k = c.kind
    if k == 'span-lin':
        return str(helpers.find_span_linear(d['p'], _kv(d), d['n'], q(d['u'])))
    if k == 'span-bin':
        return str(helpers.find_span_binsearch(d['p'], _kv(d), d['n'], q(d['u'])))
    # the same real functions, compared with the REPAIRED model searches (ops `span linr` / `span binr`)
    if k == 'span-linr' or (k == 'span-end' and d['search'] == 'linr'):
        return str(helpers.find_span_linear(d['p'], _kv(d), d['n'], q(d['u'])))
    if k == 'span-binr' or (k == 'span-end' and d['search'] == 'binr'):
        return str(helpers.find_span_binsearch(d['p'], _kv(d), d['n'], q(d['u'])))
    if k == 'mult':
        return str(helpers.find_multiplicity(q(d['u']), _kv(d)))
    if k == 'basis':
        return show_list(helpers.basis_function(d['p'], _kv(d), d['k'], q(d['u'])))
    if k == 'basisall':
        N = helpers.basis_function_all(d['p'], _kv(d), d['k'], q(d['u']))
        return ";".join(",".join('None' if x is None else fr(x) for x in row) for row in N)
    if k == 'basisone':
        return fr(helpers.basis_function_one(d['p'], _kv(d), d['i'], q(d['u'])))
    if k == 'bdersone':
        return show_list(helpers.basis_function_ders_one(d['p'], _kv(d), d['i'], q(d['u']), d['order']))
    if k == 'bders':
        return show_pts(helpers.basis_function_ders(d['p'], _kv(d), d['k'], q(d['u']), d['order']))
    if k == 'kvgen':
        return show_list(knotvector.generate(d['p'], d['n'], clamped=d['clamped']))
    if k == 'kvnorm':
        return show_list(knotvector.normalize(_kv(d)))
    if k == 'kvcheck':
        return str(knotvector.check(d['p'], _kv(d), d['n']))
    if k == 'linspace':
        return show_list(linalg.linspace(q(d['a']), q(d['b']), d['m']))
    raise ValueError(k)


def oracle(c):
    """the property, on the implementation, in exact arithmetic"""
    from geomdl import helpers, knotvector
    d = c.data
    k = c.kind
    if k == 'span-end':
        # u = U_n of a knot vector with an empty last span: both searches return the last NON-EMPTY span, A2.2 on it gives
        # the Cox-de Boor left-limit values, and A2.4 (basis_function_one) gives the same value for EVERY function index
        # (an end knot repeated more than p+1 times: recorded finding F-03b, see classify)
        p, n, kv, u = d['p'], d['n'], d['kv'], d['u']
        U = _kv(d); uu = q(u)
        ref = G.span_of(kv, p, n, u)
        ks = helpers.find_span_linear(p, U, n, uu)
        if ks != ref:
            return "find_span_linear returns %d at the end of a domain with an empty last span, the last non-empty span is %d" % (ks, ref)
        kb = helpers.find_span_binsearch(p, U, n, uu)
        if kb != ref:
            return "find_span_binsearch returns %d at the end of a domain with an empty last span, the last non-empty span is %d" % (kb, ref)
        try:
            N = helpers.basis_function(p, U, ks, uu)
        except Exception as e:
            return "basis_function on the span found at the domain end raised %s" % type(e).__name__
        if sum(N, q(0)) != 1:
            return "basis values at the domain end sum to %s" % fr(sum(N, q(0)))
        for r in range(p + 1):
            want = G.cox_de_boor(kv, p, ks - p + r, u, kv[n])
            if N[r] != want:
                return "basis_function[%d] = %s at the domain end, the Cox-de Boor left limit is %s" % (r, fr(N[r]), fr(want))
        for i in range(n):
            got = helpers.basis_function_one(p, U, i, uu)
            want = G.cox_de_boor(kv, p, i, u, kv[n])
            if got != want:
                return "basis_function_one(i=%d) = %s at the domain end, the Cox-de Boor left limit (= the A2.2 entry) is %s" % (i, fr(got), fr(want))
        return None
    if k in ('span-lin', 'span-bin', 'span-linr', 'span-binr', 'basis', 'basisall', 'basisone', 'bders', 'bdersone', 'mult'):
        p, n, kv, u = d['p'], d['n'], d['kv'], d['u']
        U = _kv(d); uu = q(u)
        ks = helpers.find_span_linear(p, U, n, uu)
        ref = G.span_of(kv, p, n, u)
        if ks != ref:
            return "find_span_linear returns %d, the non-empty half-open interval containing u is %d" % (ks, ref)
        kb = helpers.find_span_binsearch(p, U, n, uu)
        if kb != ks:
            return "find_span_binsearch returns %d, find_span_linear %d" % (kb, ks)
        N = helpers.basis_function(p, U, ks, uu)
        if len(N) != p + 1:
            return "basis_function returns %d values" % len(N)
        if any(x < 0 for x in N):
            return "negative basis value"
        if sum(N, q(0)) != 1:
            return "basis values sum to %s" % fr(sum(N, q(0)))
        last = kv[n]
        for r in range(p + 1):
            want = G.cox_de_boor(kv, p, ks - p + r, u, last)
            if N[r] != want:
                return "basis_function[%d] = %s, Cox-de Boor recursion gives %s" % (r, fr(N[r]), fr(want))
        # A2.4 uses half-open spans plus its own special case at the last knot; at an interior domain end
        # (unclamped vectors) the half-open value equals the left limit by continuity
        if u < last or kv[n] == kv[-1]:
            for i in range(n):
                one = helpers.basis_function_one(p, U, i, uu)
                want = G.cox_de_boor(kv, p, i, u, last)
                if one != want:
                    return "basis_function_one(i=%d) = %s, Cox-de Boor gives %s" % (i, fr(one), fr(want))
        NA = helpers.basis_function_all(p, U, ks, uu)
        for i in range(p + 1):
            bi = helpers.basis_function(i, U, ks, uu)
            for j in range(i + 1):
                if NA[j][i] != bi[j]:
                    return "basis_function_all[%d][%d] differs from basis_function of degree %d" % (j, i, i)
        ders = helpers.basis_function_ders(p, U, ks, uu, p)
        if ders[0] != N:
            return "zeroth row of basis_function_ders differs from basis_function"
        for kk in range(1, p + 1):
            if sum(ders[kk], q(0)) != 0:
                return "derivatives of order %d of the basis functions sum to %s, not 0" % (kk, fr(sum(ders[kk], q(0))))
        # A2.5 against the A2.3 column: below the domain end, and AT the last knot of the vector (property: "at both ends, all
        # derivative orders"; there A2.5 returns zeros for every function - recorded finding F-03c, see classify).  Skipped only at
        # an INTERIOR domain end (unclamped vectors): A2.5 is right-continuous there, A2.3 on the span found is the left piece
        if u < last or kv[n] == kv[-1]:
            for r in range(p + 1):
                one = helpers.basis_function_ders_one(p, U, ks - p + r, uu, p)
                for kk in range(p + 1):
                    if one[kk] != ders[kk][r]:
                        if u == kv[-1]:
                            return "basis_function_ders_one(i=%d)[%d] = %s at the last knot (all entries: %s), basis_function_ders on the span found (left limit) gives %s" % (
                                ks - p + r, kk, fr(one[kk]), show_list(one), fr(ders[kk][r]))
                        return "basis_function_ders_one(i=%d)[%d] = %s, basis_function_ders gives %s" % (ks - p + r, kk, fr(one[kk]), fr(ders[kk][r]))
        return None
    if k == 'kvgen':
        p, n = d['p'], d['n']
        kv = knotvector.generate(p, n, clamped=d['clamped'])
        if len(kv) != n + p + 1:
            return "generated knot vector has %d knots, expected %d" % (len(kv), n + p + 1)
        if not knotvector.check(p, kv, n):
            return "generated knot vector fails knotvector.check"
        if any(a > b for a, b in zip(kv, kv[1:])):
            return "generated knot vector decreases"
        if d['clamped'] and not (all(x == 0 for x in kv[:p + 1]) and all(x == 1 for x in kv[-(p + 1):]) and kv[p + 1] > 0 or n == p + 1):
            return "clamped knot vector does not have end multiplicity p+1"
        if d['clamped'] and (kv[p + 1] == 0 and n > p + 1):
            return "clamped knot vector has end multiplicity above p+1"
        return None
    if k == 'plural':
        p, n, us = d['p'], d['n'], d['us']
        U = _kv(d); qu = [q(u) for u in us]
        spans = helpers.find_spans(p, U, n, qu)
        if list(spans) != [helpers.find_span_linear(p, U, n, u) for u in qu]:
            return "find_spans over a parameter list differs from find_span_linear per parameter"
        bs = helpers.basis_functions(p, U, spans, qu)
        if [list(b) for b in bs] != [list(helpers.basis_function(p, U, sp, u)) for sp, u in zip(spans, qu)]:
            return "basis_functions over a parameter list differs from basis_function per parameter"
        return None
    if k == 'refuse-kv':
        import io, contextlib

        def raises(f, *a):
            try:
                with contextlib.redirect_stdout(io.StringIO()):      # the library prints a message before re-raising
                    f(*a)
            except Exception:
                return True
            return False
        if not raises(knotvector.normalize, []):
            return "normalize accepts an empty knot vector"
        if not raises(knotvector.normalize, 5):
            return "normalize accepts a number as knot vector"
        if not raises(knotvector.generate, 0, 4) or not raises(knotvector.generate, 2, 0):
            return "generate accepts degree 0 / no control points"
        for bad in ([], 5):
            try:
                with contextlib.redirect_stdout(io.StringIO()):
                    acc = knotvector.check(2, bad, 3)
            except Exception:
                acc = False
            if acc:
                return "check accepts %r as a knot vector" % (bad,)
        return None
    if k == 'kvnorm':
        kv = d['kv']
        out = knotvector.normalize(_kv(d))
        a, b = kv[0], kv[-1]
        if [x for x in out] != [(x - a) / (b - a) for x in kv]:
            return "normalize is not the affine map onto [0,1]"
        return None
    if k == 'kvcheck':
        kv, p, n = d['kv'], d['p'], d['n']
        want = (len(kv) == p + n + 1) and all(a <= b for a, b in zip(kv, kv[1:]))
        got = knotvector.check(p, _kv(d), n)
        if got != want:
            return "knotvector.check returns %s on a knot vector that is %svalid" % (got, '' if want else 'in')
        return None
    if k == 'linspace':
        from geomdl import linalg
        a, b, m = d['a'], d['b'], d['m']
        out = linalg.linspace(q(a), q(b), m)
        if m >= 2 and (len(out) != m or out[0] != a or out[-1] != b or any(x >= y for x, y in zip(out, out[1:]))):
            return "linspace(%s,%s,%d) is not %d increasing values from start to stop exactly" % (fr(a), fr(b), m, m)
        return None
    return None


def classify(c, why):
    """map an oracle failure to a listed finding (only if it is that finding's failure pattern)"""
    d = c.data
    if 'find_span_binsearch returns' in why and 'kv' in d:
        kv, p, n, u = d['kv'], d['p'], d['n'], d['u']
        end = kv[n]
        near = [t for t in kv[p + 1:n] if t < end and end - t <= TOL_SPAN]
        if near and abs(end - u) <= TOL_SPAN:
            return 'F-17b'
    if why.startswith('basis_function_ders_one(i=') and 'at the last knot' in why and 'kv' in d and 'u' in d:
        # F-03c: A2.5 has no end special case; at u = the LAST knot its support test `u >= U[i+p+1]` is met by every function
        # and it returns zeros for every order.  Exactly this pattern: u = last knot and an all-zero answer
        if d['u'] == d['kv'][-1] and '(all entries: %s)' % ",".join(['0'] * (d['p'] + 1)) in why:
            return 'F-03c'
    if why.startswith('basis_function_one(i=') and 'kv' in d and 'u' in d:
        # F-03b: A2.4's special case `i == m-p-1 and u == U[m]` returns 1 for the LAST function; when the end knot is
        # repeated more than p+1 times that function has empty support and the value belongs to the last function with
        # non-empty support.  Exactly this pattern: u = last knot, end multiplicity > p+1, function index >= that one
        kv, p, n, u = d['kv'], d['p'], d['n'], d['u']
        cnt = sum(1 for x in kv if x == kv[-1])
        i = int(why[len('basis_function_one(i='):].split(')')[0])
        if u == kv[-1] and cnt > p + 1 and n - cnt + p <= i <= n - 1:
            return 'F-03b'
    return None


def witness(fid):
    if fid == 'F-17b':
        from geomdl import helpers
        kv = qs([0, 0, 0, F(1, 2), F(999995, 1000000), 1, 1, 1])
        u = q(F(999992, 1000000))
        a = helpers.find_span_linear(2, kv, 5, u); b = helpers.find_span_binsearch(2, kv, 5, u)
        return "linear=%d binary=%d" % (a, b) if a != b else None
    if fid == 'F-03b':
        from geomdl import helpers
        kv = qs([0, 0, F(1, 4), 1, 1, 1])
        a = helpers.basis_function_one(1, kv, 3, q(1)); b = helpers.basis_function_one(1, kv, 2, q(1))
        N = helpers.basis_function(1, kv, helpers.find_span_linear(1, kv, 4, q(1)), q(1))
        return "basis_function_one: N_3(1) = %s, N_2(1) = %s; A2.2 on the span found: %s" % (fr(a), fr(b), show_list(N)) if (a, b) != (0, 1) else None
    if fid == 'F-03c':
        from geomdl import helpers
        kv = qs([0, 0, 0, 1, 1, 1])
        one = [list(helpers.basis_function_ders_one(2, kv, i, q(1), 1)) for i in range(3)]
        ders = helpers.basis_function_ders(2, kv, helpers.find_span_linear(2, kv, 3, q(1)), q(1), 1)
        a24 = helpers.basis_function_one(2, kv, 2, q(1))
        if all(x == 0 for r in one for x in r) and a24 == 1:
            return "basis_function_ders_one(2, [0,0,0,1,1,1], i, 1, 1) = %s for i = 0,1,2; basis_function_one(.., 2, 1) = %s; basis_function_ders rows: %s" % (
                ";".join(show_list(r) for r in one), fr(a24), ";".join(show_list(list(r)) for r in ders))
        return None
    return None
