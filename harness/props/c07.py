"""C07  Splitting and Bezier decomposition reproduce the original piecewise."""
from fractions import Fraction as F
from core import Case, q, qs, fr, show_list, show_pts
import gen as G
import shapes as S
import knotops as KO

PID = 'C07'
FLOAT_KINDS = {'split', 'decompose'}      # float-mode companion (core.float_companion)
FLOAT_TOL = 1e-8
STATS = G.STATS
PARTIAL = [
    "proved end to end through splitDir / decomposeDir / decomposeUV (spans found by find_span_linear, closed end parameters included): split_curve, split_surface_u / split_surface_v (both pieces = original under the affine domain maps; other direction under the normalisation map of its knot vector), decompose_curve and decompose_surface 'u' / 'v' / 'uv' (exactly one Bezier piece per non-empty knot interval / pair of intervals, in order, each coinciding on its interval / rectangle). Hypotheses: degree >= 1, inner knots repeated at most p times, find_multiplicity's tolerance separates the parameter from the other knots; the SPLIT theorems (curve, surface u, surface v) hold for clamped AND unclamped knot vectors in the split direction (split_unclamped_*: sorted knots, domain [U_p, U_n] with a non-empty last span; each piece evaluated at the affine image of t in its own domain, which is [(U_p-U_0)/(u-U_0), 1] resp. [0, (U_n-u)/(U_{n+p}-u)] because the constructor normalises the piece's whole knot range; rejection at both domain ends U_p, U_n); the DECOMPOSITION theorems assume a clamped knot vector in the decomposed direction (any two knots separated, domain length <= 1; surfaces: the other direction's knot vector normalised). Not proved: decomposition of unclamped inputs (there the first and last piece returned by the code are single-span segments with p+1 control points over an unclamped knot vector, not Bezier segments; count and coincidence are checked by the exact oracle only on clamped inputs), degree 0, inner knots of multiplicity > p, un-normalised other-direction knot vector in decompose_surface, volumes; checked by the exact oracle",
]


def _shape(rng):
    return S.rand_curve(rng, maxp=5) if rng.random() < .5 else S.rand_surface(rng, maxp=3, max_interior=2)


def gen(rng, tier):
    out = []
    n = 90 if tier == 'quick' else 1200
    for _ in range(n):
        d = _shape(rng)
        nd = len(S.dirs(d))
        i = rng.randrange(nd)
        p, kv, kn = S.dirs(d)[i]
        r = rng.random()
        interior = sorted(set(kv[p + 1:kn]))
        other = []
        if nd == 2:      # values taken from the OTHER direction's knots (a u/v mix-up must show)
            po, kvo, kno = S.dirs(d)[1 - i]
            other = [x for x in set(kvo) if kv[p] < x < kv[kn]]
        if other and r < .3:
            ends = [x for x in (kvo[po], kvo[kno]) if x in other]
            u = rng.choice(ends) if ends and rng.random() < .6 else rng.choice(sorted(other))
            G.count('split_param', 'other-direction-knot')
        elif r < .12:
            u = rng.choice([kv[p], kv[kn]]); G.count('split_param', 'domain-end')
        elif r < .5 and interior:
            u = rng.choice(interior); G.count('split_param', 'on-knot')
        else:
            u = kv[p] + (kv[kn] - kv[p]) * F(rng.randint(1, 99), 100); G.count('split_param', 'in-span')
        line = "split %s %s %d %s" % (KO.KIND[d['kind']], S.args(d), i, fr(u))
        out.append(Case('split', line, dict(shape=d, dir=i, u=u)))
    # unclamped knot vectors (the domain ends are NOT the first / last knot): interior splits, both domain ends
    # (must be rejected), and the parameter value 0 inside an un-normalised domain
    for _ in range(14 if tier == 'quick' else 150):
        d = S.rand_curve(rng, maxp=4, clamped=False, allow_range=False) if rng.random() < .6 else S.rand_surface(rng, maxp=3, max_interior=2, clamped=False, allow_range=False)
        nd = len(S.dirs(d))
        i = rng.randrange(nd)
        p, kv, kn = S.dirs(d)[i]
        r = rng.random()
        if r < .35:
            u = rng.choice([kv[p], kv[kn]]); G.count('split_param', 'unclamped-domain-end')
        else:
            u = kv[p] + (kv[kn] - kv[p]) * F(rng.randint(1, 99), 100); G.count('split_param', 'unclamped-in-span')
        line = "split %s %s %d %s" % (KO.KIND[d['kind']], S.args(d), i, fr(u))
        out.append(Case('split', line, dict(shape=d, dir=i, u=u), tags=('unclamped',)))
    for _ in range(8 if tier == 'quick' else 80):
        d = _shape(rng)
        nd = len(S.dirs(d))
        i = rng.randrange(nd)
        key = ['kv'] if d['kind'] == 'curve' else ['kvu', 'kvv']
        p, kv, kn = S.dirs(d)[i]
        lo, hi = kv[p], kv[kn]
        t = rng.choice([F(1, 2), F(1, 3), F(3, 5)])
        d[key[i]] = [2 * ((x - lo) / (hi - lo) - t) for x in kv]
        G.count('split_param', 'zero-inside-domain')
        line = "split %s %s %d %s" % (KO.KIND[d['kind']], S.args(d), i, fr(F(0)))
        out.append(Case('split', line, dict(shape=d, dir=i, u=F(0)), tags=('zero-param',)))
    # tolerance probes: split parameters very close to (but not on) an interior knot - the multiplicity
    # lookup (find_multiplicity, 10e-8) must not treat them as the knot
    for _ in range(10 if tier == 'quick' else 120):
        d = _shape(rng)
        nd = len(S.dirs(d))
        i = rng.randrange(nd)
        p, kv, kn = S.dirs(d)[i]
        interior = sorted(set(kv[p + 1:kn]))
        if not interior:
            continue
        x = rng.choice(interior)
        off = rng.choice([F(2, 10 ** 7), F(3, 10 ** 6), F(3, 10 ** 5), F(3, 10 ** 4)]) * rng.choice([1, -1])
        u = x + off
        if not (kv[p] < u < kv[kn]) or u in kv:
            continue
        G.count('split_param', 'near-knot')
        line = "split %s %s %d %s" % (KO.KIND[d['kind']], S.args(d), i, fr(u))
        out.append(Case('split', line, dict(shape=d, dir=i, u=u), tags=('tol-probe',)))
    # mix-up probes: the domains of u and v differ and the split parameter of one direction is the
    # domain end of the other (a guard that looks at the wrong direction must show)
    for _ in range(8 if tier == 'quick' else 60):
        d = S.rand_surface(rng, maxp=3, max_interior=2, allow_range=False)
        i = rng.randrange(2)
        lo, hi = rng.choice([(F(0), F(3)), (F(-1), F(2)), (F(-2), F(5, 2))])
        key = 'kvu' if i == 0 else 'kvv'
        d[key] = [lo + (hi - lo) * x for x in d[key]]
        for u in (F(1), F(0) if lo < 0 else F(1), hi):
            line = "split %s %s %d %s" % (KO.KIND[d['kind']], S.args(d), i, fr(u))
            out.append(Case('split', line, dict(shape=d, dir=i, u=u), tags=('mixup-probe',)))
    # a control point adjusted IN PLACE through the list the ctrlpts getter returns, then a split / decomposition
    # at knots of full multiplicity (degree 1 in u: no knot is inserted, the pieces are cut out of the stored net)
    found = 0
    for _ in range(400):
        if found >= (6 if tier == 'quick' else 60):
            break
        d = S.rand_surface(rng, rational=False, maxp=3, max_interior=2, allow_range=False)
        if d['pu'] != 1:
            continue
        interior = sorted(set(d['kvu'][2:d['su']]))
        if not interior:
            continue
        found += 1
        k = rng.randrange(len(d['P'])); cidx = rng.randrange(3)
        out.append(Case('inplace-split', None, dict(shape=d, k=k, c=cidx, val=F(rng.randint(7, 15)), u=rng.choice(interior))))
    for _ in range(30 if tier == 'quick' else 400):
        d = _shape(rng)
        dirs = 'u' if d['kind'] == 'curve' else rng.choice(['u', 'v', 'uv'])
        G.count('decompose_dir', dirs)
        line = "decomp %s %s %s" % (KO.KIND[d['kind']], S.args(d), dirs)
        out.append(Case('decompose', line, dict(shape=d, dirs=dirs)))
    return out


def _split(o, d, i, u):
    from geomdl import operations
    if d['kind'] == 'curve':
        return operations.split_curve(o, q(u))
    return (operations.split_surface_u if i == 0 else operations.split_surface_v)(o, q(u))


def _decompose(o, d, dirs):
    from geomdl import operations
    if d['kind'] == 'curve':
        return list(operations.decompose_curve(o))
    return list(operations.decompose_surface(o, decompose_dir=dirs))


def impl(c):
    d = c.data['shape']
    o = S.build(d)
    if c.kind == 'split':
        ps = _split(o, d, c.data['dir'], c.data['u'])
    else:
        ps = _decompose(o, d, c.data['dirs'])
    return " # ".join(KO.show_shape(S.from_obj(x)) for x in ps)


def _piece_check(orig, piece, ranges):
    """piece (normalised domain [0,1] per direction) against orig on `ranges` = per direction (lo, hi)"""
    import itertools
    grids = []
    pdom = []
    for (p, kv, n) in S.dirs(piece):
        ks = sorted(set(kv[p:n + 1]))
        mids = [(a + b) / 2 for a, b in zip(ks, ks[1:])]
        g = sorted(set(ks + mids + [kv[p] + (kv[n] - kv[p]) * F(1, 3), kv[p] + (kv[n] - kv[p]) * F(7, 9)]))
        grids.append(g[:12])
        pdom.append((kv[p], kv[n]))
    for combo in itertools.product(*grids):
        a = S.eval_ref(piece, list(combo))
        # the affine map of the piece's domain onto its sub-interval of the original
        mapped = [lo + (t - pa) / (pb - pa) * (hi - lo) for t, (lo, hi), (pa, pb) in zip(combo, ranges, pdom)]
        b = S.eval_ref(orig, mapped)
        if a != b:
            return "piece at %s gives %s, original at %s gives %s" % (tuple(map(fr, combo)), show_list(a), tuple(map(fr, mapped)), show_list(b))
    return None


def oracle(c):
    d = c.data['shape']
    o = S.build(d)
    before = S.from_obj(o)
    ds = S.dirs(d)
    dom = [(kv[p], kv[n]) for (p, kv, n) in ds]
    if c.kind == 'split':
        i, u = c.data['dir'], c.data['u']
        at_end = u in dom[i]
        try:
            ps = _split(o, d, i, u)
        except Exception as e:
            if at_end:
                return None if S.from_obj(o) == before else "rejected split modified the input"
            return "split at interior parameter raised %s: %s" % (type(e).__name__, e)
        if at_end:
            return "split at a domain end was not rejected"
        if S.from_obj(o) != before:
            return "split modified its input"
        if S.views_why(o):
            return "split modified its input: " + S.views_why(o)
        if len(ps) != 2:
            return "split returned %d pieces" % len(ps)
        for k, pc in enumerate(ps):
            rng_ = list(dom)
            rng_[i] = (dom[i][0], u) if k == 0 else (u, dom[i][1])
            pd = S.from_obj(pc)
            if pd['rat'] != d['rat']:
                return "piece changed rationality"
            why = _piece_check(before, pd, rng_)
            if why:
                return "piece %d: %s" % (k, why)
        return None
    if c.kind == 'inplace-split':
        from geomdl import operations
        k, cidx, val, u = c.data['k'], c.data['c'], c.data['val'], c.data['u']
        o.ctrlpts[k][cidx] = q(val)               # in-place adjustment of one coordinate
        d2 = dict(d); d2['P'] = [list(pt) for pt in d['P']]; d2['P'][k][cidx] = val
        if S.from_obj(o) != d2:
            return None                           # the getter handed out a copy: nothing to compare
        ps = operations.split_surface_u(o, q(u))
        for kk, pc in enumerate(ps):
            rng_ = list(dom)
            rng_[0] = (dom[0][0], u) if kk == 0 else (u, dom[0][1])
            why = _piece_check(d2, S.from_obj(pc), rng_)
            if why:
                return "after an in-place edit of a control point, split piece %d: %s" % (kk, why)
        pcs = list(operations.decompose_surface(o, decompose_dir='u'))
        ks = sorted(set(d['kvu'][1:d['su'] + 1]))
        if len(pcs) != len(ks) - 1:
            return "after an in-place edit: decompose returned %d pieces for %d intervals" % (len(pcs), len(ks) - 1)
        for pc, (a_, b_) in zip(pcs, zip(ks, ks[1:])):
            why = _piece_check(d2, S.from_obj(pc), [(a_, b_), dom[1]])
            if why:
                return "after an in-place edit of a control point, decomposed piece over (%s,%s): %s" % (fr(a_), fr(b_), why)
        return None
    # decomposition
    dirs = c.data['dirs']
    try:
        ps = _decompose(o, d, dirs)
    except Exception as e:
        return "decompose raised %s: %s" % (type(e).__name__, e)
    if S.from_obj(o) != before:
        return "decompose modified its input"
    if S.views_why(o):
        return "decompose modified its input: " + S.views_why(o)
    spans = []
    for j, (p, kv, n) in enumerate(ds):
        ks = sorted(set(kv[p:n + 1]))
        active = (d['kind'] == 'curve') or ('uvw'[j] in dirs)
        spans.append(list(zip(ks, ks[1:])) if active else [dom[j]])
    import itertools
    want = list(itertools.product(*spans))    # u-major order
    if len(ps) != len(want):
        return "decompose returned %d pieces, there are %d non-empty knot intervals" % (len(ps), len(want))
    for pc, rng_ in zip(ps, want):
        pd = S.from_obj(pc)
        for j, (p, kv, n) in enumerate(S.dirs(pd)):
            active = (d['kind'] == 'curve') or ('uvw'[j] in dirs)
            if active and n != p + 1:
                return "a piece is not a Bezier patch in direction %d" % j
        why = _piece_check(before, pd, list(rng_))
        if why:
            return "piece over %s: %s" % ([tuple(map(fr, r)) for r in rng_], why)
    return None
