"""C07  Splitting and Bezier decomposition reproduce the original piecewise."""
from fractions import Fraction as F
from core import Case, q, qs, fr, show_list, show_pts
import gen as G
import shapes as S
import knotops as KO

PID = 'C07'
FLOAT_KINDS = {'split', 'decompose'}      # float-mode companion (core.float_companion)
FLOAT_TOL = 1e-8
STATS = G.STATS
PARTIAL = [
    "proved end to end through splitDir / decomposeDir / decomposeUV (spans found by find_span_linear, closed end parameters included): split_curve, split_surface_u / split_surface_v (both pieces = original under the affine domain maps; other direction under the normalisation map of its knot vector; the surface theorems quantify the free parameter of the other direction from its domain start upwards without an upper bound - totalised model evaluation on both sides; on the domain both sides are what evaluate_single returns), decompose_curve and decompose_surface 'u' / 'v' / 'uv' (exactly one piece per non-empty knot interval / pair of intervals, in order, each coinciding on its interval / rectangle). Hypotheses: degree >= 1, inner knots repeated at most p times, find_multiplicity's tolerance separates the parameter from the other knots; the SPLIT theorems (curve, surface u, surface v) hold for clamped AND unclamped knot vectors in the split direction (split_unclamped_*: sorted knots, domain [U_p, U_n] with a non-empty last span; each piece evaluated at the affine image of t in its own domain, which is [(U_p-U_0)/(u-U_0), 1] resp. [0, (U_n-u)/(U_{n+p}-u)] because the constructor normalises the piece's whole knot range; rejection at both domain ends U_p, U_n); the DECOMPOSITION theorems for curves and for surfaces in 'u' / 'v' / 'uv' hold for clamped AND unclamped knot vectors in the decomposed direction(s) (decompose_unclamped_curve_pieces / _count, decompose_unclamped_surface_u_pieces / _v_pieces / _uv_pieces; hypothesis DecompWFU: U_p < U_{p+1} (the non-raising guard), non-empty last span, inner knots U_{p+1}..U_{n-1} repeated at most p times, knot range <= 1, any two knots separated by the tolerance; surfaces: the other direction's knot vector normalised, 'uv': both normalised): one single-span segment with p+1 control points per non-empty interval, in order, coinciding under the affine map of its own domain [V_p, V_{p+1}]; piece i is a Bezier segment (clamped at both ends, knot vector 0^{p+1} 1^{p+1}) whenever (i >= 1 or the input is clamped at its start) and (i is not the last piece or the input is clamped at its end), i.e. every inner piece; the first piece of an unclamped input starts at knot 0 with domain start (U_p-U_0)/(U_{p+1}-U_0) and ends with p+1 ones, the last one starts with p+1 zeros, has the domain end (U_n-b)/(U_{n+p}-b) (b the last interior break point) and ends at knot 1. The exceptions of the code are modelled by splitDirD (= splitDirE plus: a split parameter OUTSIDE the closed domain [U_p, U_n] of the split direction raises - for unclamped inputs also between the outer knots and the domain; stream split-outside) / decomposeDirE / decomposeUVE (what the driver runs; proved equal to the plain model wherever they answer, split_with_all_exceptions_agrees: an answered split has U_p < u < U_n and multiplicity <= p): 'Cannot split from the domain edge' when the first knot of U[p+1:-(p+1)] lies on the domain start (U_{p+1} = U_p: unclamped, or clamped with p+2 equal first knots) or on the domain end, ValueError when a split parameter / decomposition knot is repeated more than p times. Not proved: degree 0, inner knots of multiplicity > p (outside the quantifier: the implementation raises, the driver answers ERR), un-normalised other-direction knot vector in decompose_surface, volumes; checked by the exact oracle",
]


def _shape(rng):
    return S.rand_curve(rng, maxp=5) if rng.random() < .5 else S.rand_surface(rng, maxp=3, max_interior=2)


def gen(rng, tier):
    out = []
    n = 90 if tier == 'quick' else 1200
    for _ in range(n):
        d = _shape(rng)
        nd = len(S.dirs(d))
        i = rng.randrange(nd)
        p, kv, kn = S.dirs(d)[i]
        r = rng.random()
        interior = sorted(set(kv[p + 1:kn]))
        other = []
        if nd == 2:      # values taken from the OTHER direction's knots (a u/v mix-up must show)
            po, kvo, kno = S.dirs(d)[1 - i]
            other = [x for x in set(kvo) if kv[p] < x < kv[kn]]
        if other and r < .3:
            ends = [x for x in (kvo[po], kvo[kno]) if x in other]
            u = rng.choice(ends) if ends and rng.random() < .6 else rng.choice(sorted(other))
            G.count('split_param', 'other-direction-knot')
        elif r < .12:
            u = rng.choice([kv[p], kv[kn]]); G.count('split_param', 'domain-end')
        elif r < .5 and interior:
            u = rng.choice(interior); G.count('split_param', 'on-knot')
        else:
            u = kv[p] + (kv[kn] - kv[p]) * F(rng.randint(1, 99), 100); G.count('split_param', 'in-span')
        line = "split %s %s %d %s" % (KO.KIND[d['kind']], S.args(d), i, fr(u))
        out.append(Case('split', line, dict(shape=d, dir=i, u=u)))
    # unclamped knot vectors (the domain ends are NOT the first / last knot): interior splits, both domain ends
    # (must be rejected), and the parameter value 0 inside an un-normalised domain
    for _ in range(14 if tier == 'quick' else 150):
        d = S.rand_curve(rng, maxp=4, clamped=False, allow_range=False) if rng.random() < .6 else S.rand_surface(rng, maxp=3, max_interior=2, clamped=False, allow_range=False)
        nd = len(S.dirs(d))
        i = rng.randrange(nd)
        p, kv, kn = S.dirs(d)[i]
        r = rng.random()
        if r < .35:
            u = rng.choice([kv[p], kv[kn]]); G.count('split_param', 'unclamped-domain-end')
        else:
            u = kv[p] + (kv[kn] - kv[p]) * F(rng.randint(1, 99), 100); G.count('split_param', 'unclamped-in-span')
        line = "split %s %s %d %s" % (KO.KIND[d['kind']], S.args(d), i, fr(u))
        out.append(Case('split', line, dict(shape=d, dir=i, u=u), tags=('unclamped',)))
    # split-outside: the parameter lies OUTSIDE the domain [U_p, U_n] of the split direction (outside the property's
    # quantifier): unclamped inputs with the parameter between the outer knots and the domain (on a knot or not), both
    # sides, and clamped / unclamped inputs with the parameter outside the whole knot range; the implementation raises
    # (ValueError / GeomdlException), the driver must answer ERR
    for _ in range(24 if tier == 'quick' else 300):
        clamped = rng.random() < .25
        d = S.rand_curve(rng, maxp=4, clamped=clamped, allow_range=True) if rng.random() < .6 else S.rand_surface(rng, maxp=3, max_interior=2, clamped=clamped, allow_range=True)
        nd = len(S.dirs(d))
        i = rng.randrange(nd)
        p, kv, kn = S.dirs(d)[i]
        lo, hi = kv[p], kv[kn]
        cands = [('below-range', kv[0] - F(rng.randint(1, 5), 3)), ('above-range', kv[-1] + F(rng.randint(1, 5), 3))]
        below = sorted(set(x for x in kv if x < lo)); above = sorted(set(x for x in kv if x > hi))
        if below:
            cands += [('below-on-knot', rng.choice(below))] * 2
        if above:
            cands += [('above-on-knot', rng.choice(above))] * 2
        if kv[0] < lo:
            cands += [('below-between', kv[0] + (lo - kv[0]) * F(rng.randint(1, 9), 10))] * 2
        if kv[-1] > hi:
            cands += [('above-between', hi + (kv[-1] - hi) * F(rng.randint(1, 9), 10))] * 2
        lab, u = rng.choice(cands)
        G.count('split_param', 'outside-' + lab)
        line = "split %s %s %d %s" % (KO.KIND[d['kind']], S.args(d), i, fr(u))
        out.append(Case('split', line, dict(shape=d, dir=i, u=u), tags=('split-outside', lab)))
    for _ in range(8 if tier == 'quick' else 80):
        d = _shape(rng)
        nd = len(S.dirs(d))
        i = rng.randrange(nd)
        key = ['kv'] if d['kind'] == 'curve' else ['kvu', 'kvv']
        p, kv, kn = S.dirs(d)[i]
        lo, hi = kv[p], kv[kn]
        t = rng.choice([F(1, 2), F(1, 3), F(3, 5)])
        d[key[i]] = [2 * ((x - lo) / (hi - lo) - t) for x in kv]
        G.count('split_param', 'zero-inside-domain')
        line = "split %s %s %d %s" % (KO.KIND[d['kind']], S.args(d), i, fr(F(0)))
        out.append(Case('split', line, dict(shape=d, dir=i, u=F(0)), tags=('zero-param',)))
    # tolerance probes: split parameters very close to (but not on) an interior knot - the multiplicity
    # lookup (find_multiplicity, 10e-8) must not treat them as the knot
    for _ in range(10 if tier == 'quick' else 120):
        d = _shape(rng)
        nd = len(S.dirs(d))
        i = rng.randrange(nd)
        p, kv, kn = S.dirs(d)[i]
        interior = sorted(set(kv[p + 1:kn]))
        if not interior:
            continue
        x = rng.choice(interior)
        off = rng.choice([F(2, 10 ** 7), F(3, 10 ** 6), F(3, 10 ** 5), F(3, 10 ** 4)]) * rng.choice([1, -1])
        u = x + off
        if not (kv[p] < u < kv[kn]) or u in kv:
            continue
        G.count('split_param', 'near-knot')
        line = "split %s %s %d %s" % (KO.KIND[d['kind']], S.args(d), i, fr(u))
        out.append(Case('split', line, dict(shape=d, dir=i, u=u), tags=('tol-probe',)))
    # mix-up probes: the domains of u and v differ and the split parameter of one direction is the
    # domain end of the other (a guard that looks at the wrong direction must show)
    for _ in range(8 if tier == 'quick' else 60):
        d = S.rand_surface(rng, maxp=3, max_interior=2, allow_range=False)
        i = rng.randrange(2)
        lo, hi = rng.choice([(F(0), F(3)), (F(-1), F(2)), (F(-2), F(5, 2))])
        key = 'kvu' if i == 0 else 'kvv'
        d[key] = [lo + (hi - lo) * x for x in d[key]]
        for u in (F(1), F(0) if lo < 0 else F(1), hi):
            line = "split %s %s %d %s" % (KO.KIND[d['kind']], S.args(d), i, fr(u))
            out.append(Case('split', line, dict(shape=d, dir=i, u=u), tags=('mixup-probe',)))
    # a control point adjusted IN PLACE through the list the ctrlpts getter returns, then a split / decomposition
    # at knots of full multiplicity (degree 1 in u: no knot is inserted, the pieces are cut out of the stored net)
    found = 0
    for _ in range(400):
        if found >= (6 if tier == 'quick' else 60):
            break
        d = S.rand_surface(rng, rational=False, maxp=3, max_interior=2, allow_range=False)
        if d['pu'] != 1:
            continue
        interior = sorted(set(d['kvu'][2:d['su']]))
        if not interior:
            continue
        found += 1
        k = rng.randrange(len(d['P'])); cidx = rng.randrange(3)
        out.append(Case('inplace-split', None, dict(shape=d, k=k, c=cidx, val=F(rng.randint(7, 15)), u=rng.choice(interior))))
    for _ in range(30 if tier == 'quick' else 400):
        d = _shape(rng)
        dirs = 'u' if d['kind'] == 'curve' else rng.choice(['u', 'v', 'uv'])
        G.count('decompose_dir', dirs)
        line = "decomp %s %s %s" % (KO.KIND[d['kind']], S.args(d), dirs)
        out.append(Case('decompose', line, dict(shape=d, dirs=dirs)))
    # decomp-unclamped: knot vectors that are NOT clamped in the decomposed direction(s) (first / last piece are
    # single-span segments over an unclamped knot vector, inner pieces are Bezier), inner knots of multiplicity
    # 1..p, and the patterns on which the implementation raises (first interior knot on the domain start:
    # U_{p+1} = U_p, unclamped or clamped with p+2 equal first knots; an interior knot on the domain end:
    # U_{n-1} = U_n) - the driver must answer ERR exactly there
    for _ in range(45 if tier == 'quick' else 600):
        out.append(_decomp_unclamped_case(rng))
    # split-overmult: split parameter on a knot repeated more than p times (outside the property's quantifier;
    # the implementation raises ValueError, the driver must answer ERR)
    for _ in range(8 if tier == 'quick' else 80):
        p = rng.randint(1, 3)
        kv, n = _unclamped_kv(rng, p, rng.choice(['clamped', 'plain', 'half']), over=True)
        d = _curve_on(rng, p, kv, n)
        xs = [x for x in set(kv[p + 1:n]) if kv.count(x) > p]
        u = rng.choice(sorted(xs)) if xs and rng.random() < .8 else kv[p] + (kv[n] - kv[p]) * F(rng.randint(1, 99), 100)
        G.count('split_param', 'over-multiplicity' if kv.count(u) > p else 'in-span')
        line = "split %s %s %d %s" % (KO.KIND[d['kind']], S.args(d), 0, fr(u))
        out.append(Case('split', line, dict(shape=d, dir=0, u=u), tags=('overmult',)))
    return out


PATTERNS = ['plain', 'plain', 'plain', 'half', 'half', 'raise-start', 'raise-start-clamped', 'raise-end', 'clamped']


def _unclamped_kv(rng, p, pattern, over=False):
    """sorted knot vector of degree p with domain [0,1] = [U_p, U_n] before the optional affine map; the p knots
    outside each domain end are arbitrary (repetitions allowed) unless the pattern clamps that end; inner knots
    of multiplicity 1..p (`over`: one inner knot p+1 times).  Returns (kv, n)."""
    den = rng.choice([8, 12, 7, 10, 16, 9])
    ints = sorted(rng.sample([F(i, den) for i in range(1, den)], rng.randint(1 if over else 0, 3)))
    inner = []
    for x in ints:
        inner += [x] * rng.randint(1, p)
    if over:
        x = rng.choice(ints)
        inner = sorted([y for y in inner if y != x] + [x] * (p + 1))

    def outside():
        acc, res = F(0), []
        for _ in range(p):
            acc += F(rng.choice([0, 1, 1, 2, 3]), den)
            res.append(acc)
        return res
    lo = [-x for x in reversed(outside())]
    hi = [1 + x for x in outside()]
    if pattern == 'clamped' or pattern == 'raise-start-clamped':
        lo, hi = [F(0)] * p, [F(1)] * p
    elif pattern == 'half':
        if rng.random() < .5:
            lo = [F(0)] * p
        else:
            hi = [F(1)] * p
    if pattern.startswith('raise-start'):
        inner = [F(0)] + inner              # U_{p+1} = U_p
    if pattern == 'raise-end':
        inner = inner + [F(1)]              # U_{n-1} = U_n (empty last span)
    kv = lo + [F(0)] + inner + [F(1)] + hi
    r = rng.random()
    if r < .4:                              # what the constructor's normalisation makes of it
        a, b = kv[0], kv[-1]
        kv = [(x - a) / (b - a) for x in kv]
    elif r < .6:
        a, b = F(rng.randint(-3, 3)), F(rng.choice([2, 3, 5, F(1, 2), F(7, 3)]))
        kv = [a + b * x for x in kv]
    return kv, len(kv) - p - 1


def _curve_on(rng, p, kv, n):
    rat = rng.random() < .5
    dim = rng.choice([2, 3, 3])
    P = G.points(rng, n, dim)
    if rat:
        P = G.homogeneous(P, G.weights(rng, n))
    return dict(kind='curve', rat=rat, p=p, kv=kv, n=n, P=P, dim=dim)


def _decomp_unclamped_case(rng):
    pat = rng.choice(PATTERNS)
    if rng.random() < .5:
        p = rng.randint(1, 4)
        kv, n = _unclamped_kv(rng, p, pat)
        d, dirs = _curve_on(rng, p, kv, n), 'u'
        G.count('decomp_unclamped', 'curve ' + pat)
    else:
        dirs = rng.choice(['u', 'v', 'uv'])
        while True:
            pu, pv = rng.randint(1, 3), rng.randint(1, 3)
            # the pattern goes to the decomposed direction ('uv': to one of them, the other is unclamped or clamped)
            which = rng.randrange(2) if dirs == 'uv' else 'uv'.index(dirs)
            other = rng.choice(['plain', 'half', 'clamped']) if dirs == 'uv' else rng.choice(['plain', 'clamped', 'raise-start', 'raise-end'])
            pats = [other, other]
            pats[which] = pat
            kvu, su = _unclamped_kv(rng, pu, pats[0])
            kvv, sv = _unclamped_kv(rng, pv, pats[1])
            if su != sv and pu != pv:     # a u/v mix-up must show
                break
        rat = rng.random() < .5
        P = G.points(rng, su * sv, 3)
        if rat:
            P = G.homogeneous(P, G.weights(rng, su * sv))
        d = dict(kind='surface', rat=rat, pu=pu, pv=pv, kvu=kvu, kvv=kvv, su=su, sv=sv, P=P, dim=3)
        G.count('decomp_unclamped', 'surface-%s %s' % (dirs, pat))
    line = "decomp %s %s %s" % (KO.KIND[d['kind']], S.args(d), dirs)
    return Case('decompose', line, dict(shape=d, dirs=dirs), tags=('decomp-unclamped', pat))


TOL_MULT = F(1, 10 ** 7)      # helpers.find_multiplicity: 10e-8


def _mult(u, kv):
    return sum(1 for x in kv if abs(u - x) <= TOL_MULT)


def _decompose_may_raise(p, kv, n):
    """the input patterns of ONE decomposed direction on which decompose_* raises (outside the property: a knot of
    the list U[p+1:-(p+1)] the loop splits at lies on a domain end, or is repeated more than p times)"""
    if n <= p + 1:
        return False
    return kv[p + 1] == kv[p] or kv[n - 1] == kv[n] or any(_mult(x, kv) > p for x in kv[p + 1:n])


def _split(o, d, i, u):
    from geomdl import operations
    if d['kind'] == 'curve':
        return operations.split_curve(o, q(u))
    return (operations.split_surface_u if i == 0 else operations.split_surface_v)(o, q(u))


def _decompose(o, d, dirs):
    from geomdl import operations
    if d['kind'] == 'curve':
        return list(operations.decompose_curve(o))
    return list(operations.decompose_surface(o, decompose_dir=dirs))


def impl(c):
    d = c.data['shape']
    o = S.build(d)
    if c.kind == 'split':
        ps = _split(o, d, c.data['dir'], c.data['u'])
    else:
        ps = _decompose(o, d, c.data['dirs'])
    return " # ".join(KO.show_shape(S.from_obj(x)) for x in ps)


def _piece_check(orig, piece, ranges):
    """piece (on its OWN domain [kv[p], kv[n]] per direction - a sub-interval of [0,1] when the piece's end is
    unclamped, because the constructor normalises the whole knot range) against orig on `ranges` = per direction (lo, hi)"""
    import itertools
    grids = []
    pdom = []
    for (p, kv, n) in S.dirs(piece):
        ks = sorted(set(kv[p:n + 1]))
        mids = [(a + b) / 2 for a, b in zip(ks, ks[1:])]
        g = sorted(set(ks + mids + [kv[p] + (kv[n] - kv[p]) * F(1, 3), kv[p] + (kv[n] - kv[p]) * F(7, 9)]))
        grids.append(g[:12])
        pdom.append((kv[p], kv[n]))
    for combo in itertools.product(*grids):
        a = S.eval_ref(piece, list(combo))
        # the affine map of the piece's domain onto its sub-interval of the original
        mapped = [lo + (t - pa) / (pb - pa) * (hi - lo) for t, (lo, hi), (pa, pb) in zip(combo, ranges, pdom)]
        b = S.eval_ref(orig, mapped)
        if a != b:
            return "piece at %s gives %s, original at %s gives %s" % (tuple(map(fr, combo)), show_list(a), tuple(map(fr, mapped)), show_list(b))
    return None


def oracle(c):
    d = c.data['shape']
    o = S.build(d)
    before = S.from_obj(o)
    ds = S.dirs(d)
    dom = [(kv[p], kv[n]) for (p, kv, n) in ds]
    if c.kind == 'split':
        i, u = c.data['dir'], c.data['u']
        at_end = u in dom[i]
        over = _mult(u, ds[i][1]) > ds[i][0]      # more than p copies of the parameter: outside the quantifier
        outside = u < dom[i][0] or u > dom[i][1]  # outside the domain: outside the quantifier, the code raises
        try:
            ps = _split(o, d, i, u)
        except Exception as e:
            if at_end or over or outside:
                return None if S.from_obj(o) == before else "rejected split modified the input"
            return "split at interior parameter raised %s: %s" % (type(e).__name__, e)
        if at_end:
            return "split at a domain end was not rejected"
        if outside:
            return None        # outside the property's quantifier: not judged here (the correspondence compares ERR = raise)
        if S.from_obj(o) != before:
            return "split modified its input"
        if S.views_why(o):
            return "split modified its input: " + S.views_why(o)
        if len(ps) != 2:
            return "split returned %d pieces" % len(ps)
        for k, pc in enumerate(ps):
            rng_ = list(dom)
            rng_[i] = (dom[i][0], u) if k == 0 else (u, dom[i][1])
            pd = S.from_obj(pc)
            if pd['rat'] != d['rat']:
                return "piece changed rationality"
            why = _piece_check(before, pd, rng_)
            if why:
                return "piece %d: %s" % (k, why)
        return None
    if c.kind == 'inplace-split':
        from geomdl import operations
        k, cidx, val, u = c.data['k'], c.data['c'], c.data['val'], c.data['u']
        o.ctrlpts[k][cidx] = q(val)               # in-place adjustment of one coordinate
        d2 = dict(d); d2['P'] = [list(pt) for pt in d['P']]; d2['P'][k][cidx] = val
        if S.from_obj(o) != d2:
            return None                           # the getter handed out a copy: nothing to compare
        ps = operations.split_surface_u(o, q(u))
        for kk, pc in enumerate(ps):
            rng_ = list(dom)
            rng_[0] = (dom[0][0], u) if kk == 0 else (u, dom[0][1])
            why = _piece_check(d2, S.from_obj(pc), rng_)
            if why:
                return "after an in-place edit of a control point, split piece %d: %s" % (kk, why)
        pcs = list(operations.decompose_surface(o, decompose_dir='u'))
        ks = sorted(set(d['kvu'][1:d['su'] + 1]))
        if len(pcs) != len(ks) - 1:
            return "after an in-place edit: decompose returned %d pieces for %d intervals" % (len(pcs), len(ks) - 1)
        for pc, (a_, b_) in zip(pcs, zip(ks, ks[1:])):
            why = _piece_check(d2, S.from_obj(pc), [(a_, b_), dom[1]])
            if why:
                return "after an in-place edit of a control point, decomposed piece over (%s,%s): %s" % (fr(a_), fr(b_), why)
        return None
    # decomposition
    dirs = c.data['dirs']
    act = [(d['kind'] == 'curve') or ('uvw'[j] in dirs) for j in range(len(ds))]
    try:
        ps = _decompose(o, d, dirs)
    except Exception as e:
        if any(a and _decompose_may_raise(*ds[j]) for j, a in enumerate(act)):
            return None if S.from_obj(o) == before else "rejected decomposition modified the input"
        return "decompose raised %s: %s" % (type(e).__name__, e)
    if S.from_obj(o) != before:
        return "decompose modified its input"
    if S.views_why(o):
        return "decompose modified its input: " + S.views_why(o)
    spans = []
    for j, (p, kv, n) in enumerate(ds):
        ks = sorted(set(kv[p:n + 1]))
        spans.append(list(zip(ks, ks[1:])) if act[j] else [dom[j]])
    import itertools
    want = list(itertools.product(*spans))    # u-major order
    index = list(itertools.product(*[range(len(sp)) for sp in spans]))
    if len(ps) != len(want):
        return "decompose returned %d pieces, there are %d non-empty knot intervals" % (len(ps), len(want))
    for pc, rng_, idx in zip(ps, want, index):
        pd = S.from_obj(pc)
        for j, (p, kv, n) in enumerate(S.dirs(pd)):
            if not act[j]:
                continue
            if n != p + 1:
                return "a piece is not a single-span segment (p+1 control points) in direction %d" % j
            # Bezier = clamped at BOTH ends.  Claimed for every end of a piece that is an interior break point, and
            # for the outer end of the first / last piece only when the input is clamped there (an unclamped input's
            # first / last piece is a single-span segment over a knot vector that is unclamped at its outer end)
            p0, kv0, n0 = ds[j]
            if (idx[j] > 0 or kv0[0] == kv0[p0]) and kv[0] != kv[p]:
                return "a piece is not clamped at its start in direction %d (not a Bezier piece)" % j
            if (idx[j] + 1 < len(spans[j]) or kv0[n0] == kv0[n0 + p0]) and kv[n] != kv[n + p]:
                return "a piece is not clamped at its end in direction %d (not a Bezier piece)" % j
        why = _piece_check(before, pd, list(rng_))
        if why:
            return "piece over %s: %s" % ([tuple(map(fr, r)) for r in rng_], why)
    return None
