"""C01  Evaluated points equal the B-spline / NURBS definition (all entry points, grids)."""
from fractions import Fraction as F
from core import Case, q, qs, fr, show_list, show_pts
import gen as G
import shapes as S

PID = 'C01'
FLOAT_KINDS = {'single', 'list', 'ders0', 'grid'}      # float-mode companion (core.float_companion)
FLOAT_TOL = 1e-9
STATS = G.STATS
PARTIAL = [
    "point = Cox-de Boor (tensor) sum is assembled through the span search for every parameter of the closed domain (cdb on the half-open domain; at the right end the recursion of the last span, cdbSpan, = left-limit convention), rational quotient included; the statement is about findSpanLinear - evaluation with find_span_binsearch selected is covered through C03/C17 span_search_choice under its tolerance hypothesis",
    "entry points: list = map of single, grid size / ordering / corners (curve, surface, volume) and the zeroth derivative of curves are Lean theorems about the model functions (curveGrid, surfaceGrid, volumeGrid, curveDers); the zeroth derivative of surfaces follows coordinatewise from C02 (k = l = 0); the object layer's dispatch to these functions is tied by correspondence + exact oracle only",
    "evaluation with find_span_binsearch SELECTED is now an end-to-end theorem (C17 curve_eval_binsearch_selected, rational_curve_eval_binsearch_selected, surface_eval_binsearch_selected, volume_eval_binsearch_selected, curve_derivatives_binsearch_selected; binsearch_span_found): on the closed domain of a knot vector with non-empty last span the point computed on the span the binary search returns is the Cox-de Boor (tensor) sum (cdbSpan of that span; cdb below the domain end), under BinTolOk = tolerance in (0, 1/2) and the F-17b separation hypothesis per direction (holds for every parameter when the last span is longer than the tolerance); without it the evaluated point differs (curve_eval_binsearch_refuted_F17b) - supersedes the last clause of the first item; rational surfaces / volumes with the binary search: only through binsearch_selected_any_span_function (span equality), no separate quotient statement",
]
PARTIAL.append("knot vectors with an empty last domain span (F-01b, repaired): evaluate_single is now covered by theorems about the evaluation through the literal model of the REPAIRED search (curvePointR / surfacePointR / volumePointR = span found by findSpanLinearR, Model/SpanR.lean): curve_eval_repaired_closed, rational_curve_eval_repaired_closed, surface_ / volume_eval_repaired_closed, rational_surface_ / rational_volume_eval_repaired_closed (every sorted knot vector with U_p < U_n per direction, whole closed domain: the span found is legal, non-empty, contains the parameter; point = Cox-de Boor (tensor) sum with the recursion of that span, cdb itself below the domain end, the LAST NON-EMPTY span at U_n; rational quotient with positive weight), eval_repaired_eq_eval (= curvePoint / surfacePoint / volumePoint under KnotsOk), witness curve_eval_repaired_witness_F01b; correspondence at u = U_n too (stream empty-last-span: kind end-left-limit now has a model line cevalr / sevalr / vevalr besides the oracle; ordinary shapes: kind singler). LIFTED to the repaired search too (Model/SpanRGrid.lean: curveGridR / surfaceGridR / volumeGridR / curveDersR = the models of evaluate_list, the sampled grids and derivatives with findSpanLinear replaced by findSpanLinearR, per-span functions unchanged): curve_list_repaired_eq_single, surface_grid_repaired_index, volume_grid_repaired_index (size, ordering, entry = R point evaluation at its parameters), curve_ / surface_ / volume_grid_repaired_entry_eq_definition and rational_curve_ / rational_surface_ / rational_volume_grid_repaired_entry_eq_quotient (EVERY sorted knot vector with U_p < U_n per direction, parameters in the closed domain: entry = Cox-de Boor (tensor) sum / quotient with the recursion of the non-empty span the repaired search finds; cdb itself below the domain end), grid_repaired_corners (linspace lists: first / last grid point = R evaluation at the start / end corner, curves, surfaces, volumes), curve_grid_repaired_ends_on_left_limit, surface_grid_repaired_ends_on_left_limit (last grid point = sum with the recursion of the LAST NON-EMPTY span(s) at U_n, first = Cox-de Boor sum at U_p), grid_repaired_eq_grid + sampled_params_in_domain (= curveGrid / surfaceGrid / volumeGrid under KnotsOk for parameter lists in the closed domain), curve_ders0_repaired_eq_single, kernel-decided witness grid_repaired_witness_F01b; correspondence AT U_n (stream empty-last-span): kinds end-grid-r (cgridr / sgridr / vgridr: the whole evalpts), clistr (curves: the whole evaluate_list through curveGridR) / end-list-r (surfaces, volumes: entry of evaluate_list against sevalr / vevalr), end-ders-r (derivatives of order 0..2 against cdersr / sdersr), each with a model line AND the exact oracle (left-limit values); ordinary shapes: kinds gridr, clistr. Still partial: no separate ends-on-left-limit theorem for volumes (it is grid_repaired_corners composed with volume_eval_repaired_closed and C03.findSpanLinearR_spec); the grid theorems take the linspace parameter lists (linspaceCore) as given - the tolerance branch of linalg.linspace and the sample-size rounding (F-01) stay on the correspondence / oracle side; evaluate_list of surfaces / volumes has no list model of its own (entry-wise comparison, as for the ops without step back); the ops of the search WITHOUT step back (ceval, cgrid, cders, ...) still answer ERR when the span they find is empty, and span_found_nonempty_of_knotsOk / span_found_empty_without_knotsOk remain as the statements about that search")
PARTIAL.append("vanishing weight function (statement audit 5): the setters accept weights of mixed sign; where the weight function W vanishes inside the domain the rational evaluators raise ZeroDivisionError - the rational ops (ceval / seval / veval, the R twins, grids, clistr, clen) answer ERR when the evaluated weight is 0 (Drv.wZero), the rational theorems assume positive weights; stream zero-weight (degree-1 line / bilinear patch with weights 1 and w < 0, parameter on and off the zero set of W)")
ASSUMPTIONS = ["parameters at the domain end are evaluated on the last non-empty span (left limit), as the library does"]


def _shape(rng, tier):
    r = rng.random()
    if r < .45:
        return S.rand_curve(rng, maxp=6 if tier == 'quick' else 8, clamped=rng.random() < .85)
    if r < .85:
        return S.rand_surface(rng)
    return S.rand_volume(rng)


OPS = {'curve': 'ceval', 'surface': 'seval', 'volume': 'veval'}
# evaluation through the REPAIRED model search (findSpanLinearR: step back to the last non-empty span at the domain end;
# Model/SpanR.lean curvePointR / surfacePointR / volumePointR) - no empty-span guard in the driver
OPSR = {'curve': 'cevalr', 'surface': 'sevalr', 'volume': 'vevalr'}
GRID = {'curve': 'cgrid', 'surface': 'sgrid', 'volume': 'vgrid'}
# sampled grids / evaluate_list / derivatives through the REPAIRED model search (curveGridR / surfaceGridR / volumeGridR /
# curveDersR / surfaceDersR, Model/SpanRGrid.lean): ops without the lastSpanEmpty / emptySpanAt guards
GRIDR = {'curve': 'cgridr', 'surface': 'sgridr', 'volume': 'vgridr'}


def gen(rng, tier):
    out = []
    n = 150 if tier == 'quick' else 2500
    for _i in range(n):
        d = _shape(rng, tier)
        ps = S.rand_params(rng, d)
        line = "%s %s %s" % (OPS[d['kind']], S.args(d), " ".join(fr(x) for x in ps))
        if _i % 3 == 0:
            # the R evaluation of the model on ORDINARY shapes: it must agree with the code everywhere
            out.append(Case('singler', "%s %s %s" % (OPSR[d['kind']], S.args(d), " ".join(fr(x) for x in ps)), dict(shape=d, params=ps),
                            tags=('ordinary-r',)))
        kinds = ['single', 'list', 'ders0'] if d['kind'] != 'volume' else ['single', 'list']
        k = rng.choice(kinds)
        data = dict(shape=d, params=ps)
        if k == 'list':
            extra = [S.rand_params(rng, d) for _ in range(rng.randint(0, 3))]
            j = rng.randint(0, len(extra))
            data['plist'] = extra[:j] + [ps] + extra[j:]
            data['j'] = j
            if d['kind'] == 'curve':
                # the whole list through the model of evaluate_list with the REPAIRED search (curveGridR, op clistr)
                out.append(Case('clistr', "clistr %s %s" % (S.args(d), show_list([x[0] for x in data['plist']])),
                                dict(shape=d, plist=data['plist']), tags=('ordinary-r',)))
        out.append(Case(k, line, data))
    turn = {}
    for it_ in range(25 if tier == 'quick' else 300):
        r = rng.random()
        ar = rng.random() < .2      # un-normalised knot ranges hit the recorded finding F-01
        cl = rng.random() < .75       # unclamped knot vectors: the domain ends are NOT the first / last knot
        force_twin = it_ % 5 == 1     # every fifth round is a twin-direction surface / volume (see below)
        if force_twin:
            r = .5 if it_ % 10 == 1 else .9
            ar = False
        if it_ % 5 == 3:              # every fifth round: an UNCLAMPED surface / volume on [0,1]-free defaults (the default grid
            r = .9 if it_ % 10 == 3 else .5   # ends are the DOMAIN ends U_p, U_n of every direction, not the first / last knot)
            ar = False
            cl = False
        if r < .4:
            d = S.rand_curve(rng, maxp=4, allow_range=ar, clamped=cl)
        elif r < .8:
            d = S.rand_surface(rng, maxp=3, max_interior=2, allow_range=ar, clamped=cl)
        else:
            d = S.rand_volume(rng, maxp=2, max_interior=1, allow_range=ar, clamped=cl)
        if not ar and d['kind'] != 'curve' and (force_twin or rng.random() < .1):
            # TWIN directions: the same degree, the same number of control points and (below) the same sample size in every
            # direction, but DIFFERENT interior knots - anything shared between "equal looking" directions must show
            p_ = rng.randint(1, 3)
            kvs_ = []
            for _t in range(200):
                kv_, n_ = G.knots(rng, p_, max_interior=3, allow_range=False, clamped=cl)
                if len(kv_) > 2 * (p_ + 1) and (not kvs_ or (len(kv_) == len(kvs_[0]) and kv_ not in kvs_)):
                    kvs_.append(kv_)
                if len(kvs_) == len(S.dirs(d)):
                    break
            if len(kvs_) == len(S.dirs(d)):
                n_ = len(kvs_[0]) - p_ - 1
                dim_ = d['dim']
                npts = n_ ** len(kvs_)
                P_ = G.points(rng, npts, dim_)
                if d['rat']:
                    P_ = G.homogeneous(P_, G.weights(rng, npts))
                if d['kind'] == 'surface':
                    d = dict(kind='surface', rat=d['rat'], pu=p_, pv=p_, kvu=kvs_[0], kvv=kvs_[1], su=n_, sv=n_, P=P_, dim=dim_)
                else:
                    d = dict(kind='volume', rat=d['rat'], pu=p_, pv=p_, pw=p_, kvu=kvs_[0], kvv=kvs_[1], kvw=kvs_[2], su=n_, sv=n_, sw=n_, P=P_, dim=dim_)
                d['twin'] = True
                G.count('shape', 'twin-directions')
        if not ar and d['kind'] != 'curve' and rng.random() < .3:
            # knot ranges of length 1 (sample sizes are honoured, F-01 does not apply) that start at a DIFFERENT value in every
            # direction: the object keeps them (normalize_kv=False), a u / v mix-up of the default grid ends must show
            for j_, key in enumerate(['kvu', 'kvv', 'kvw'][:len(S.dirs(d))]):
                sh_ = F([2, -1, 5][j_])
                d[key] = [x + sh_ for x in d[key]]
            G.count('knot_range', 'unit-length-shifted-per-direction')
        hi = 12 if d['kind'] == 'curve' else (6 if d['kind'] == 'surface' else 4)
        sizes = [rng.randint(2, hi) for _ in S.dirs(d)]
        if d.get('twin'):
            sizes = [sizes[0]] * len(sizes)
        deltas = [(kv[n_] - kv[p]) / sz for (p, kv, n_), sz in zip(S.dirs(d), sizes)]
        if any(dl >= 1 or dl <= 0 for dl in deltas):
            continue   # the delta setter rejects these
        line = "%s %s %s" % (GRID[d['kind']], S.args(d), " ".join(fr(x) for x in deltas))
        # half of the cases first read the grid with other sizes and then change ONE direction only
        first = None
        if rng.random() < .5:
            first = list(sizes)
            k = rng.randrange(len(sizes))
            turn[len(sizes)] = turn.get(len(sizes), 0) + 1
            k = turn[len(sizes)] % len(sizes)          # every direction in turn (a setter of ONE direction that forgets to reset)
            first[k] = sizes[k] + 1 if sizes[k] < hi else sizes[k] - 1
            if first[k] < 2 or (S.dirs(d)[k][1][S.dirs(d)[k][2]] - S.dirs(d)[k][1][S.dirs(d)[k][0]]) / first[k] >= 1:
                first = None
        out.append(Case('grid', line, dict(shape=d, sizes=sizes, first=first)))
        if len(out) % 3 == 0:
            # the R grid of the model on ORDINARY shapes: it must agree with evalpts everywhere
            out.append(Case('gridr', "%s %s %s" % (GRIDR[d['kind']], S.args(d), " ".join(fr(x) for x in deltas)),
                            dict(shape=d, sizes=sizes, first=first), tags=('ordinary-r',)))
    # interior knots of FULL multiplicity (p + 1: the shape may jump there; the value at the knot is the
    # right-hand one, only the domain end takes the left limit) with samples landing exactly on them
    for _ in range(14 if tier == 'quick' else 150):
        p_ = rng.randint(1, 3)
        x = rng.choice([F(1, 2), F(1, 4), F(3, 4)])
        kv = [F(0)] * (p_ + 1) + [x] * (p_ + 1) + [F(1)] * (p_ + 1)
        n_ = len(kv) - p_ - 1
        rat = rng.random() < .4
        if rng.random() < .6:
            P = G.points(rng, n_, 2)
            if rat:
                P = G.homogeneous(P, G.weights(rng, n_))
            d = dict(kind='curve', rat=rat, p=p_, kv=kv, n=n_, P=P, dim=2)
            sizes = [rng.choice([5, 9])]
        else:
            pv = rng.choice([q_ for q_ in (1, 2, 3) if q_ != p_])
            kvv, sv = G.knots(rng, pv, max_interior=1, allow_range=False)
            if sv == n_:
                kvv = sorted(kvv + [F(1, 3) if kvv.count(F(1, 3)) < pv else F(2, 3)]); sv += 1
            P = G.points(rng, n_ * sv, 3)
            if rat:
                P = G.homogeneous(P, G.weights(rng, n_ * sv))
            d = dict(kind='surface', rat=rat, pu=p_, pv=pv, kvu=kv, kvv=kvv, su=n_, sv=sv, P=P, dim=3)
            sizes = [rng.choice([5, 9]), rng.randint(2, 4)]
        deltas = [F(1, sz) for sz in sizes]
        line = "%s %s %s" % (GRID[d['kind']], S.args(d), " ".join(fr(x_) for x_ in deltas))
        out.append(Case('grid', line, dict(shape=d, sizes=sizes, first=None), tags=('full-multiplicity',)))
        out.append(Case('gridr', "%s %s %s" % (GRIDR[d['kind']], S.args(d), " ".join(fr(x_) for x_ in deltas)),
                        dict(shape=d, sizes=sizes, first=None), tags=('full-multiplicity', 'ordinary-r')))
        ps = [x] + [rng.choice([F(0), F(1, 3), F(1)]) for _ in S.dirs(d)[1:]]
        out.append(Case('single', "%s %s %s" % (OPS[d['kind']], S.args(d), " ".join(fr(x_) for x_ in ps)), dict(shape=d, params=ps),
                        tags=('full-multiplicity',)))
    # empty-last-span (F-01b, repaired): knot vectors whose last domain span [U_{n-1}, U_n] is EMPTY - unclamped with a
    # knot of multiplicity 2..p sitting exactly on the domain end, or the end knot repeated p+2 times (both accepted by
    # knotvector.check) - in the (one) direction of a curve / in one direction of a surface / volume.  Strictly inside
    # the domain: correspondence (model line, unrepaired and repaired model search) + oracle.  AT U_n: model line with the
    # R evaluation (curvePointR / surfacePointR / volumePointR = span found by findSpanLinearR, the transcription of the
    # repaired find_span_linear; the ops of the unrepaired model search answer ERR there) compared with evaluate_single,
    # + the exact oracle, which demands the Cox-de Boor LEFT-LIMIT value (= the polynomial of the last non-empty span at
    # U_n) of points, first derivatives, evaluate_list and the grid.
    for _ in range(36 if tier == 'quick' else 400):
        d, k = _empty_last_shape(rng)
        ds = S.dirs(d)
        p_, kv, n_ = ds[k]
        G.count('empty_last_span', (d['kind'], 'dir%d' % k, 'p+2' if kv[n_] == kv[-1] else 'end-multiplicity'))
        # (1) strictly inside (incl. interior knots and the domain start)
        ps = S.rand_params(rng, d)
        inner = sorted(set(x for x in kv[p_:n_ + 1] if x < kv[n_]))
        ps[k] = rng.choice(inner) if rng.random() < .4 else kv[p_] + (kv[n_] - kv[p_]) * F(rng.randint(0, 99), 100)
        kinds = ['single', 'list', 'ders0'] if d['kind'] != 'volume' else ['single', 'list']
        kd = rng.choice(kinds)
        data = dict(shape=d, params=ps)
        if kd == 'list':
            data['plist'] = [ps]; data['j'] = 0
        out.append(Case(kd, "%s %s %s" % (OPS[d['kind']], S.args(d), " ".join(fr(x) for x in ps)), data, tags=('empty-last-span', 'inside')))
        out.append(Case('singler', "%s %s %s" % (OPSR[d['kind']], S.args(d), " ".join(fr(x) for x in ps)), dict(shape=d, params=ps),
                        tags=('empty-last-span', 'inside')))
        # (2) at the domain end of the special direction (other directions anywhere, ends included): R model line + oracle
        pe = S.rand_params(rng, d)
        pe[k] = kv[n_]
        sizes = [rng.randint(2, 5) for _ in ds]
        out.append(Case('end-left-limit', "%s %s %s" % (OPSR[d['kind']], S.args(d), " ".join(fr(x) for x in pe)),
                        dict(shape=d, params=pe, dir=k, sizes=sizes), tags=('empty-last-span', 'at-end')))
        # (3) the other entry points AT the domain end, each with a model line through the R models of Model/SpanRGrid.lean
        # (the ops of the unrepaired model search answer ERR there) + the exact oracle (left-limit values):
        # (3a) the sampled grid (its last row / column / layer in direction k lies on U_n): cgridr / sgridr / vgridr
        deltas = [(kv_[n2] - kv_[p2]) / sz for (p2, kv_, n2), sz in zip(ds, sizes)]
        if all(0 < dl < 1 for dl in deltas):
            out.append(Case('end-grid-r', "%s %s %s" % (GRIDR[d['kind']], S.args(d), " ".join(fr(x) for x in deltas)),
                            dict(shape=d, sizes=sizes, first=None), tags=('empty-last-span', 'at-end')))
        # (3b) evaluate_list with the end parameter among others: curves - the whole list (curveGridR, op clistr);
        # surfaces / volumes - entry j of the list against the R point evaluation
        extra = [S.rand_params(rng, d) for _ in range(rng.randint(0, 2))]
        j = rng.randint(0, len(extra))
        plist = extra[:j] + [pe] + extra[j:]
        if d['kind'] == 'curve':
            out.append(Case('clistr', "clistr %s %s" % (S.args(d), show_list([x[0] for x in plist])),
                            dict(shape=d, plist=plist), tags=('empty-last-span', 'at-end')))
        else:
            out.append(Case('end-list-r', "%s %s %s" % (OPSR[d['kind']], S.args(d), " ".join(fr(x) for x in pe)),
                            dict(shape=d, params=pe, plist=plist, j=j), tags=('empty-last-span', 'at-end')))
        # (3c) derivatives (order 0..2, default evaluator) on the span the repaired search finds: curveDersR / surfaceDersR
        if d['kind'] != 'volume':
            order = rng.randint(0, 2)
            if d['kind'] == 'curve':
                ln = "cdersr %s %s %d" % (S.args(d), fr(pe[0]), order)
            else:
                ln = "sdersr %s 0 %s %s %s %d" % ('1' if d['rat'] else '0', S.args(d)[2:], fr(pe[0]), fr(pe[1]), order)
            out.append(Case('end-ders-r', ln, dict(shape=d, params=pe, order=order), tags=('empty-last-span', 'at-end')))
    # malformed (statement audit 5, vanishing weight function): weights of MIXED SIGN are accepted by the setters; at a
    # parameter where the weight function W vanishes the rational evaluators divide by zero (ZeroDivisionError) - the ops
    # answer ERR (wZero), both sides refuse, nothing for the oracle to judge; next to it a parameter where W != 0 (judged)
    for _ in range(6 if tier == 'quick' else 40):
        d, zero, other = S.mixed_sign_shape(rng)
        for ps, tag in ((zero, 'zero-weight'), (other, 'mixed-sign-nonzero')):
            line = "%s %s %s" % (OPS[d['kind']], S.args(d), " ".join(fr(x) for x in ps))
            out.append(Case('single', line, dict(shape=d, params=ps), tags=(tag,)))
            out.append(Case('singler', "%s %s %s" % (OPSR[d['kind']], S.args(d), " ".join(fr(x) for x in ps)), dict(shape=d, params=ps), tags=(tag,)))
            if d['kind'] == 'curve':
                out.append(Case('clistr', "clistr %s %s" % (S.args(d), show_list([other[0], ps[0]])), dict(shape=d, plist=[other, ps]), tags=(tag,)))
    # floating point: the requested sample size is honoured for every n (rounding of 1/delta)
    out.append(Case('float-sizes', None, dict(lo=2, hi=130 if tier == 'quick' else 400)))
    return out


_empty_last_shape = S.empty_last_shape      # shared with c17.py (binary search selected on such shapes)


def _oracle_end_left_limit(c):
    """at the end of a domain whose last span is empty the value is the Cox-de Boor left limit (points: S.eval_ref; first
    derivatives: the polynomial of the last non-empty span, jets.py); every entry point, and the sampled grid"""
    import itertools
    import jets as J
    d = c.data['shape']; ps = c.data['params']
    o = S.build(d)
    want = S.eval_ref(d, ps)
    try:
        got = _eval(o, d, ps, 'single')
    except Exception as e:
        return "evaluate_single%s at the end of a domain with an empty last span raised %s (the Cox-de Boor left-limit value is %s)" % (
            tuple(map(fr, ps)), type(e).__name__, show_list(want))
    if list(got) != want:
        return "evaluate_single%s = %s at the end of a domain with an empty last span, the left limit is %s" % (tuple(map(fr, ps)), show_list(got), show_list(want))
    qp = [q(x) for x in ps]
    if list(o.evaluate_list([qp[0]] if d['kind'] == 'curve' else [tuple(qp)])[0]) != want:
        return "evaluate_list differs from the left-limit value at %s" % (tuple(map(fr, ps)),)
    if d['kind'] == 'curve':
        ders = o.derivatives(qp[0], 1)
        ref = J.curve_ders(d, ps[0], 1)
        if [list(x) for x in ders] != ref:
            return "derivatives(order=1) at the domain end %s is %s, the last non-empty span's polynomial gives %s" % (fr(ps[0]), show_pts(ders), show_pts(ref))
    elif d['kind'] == 'surface':
        ders = o.derivatives(qp[0], qp[1], 1)
        ref = J.surface_ders(d, ps[0], ps[1], 1)
        for a in range(2):
            for b in range(2 - a):
                if list(ders[a][b]) != ref[a][b]:
                    return "derivatives(order=1)[%d][%d] at %s is %s, the last non-empty span's polynomial gives %s" % (
                        a, b, tuple(map(fr, ps)), show_list(ders[a][b]), show_list(ref[a][b]))
    # the sampled grid ends at U_n in every direction
    ds = S.dirs(d)
    if all(0 < (kv[n] - kv[p]) / sz < 1 for (p, kv, n), sz in zip(ds, c.data['sizes'])) and all(S.unit_range(kv) or True for (_, kv, _) in ds):
        o2 = S.build(d)
        sizes = c.data['sizes']
        _set_sizes(o2, d, sizes)
        try:
            pts = o2.evalpts
        except Exception as e:
            return "evalpts on a domain with an empty last span raised %s" % type(e).__name__
        tot = 1
        for s_ in sizes:
            tot *= s_
        if len(pts) == tot:        # (another count: the recorded finding F-01 on un-normalised ranges, judged by the grid stream)
            params = [[kv[p] + (kv[n] - kv[p]) * F(i, sz - 1) for i in range(sz)] for (p, kv, n), sz in zip(ds, sizes)]
            for idx, combo in enumerate(itertools.product(*params)):
                w2 = S.eval_ref(d, list(combo))
                if list(pts[idx]) != w2:
                    return "grid point %d (parameters %s) is %s, the definition (left limit at the end) gives %s" % (
                        idx, tuple(map(fr, combo)), show_list(pts[idx]), show_list(w2))
    return None


def _set_sizes(o, d, sizes, first=None):
    if first:
        _set_sizes(o, d, first)
        o.evalpts                      # read, then change only the directions that differ
        for k, (a, b) in enumerate(zip(first, sizes)):
            if a != b:
                setattr(o, 'sample_size' if d['kind'] == 'curve' else 'sample_size_' + 'uvw'[k], b)
        return
    if d['kind'] == 'curve':
        o.sample_size = sizes[0]
    elif d['kind'] == 'surface':
        o.sample_size_u, o.sample_size_v = sizes
    else:
        o.sample_size_u, o.sample_size_v, o.sample_size_w = sizes


def _eval(o, d, ps, how):
    qp = [q(x) for x in ps]
    arg = qp[0] if d['kind'] == 'curve' else tuple(qp)
    if how == 'single':
        return o.evaluate_single(arg)
    if how == 'ders0':
        if d['kind'] == 'curve':
            return o.derivatives(qp[0], 0)[0]
        return o.derivatives(qp[0], qp[1], 0)[0][0]
    raise ValueError(how)


def impl(c):
    d = c.data['shape']
    o = S.build(d)
    if c.kind in ('single', 'ders0'):
        return show_list(_eval(o, d, c.data['params'], c.kind))
    if c.kind in ('singler', 'end-left-limit'):
        # evaluate_single, compared with the model's evaluation through the REPAIRED span search
        return show_list(_eval(o, d, c.data['params'], 'single'))
    if c.kind == 'list':
        pl = [[q(x) for x in ps] for ps in c.data['plist']]
        arg = [p[0] for p in pl] if d['kind'] == 'curve' else [tuple(p) for p in pl]
        return show_list(o.evaluate_list(arg)[c.data['j']])
    if c.kind in ('grid', 'gridr', 'end-grid-r'):
        _set_sizes(o, d, c.data['sizes'], c.data.get('first'))
        return show_pts(o.evalpts)
    if c.kind == 'clistr':
        return show_pts(o.evaluate_list([q(ps[0]) for ps in c.data['plist']]))
    if c.kind == 'end-list-r':
        return show_list(o.evaluate_list([tuple(q(x) for x in ps) for ps in c.data['plist']])[c.data['j']])
    if c.kind == 'end-ders-r':
        qp = [q(x) for x in c.data['params']]
        if d['kind'] == 'curve':
            return show_pts(o.derivatives(qp[0], c.data['order']))
        from core import show_pts2
        return show_pts2(o.derivatives(qp[0], qp[1], c.data['order']))
    raise ValueError(c.kind)


def oracle(c):
    if 'zero-weight' in c.tags:
        return None        # W(u) = 0: the rational evaluation raises ZeroDivisionError, ERR on both sides (malformed stream)
    if c.kind == 'end-left-limit':
        return _oracle_end_left_limit(c)
    d = c.data.get('shape')
    o = S.build(d) if d else None
    if c.kind in ('clistr', 'end-list-r'):
        # every entry of evaluate_list is the definition's value (left limit at the domain end)
        pl = c.data['plist']
        got = o.evaluate_list([q(ps[0]) for ps in pl] if d['kind'] == 'curve' else [tuple(q(x) for x in ps) for ps in pl])
        if len(got) != len(pl):
            return "evaluate_list returns %d points for %d parameters" % (len(got), len(pl))
        for ps, g in zip(pl, got):
            want = S.eval_ref(d, ps)
            if list(g) != want:
                return "evaluate_list at %s gives %s, the definition (left limit at the domain end) gives %s" % (
                    tuple(map(fr, ps)), show_list(g), show_list(want))
        return None
    if c.kind == 'end-ders-r':
        import jets as J
        ps, order = c.data['params'], c.data['order']
        qp = [q(x) for x in ps]
        if d['kind'] == 'curve':
            got = [list(x) for x in o.derivatives(qp[0], order)]
            ref = J.curve_ders(d, ps[0], order)
            if got != ref:
                return "derivatives(%s, %d) at the end of a domain with an empty last span is %s, the last non-empty span's polynomial gives %s" % (
                    fr(ps[0]), order, show_pts(got), show_pts(ref))
            return None
        got = o.derivatives(qp[0], qp[1], order)
        ref = J.surface_ders(d, ps[0], ps[1], order)
        for a in range(order + 1):
            for b in range(order + 1):
                if list(got[a][b]) != ref[a][b]:
                    return "derivatives(order=%d)[%d][%d] at %s is %s, the polynomial of the last non-empty span(s) gives %s" % (
                        order, a, b, tuple(map(fr, ps)), show_list(got[a][b]), show_list(ref[a][b]))
        return None
    if c.kind in ('single', 'list', 'ders0', 'singler'):
        ps = c.data['params']
        want = S.eval_ref(d, ps)
        got = _eval(o, d, ps, 'single')
        if list(got) != want:
            return "evaluate_single%s = %s, the definition gives %s" % (tuple(map(fr, ps)), show_list(got), show_list(want))
        qp = [q(x) for x in ps]
        lst = o.evaluate_list([qp[0]] if d['kind'] == 'curve' else [tuple(qp)])[0]
        if list(lst) != want:
            return "evaluate_list differs from evaluate_single at %s" % (tuple(map(fr, ps)),)
        if d['kind'] != 'volume':
            d0 = _eval(o, d, ps, 'ders0')
            if list(d0) != want:
                return "derivatives(order=0) differs from evaluate_single at %s" % (tuple(map(fr, ps)),)
        return None
    if c.kind == 'float-sizes':
        import subprocess, sys, os, json
        from core import REPO, VERIF
        p = subprocess.run([sys.executable, os.path.join(VERIF, 'harness', 'float_probe.py'), REPO, 'samplesize', str(c.data['lo']), str(c.data['hi'])],
                           capture_output=True, text=True, timeout=600)
        if p.returncode != 0:
            return "float sample-size probe failed: %s" % (p.stderr.strip().splitlines() or ['?'])[-1]
        bad = json.loads(p.stdout)['bad']
        if bad:
            return "floating point: sample size %d yields %d evaluated points (curve, or surface with 3 in the other direction), first of %d such sizes" % (bad[0][0], bad[0][1], len(bad))
        return None
    if c.kind in ('grid', 'gridr', 'end-grid-r'):
        import itertools
        sizes = c.data['sizes']
        _set_sizes(o, d, sizes, c.data.get('first'))
        pts = o.evalpts
        total = 1
        for s_ in sizes:
            total *= s_
        ds = S.dirs(d)
        msg = None
        use = list(sizes)
        if len(pts) != total:
            msg = "sampled grid has %d points, requested sample sizes %s" % (len(pts), sizes)
            # recorded finding F-01 (un-normalised knot range): the size read back is floor(n/range + 1/2);
            # the points must still be the evenly spaced grid of THAT size over the true domain
            use = [int((kv[n] - kv[p]) and (F(sz) / (kv[n] - kv[p]) + F(1, 2)) // 1) for (p, kv, n), sz in zip(ds, sizes)]
            t2 = 1
            for s_ in use:
                t2 *= s_
            if t2 != len(pts) or all(S.unit_range(kv) for (_, kv, _) in ds):
                return msg + " [not the count the recorded finding F-01 predicts]"
        params = [[kv[p] + (kv[n] - kv[p]) * F(i, sz - 1) for i in range(sz)] if sz > 1 else [kv[p]] for (p, kv, n), sz in zip(ds, use)]
        idx = 0
        for combo in itertools.product(*params):   # u slowest ... last direction fastest
            want = S.eval_ref(d, list(combo))
            if list(pts[idx]) != want:
                return "grid point %d (parameters %s) is %s, the definition gives %s" % (idx, tuple(map(fr, combo)), show_list(pts[idx]), show_list(want))
            idx += 1
        return msg
    return None


def classify(c, why):
    if c.kind in ('grid', 'gridr', 'end-grid-r') and why.startswith('sampled grid has') and 'not the count' not in why:
        d = c.data['shape']
        if any(not S.unit_range(kv) for (_, kv, _) in S.dirs(d)):
            return 'F-01'
    return None


def witness(fid):
    if fid == 'F-01':
        from geomdl import BSpline
        c = BSpline.Curve(normalize_kv=False)
        c.degree = 2
        c.ctrlpts = [[q(0), q(0)], [q(1), q(2)], [q(2), q(0)], [q(3), q(1)]]
        c.knotvector = qs([0, 0, 0, F(5, 2), 5, 5, 5])
        c.sample_size = 10
        n = len(c.evalpts)
        return "sample_size = 10 on knot range [0,5] yields %d points" % n if n != 10 else None
    return None
