"""C01  Evaluated points equal the B-spline / NURBS definition (all entry points, grids)."""
from fractions import Fraction as F
from core import Case, q, qs, fr, show_list, show_pts
import gen as G
import shapes as S

PID = 'C01'
STATS = G.STATS
PARTIAL = [
    "volume_point_eq_definition: the triple tensor-product theorem is not stated in Lean yet (curve and surface are); volumes are covered by correspondence + exact oracle",
    "entry_points_agree: single / list / grid / zeroth-derivative entry points are tied to the one model function by the correspondence, not by a Lean theorem about the object layer",
]
ASSUMPTIONS = ["parameters at the domain end are evaluated on the last non-empty span (left limit), as the library does"]


def _shape(rng, tier):
    r = rng.random()
    if r < .45:
        return S.rand_curve(rng, maxp=6 if tier == 'quick' else 8, clamped=rng.random() < .85)
    if r < .85:
        return S.rand_surface(rng)
    return S.rand_volume(rng)


OPS = {'curve': 'ceval', 'surface': 'seval', 'volume': 'veval'}
GRID = {'curve': 'cgrid', 'surface': 'sgrid', 'volume': 'vgrid'}


def gen(rng, tier):
    out = []
    n = 150 if tier == 'quick' else 2500
    for _ in range(n):
        d = _shape(rng, tier)
        ps = S.rand_params(rng, d)
        line = "%s %s %s" % (OPS[d['kind']], S.args(d), " ".join(fr(x) for x in ps))
        kinds = ['single', 'list', 'ders0'] if d['kind'] != 'volume' else ['single', 'list']
        k = rng.choice(kinds)
        data = dict(shape=d, params=ps)
        if k == 'list':
            extra = [S.rand_params(rng, d) for _ in range(rng.randint(0, 3))]
            j = rng.randint(0, len(extra))
            data['plist'] = extra[:j] + [ps] + extra[j:]
            data['j'] = j
        out.append(Case(k, line, data))
    for _ in range(25 if tier == 'quick' else 300):
        r = rng.random()
        ar = rng.random() < .2      # un-normalised knot ranges hit the recorded finding F-01
        if r < .5:
            d = S.rand_curve(rng, maxp=4, allow_range=ar)
        elif r < .9:
            d = S.rand_surface(rng, maxp=3, max_interior=2, allow_range=ar)
        else:
            d = S.rand_volume(rng, maxp=2, max_interior=1, allow_range=ar)
        hi = 12 if d['kind'] == 'curve' else (6 if d['kind'] == 'surface' else 4)
        sizes = [rng.randint(2, hi) for _ in S.dirs(d)]
        deltas = [(kv[n_] - kv[p]) / sz for (p, kv, n_), sz in zip(S.dirs(d), sizes)]
        if any(dl >= 1 or dl <= 0 for dl in deltas):
            continue   # the delta setter rejects these
        line = "%s %s %s" % (GRID[d['kind']], S.args(d), " ".join(fr(x) for x in deltas))
        out.append(Case('grid', line, dict(shape=d, sizes=sizes)))
    return out


def _set_sizes(o, d, sizes):
    if d['kind'] == 'curve':
        o.sample_size = sizes[0]
    elif d['kind'] == 'surface':
        o.sample_size_u, o.sample_size_v = sizes
    else:
        o.sample_size_u, o.sample_size_v, o.sample_size_w = sizes


def _eval(o, d, ps, how):
    qp = [q(x) for x in ps]
    arg = qp[0] if d['kind'] == 'curve' else tuple(qp)
    if how == 'single':
        return o.evaluate_single(arg)
    if how == 'ders0':
        if d['kind'] == 'curve':
            return o.derivatives(qp[0], 0)[0]
        return o.derivatives(qp[0], qp[1], 0)[0][0]
    raise ValueError(how)


def impl(c):
    d = c.data['shape']
    o = S.build(d)
    if c.kind in ('single', 'ders0'):
        return show_list(_eval(o, d, c.data['params'], c.kind))
    if c.kind == 'list':
        pl = [[q(x) for x in ps] for ps in c.data['plist']]
        arg = [p[0] for p in pl] if d['kind'] == 'curve' else [tuple(p) for p in pl]
        return show_list(o.evaluate_list(arg)[c.data['j']])
    if c.kind == 'grid':
        _set_sizes(o, d, c.data['sizes'])
        return show_pts(o.evalpts)
    raise ValueError(c.kind)


def oracle(c):
    d = c.data['shape']
    o = S.build(d)
    if c.kind in ('single', 'list', 'ders0'):
        ps = c.data['params']
        want = S.eval_ref(d, ps)
        got = _eval(o, d, ps, 'single')
        if list(got) != want:
            return "evaluate_single%s = %s, the definition gives %s" % (tuple(map(fr, ps)), show_list(got), show_list(want))
        qp = [q(x) for x in ps]
        lst = o.evaluate_list([qp[0]] if d['kind'] == 'curve' else [tuple(qp)])[0]
        if list(lst) != want:
            return "evaluate_list differs from evaluate_single at %s" % (tuple(map(fr, ps)),)
        if d['kind'] != 'volume':
            d0 = _eval(o, d, ps, 'ders0')
            if list(d0) != want:
                return "derivatives(order=0) differs from evaluate_single at %s" % (tuple(map(fr, ps)),)
        return None
    if c.kind == 'grid':
        sizes = c.data['sizes']
        _set_sizes(o, d, sizes)
        pts = o.evalpts
        total = 1
        for s in sizes:
            total *= s
        if len(pts) != total:
            return "sampled grid has %d points, requested sample sizes %s" % (len(pts), sizes)
        ds = S.dirs(d)
        params = [[kv[p] + (kv[n] - kv[p]) * F(i, sz - 1) for i in range(sz)] for (p, kv, n), sz in zip(ds, sizes)]
        idx = 0
        import itertools
        for combo in itertools.product(*params):   # u slowest ... last direction fastest
            want = S.eval_ref(d, list(combo))
            if list(pts[idx]) != want:
                return "grid point %d (parameters %s) is %s, the definition gives %s" % (idx, tuple(map(fr, combo)), show_list(pts[idx]), show_list(want))
            idx += 1
        return None
    return None


def classify(c, why):
    if c.kind == 'grid' and why.startswith('sampled grid has'):
        d = c.data['shape']
        if any(not S.unit_range(kv) for (_, kv, _) in S.dirs(d)):
            return 'F-01'
    return None


def witness(fid):
    if fid == 'F-01':
        from geomdl import BSpline
        c = BSpline.Curve(normalize_kv=False)
        c.degree = 2
        c.ctrlpts = [[q(0), q(0)], [q(1), q(2)], [q(2), q(0)], [q(3), q(1)]]
        c.knotvector = qs([0, 0, 0, F(5, 2), 5, 5, 5])
        c.sample_size = 10
        n = len(c.evalpts)
        return "sample_size = 10 on knot range [0,5] yields %d points" % n if n != 10 else None
    return None
