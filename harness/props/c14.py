"""C14  Export followed by import reproduces the geometry.

Correspondence (token level): the real writers' files, tokenised (split on whitespace / `,` / `;`, numbers
canonicalised to exact fractions), against the Lean model's token stream; the real readers' results on files
written by this harness's own reference writers (well-formed and malformed) against the model's readers.
Oracle (public level, independent of the model): export_* then import_* for JSON (curve, surface, volume,
containers of 1..4 shapes, trims, delta), smesh, vmesh, txt (1-D, 2-D), csv and the 2-D file helpers of
`compatibility`; the reimported shapes have the same degrees, sizes, normalised knot vectors, control points,
weights and evaluate to the same points; the files use the documented row / column order.

Which format runs in which mode
  exact mode (in process, numbers are qnum.Q):
    smesh, vmesh   the writers print `"{:.18f}".format(Q)` = `Q:n/d`, which the shadowed `float` parses back
    txt, csv, 2-D file helpers   the writers print `str(Q)` = `Q(n/d)`; this module extends the `float` shadow of
                   `geomdl._exchange` / `geomdl.compatibility` so that it parses `Q(n/d)` too
    JSON           `json` prints the double value of a Q (`float.__repr__`), so exact mode uses dyadic inputs
                   (which print and parse exactly)
  float mode (separate interpreter without qnum.install, `python harness/props/c14.py --float`):
    all of the above with non-dyadic doubles (thirds, sevenths, 1e-7 .. 1e6); numbers compared at the printed
    precision (18 decimals for the mesh formats, `repr` = exact for the others).
Files are written below a scratch directory `/tmp/verif-c14-*` which is removed afterwards.
"""
import os, sys, re, json, shutil, tempfile, atexit, subprocess, random

_HERE = os.path.dirname(os.path.abspath(__file__))
if os.path.dirname(_HERE) not in sys.path:
    sys.path.insert(0, os.path.dirname(_HERE))
from fractions import Fraction as F
from core import Case, q, fr, show_list, show_pts, show_pts2
import core

PID = 'C14'
STATS = {}


def _optional():
    miss = []
    for mod, what in (('ruamel.yaml', 'YAML (export_yaml / import_yaml)'), ('libconf', 'libconfig (export_cfg / import_cfg)'),
                      ('jinja2', 'Jinja2 templates (jinja2=True)')):
        try:
            __import__(mod)
        except Exception:
            miss.append(what)
    return miss


_MISSING = _optional()
PARTIAL = [
    "number printing / parsing (str, repr, '{:.18f}', json, float(str)) is not modelled: numbers are abstract tokens; "
    "its round trip is checked by the float-mode oracle only, at the printed precision",
    "evaluation (now END-TO-END theorems C14.*_same_point(s): export -> import -> evaluate_single through the library's span search, "
    "rational or not, curves / surfaces / volumes, smesh / vmesh / dict form, containers elementwise, every parameter of the closed domain): "
    "hypotheses beyond the readers' guard are a non-empty last span of the domain per direction and stored points of one length PER ELEMENT "
    "(a container may mix BSpline and NURBS shapes; in-file mixed example); json_export_import itself (the identity import(export x) = x in rational form) is TOTAL in the model: "
    "importShapes has no guard and Shapes.Ok only asks for non-zero weights, so it also covers records the real importer would refuse (degree 0, constant knot vector); "
    "it is only meant for / only fed with records exported from valid objects, the *_same_points versions carry well-formedness (EvalOk); "
    "derivatives of the reimported shape are now theorems for curves and surfaces (C14.curve_reimport_derivatives, surface_reimport_derivatives, "
    "smesh_export_import_derivatives, json_export_import_derivatives_curves / _surfaces; `derivatives` = span search + A3.2 / the A3.6 table, both evaluator variants, + A4.2 / A4.4 iff rational): "
    "'up to rational form' means (a) the unit weights of a non-rational shape change no derivative (unit_weights_keep_*_derivatives) and (b) the normalised knot vectors multiply "
    "order k (cell [k][l]) by (last - first)^k (resp. per direction) - the same vectors iff the knot vectors already were [0..1] (*_when_normalised); same hypotheses as for the points (EvalOk, closed domain); "
    "volumes have no derivative routine in the library; the oracle checks orders 0..2 on curves and surfaces (float mode: not at knots, where the span may flip); "
    "not covered: evaluation of freeform trims, the txt / csv formats (they carry control points only)",
    "2-D file helpers of compatibility: the repaired flip / weight / unweight helpers and the pinned flip's IndexError are now theorems for "
    "every rectangular file (C14.flip2d_repaired_all_sizes, weight2d_repaired_all_sizes, flip2d_pinned_refutes_all_nonsquare); the broken "
    "line structure the pinned SAVER produces without a flip (weight2dFilePinned) is now a theorem for every rectangular file as well "
    "(C14.weight2d_pinned_line_structure_all_sizes: all points in order, lines of size_u, size_v x (size_u - 1), size_v - size_u points resp. one single line when size_u > size_v; "
    "weight2d_pinned_refutes_all_nonsquare); only generate_ctrlptsw2d_file has a pinned model function (generate_ctrlpts2d_weights_file uses the same saver)",
    "directory import: the theorems cover the files in enumeration order; `sorted(os.listdir())` is lexicographic, so a "
    "container of 10 or more shapes comes back as 1,10,11,2,... (the property quantifies over 1..4 shapes)",
    "the per-point length validation of the readers (`validate_and_clean`) is not in the model's reader guard",
] + ["skipped, package not importable in this environment: " + m + " (the dict layer they share with JSON is covered)" for m in _MISSING]
ASSUMPTIONS = ["weights are non-zero", "mesh formats: 3-dimensional shapes (the readers reject any other dimension)",
               "JSON in exact mode is driven with dyadic rationals (non-dyadic values run in the float pass)"]
TRUSTED = ["Python float repr/str/format and float(str), the json module, the file system",
           "harness/props/c14.py extends the exact-mode `float` shadow of geomdl._exchange / geomdl.compatibility to parse `Q(n/d)`"]

# ------------------------------------------------------------------------------------------ scratch files
_ROOT = [None]


def _root():
    if _ROOT[0] is None:
        _ROOT[0] = tempfile.mkdtemp(prefix='verif-c14-')
        atexit.register(shutil.rmtree, _ROOT[0], True)
    return _ROOT[0]


class scratch(object):
    def __enter__(self):
        self.d = tempfile.mkdtemp(dir=_root())
        return self.d

    def __exit__(self, *a):
        shutil.rmtree(self.d, True)


# ------------------------------------------------------------------------------------------ numbers as text
def canon(tok):
    """canonical text of one token of a real file"""
    t = tok.strip()
    if t.startswith('Q:'):
        return fr(F(t[2:]))
    if t.startswith('Q(') and t.endswith(')'):
        return fr(F(t[2:-1]))
    try:
        return fr(F(t))
    except (ValueError, ZeroDivisionError):
        return t


def qtok(x):
    """a number as this harness writes it into a file that the exact-mode readers parse"""
    return 'Q:%s' % F(x)


_SHADOW = [False]


def _shadow():
    """exact mode only: let the readers parse what `str(Q)` prints"""
    if _SHADOW[0]:
        return
    import qnum
    from geomdl import _exchange, compatibility
    if getattr(_exchange, 'float', float) is not qnum.qfloat:
        return   # float mode: nothing to do

    class qfloat14(qnum.qfloat):
        def __new__(cls, x=0.0):
            if isinstance(x, str):
                s = x.strip()
                if s.startswith('Q(') and s.endswith(')'):
                    return qnum.Q(F(s[2:-1]))
            return qnum.qfloat.__new__(cls, x)
    _exchange.float = qfloat14
    compatibility.float = qfloat14
    _SHADOW[0] = True


# ------------------------------------------------------------------------------------------ generators
def _coord(rng, dyadic):
    if dyadic:
        return F(rng.randint(-24, 24), rng.choice([1, 2, 4, 8]))
    return F(rng.randint(-24, 24), rng.choice([1, 2, 3, 4, 7]))


def _weight(rng, dyadic, unit_share=.25):
    if rng.random() < unit_share:
        return F(1)
    if dyadic:
        return F(rng.randint(1, 12), rng.choice([1, 2, 4, 8]))
    return F(rng.randint(1, 12), rng.choice([1, 2, 3, 5]))


def _kv(rng, p, n, dyadic, raw):
    m = n - p - 1
    den = rng.choice([8, 16]) if dyadic else rng.choice([7, 9, 10, 12])
    pool = list(range(1, den))
    rng.shuffle(pool)
    out = []
    while len(out) < m:                      # interior multiplicities 1..p (the shape stays continuous)
        v = pool.pop()
        out += [v] * min(rng.randint(1, p), m - len(out))
    out = sorted(out)
    kv = [F(0)] * (p + 1) + [F(v, den) for v in out] + [F(1)] * (p + 1)
    if raw:
        a = F(rng.randint(-3, 3)); b = F(rng.choice([2, 4, F(1, 2), 3] if dyadic else [2, 3, F(7, 3), 5]))
        if dyadic and b == 3:
            b = F(4)
        kv = [a + b * x for x in kv]
    return kv


def _distinct(rng, k, lo, hi):
    return rng.sample(range(lo, hi + 1), k)


def gen_shape(rng, kind, dyadic=False, dim=None, allow_raw=True, small=False):
    """a curve / surface / volume as exact data; per-direction degrees and sizes pairwise different"""
    pd = dict(curve=1, surface=2, volume=3)[kind]
    degs = _distinct(rng, pd, 1, 3)
    sizes = []
    while True:
        sizes = [d + 1 + rng.randint(0, 1 if (small or pd == 3) else 3) for d in degs]
        if len(set(sizes)) == pd:
            break
    if dim is None:
        dim = {1: rng.choice([2, 3]), 2: rng.choice([3, 3, 2]), 3: 3}[pd]
    rat = rng.random() < .65
    raw = allow_raw and rng.random() < .2
    n = 1
    for s in sizes:
        n *= s
    P = [[_coord(rng, dyadic) for _ in range(dim)] for _ in range(n)]
    W = [_weight(rng, dyadic) for _ in range(n)] if rat else None
    net = [[c * w for c in pt] + [w] for pt, w in zip(P, W)] if rat else P
    kvs = [_kv(rng, p, s, dyadic, raw) for p, s in zip(degs, sizes)]
    dl = [F(rng.choice([1, 3, 5]), rng.choice([16, 32, 64])) for _ in range(pd)]
    G = STATS.setdefault('shapes', {})
    key = '%s rat=%d raw_kv=%d' % (kind, rat, raw)
    G[key] = G.get(key, 0) + 1
    return dict(kind=kind, rat=rat, deg=degs, size=sizes, kv=kvs, net=net, delta=dl, rev=None, trims=[], raw=raw, dim=dim)


def gen_trim(rng, dyadic):
    r = rng.random()
    rev = rng.choice([None, True, False])
    if r < .45:
        c = gen_shape(rng, 'curve', dyadic, dim=2, small=True); c['rev'] = rev
        return dict(t='spline', c=c)
    if r < .75:
        pts = [[_coord(rng, dyadic) for _ in range(2)] for _ in range(rng.randint(3, 6))]
        return dict(t='freeform', pts=pts, name='ff%d' % rng.randint(0, 99), rev=rev)
    items = []
    for _ in range(rng.randint(1, 3)):
        c = gen_shape(rng, 'curve', dyadic, dim=2, small=True); c['rev'] = rng.choice([None, True, False])
        items.append(c)
    return dict(t='container', items=items, rev=rev)


def hom(spec):
    return spec['net'] if spec['rat'] else [list(pt) + [F(1)] for pt in spec['net']]


def normkv(kv):
    a, b = kv[0], kv[-1]
    return [(x - a) / (b - a) for x in kv]


# ------------------------------------------------------------------------------------------ building real objects
def build(spec, num):
    from geomdl import BSpline, NURBS
    mod = NURBS if spec['rat'] else BSpline
    kw = dict(normalize_kv=False) if spec.get('raw') else {}
    k = spec['kind']
    net = [[num(c) for c in pt] for pt in spec['net']]
    kvs = [[num(x) for x in kv] for kv in spec['kv']]
    d = spec['deg']; s = spec['size']
    if k == 'curve':
        o = mod.Curve(**kw); o.degree = d[0]; o.set_ctrlpts(net); o.knotvector = kvs[0]
        o.delta = num(spec['delta'][0])
    elif k == 'surface':
        o = mod.Surface(**kw); o.degree_u, o.degree_v = d; o.set_ctrlpts(net, s[0], s[1])
        o.knotvector_u, o.knotvector_v = kvs
        o.delta = tuple(num(x) for x in spec['delta'])
    else:
        o = mod.Volume(**kw); o.degree_u, o.degree_v, o.degree_w = d; o.set_ctrlpts(net, s[0], s[1], s[2])
        o.knotvector_u, o.knotvector_v, o.knotvector_w = kvs
        o.delta = tuple(num(x) for x in spec['delta'])
    if spec.get('rev') is not None:
        o.opt = ['reversed', spec['rev']]
    if spec.get('trims'):
        o.trims = [build_trim(t, num) for t in spec['trims']]
    return o


def build_trim(t, num):
    from geomdl import freeform, multi
    if t['t'] == 'spline':
        return build(t['c'], num)
    if t['t'] == 'freeform':
        f = freeform.Freeform(); f.evaluate(points=[[num(c) for c in p] for p in t['pts']]); f.name = t['name']
        if t['rev'] is not None:
            f.opt = ['reversed', t['rev']]
        return f
    cc = multi.CurveContainer()
    for c in t['items']:
        cc.add(build(c, num))
    if t['rev'] is not None:
        cc.opt = ['reversed', t['rev']]
    return cc


def container(specs, num):
    from geomdl import multi
    objs = [build(s, num) for s in specs]
    if len(objs) == 1 and not specs[0].get('force_container'):
        return objs[0]
    c = {'curve': multi.CurveContainer, 'surface': multi.SurfaceContainer, 'volume': multi.VolumeContainer}[specs[0]['kind']]()
    for o in objs:
        c.add(o)
    return c


# ------------------------------------------------------------------------------------------ text of shapes (driver syntax)
def _b(x):
    return '1' if x else '0'


def _rev(r):
    return 'n' if r is None else ('t' if r else 'f')


def crv_tok(rat, p, kv, net, delta, rev):
    return 'c:%s:%d:%s:%s:%s:%s' % (_b(rat), p, show_list(kv), show_pts(net), fr(delta), _rev(rev))


def spec_toks(s):
    k = s['kind']
    if k == 'curve':
        return [crv_tok(s['rat'], s['deg'][0], s['kv'][0], s['net'], s['delta'][0], s['rev'])]
    if k == 'surface':
        out = ['s:%s:%d:%d:%d:%d:%s:%s:%s:%s:%s:%s:%d' % (_b(s['rat']), s['deg'][0], s['deg'][1], s['size'][0], s['size'][1],
               show_list(s['kv'][0]), show_list(s['kv'][1]), show_pts(s['net']), fr(s['delta'][0]), fr(s['delta'][1]),
               _rev(s['rev']), len(s['trims']))]
        for t in s['trims']:
            if t['t'] == 'spline':
                out += spec_toks(t['c'])
            elif t['t'] == 'freeform':
                out.append('f:%s:%s:%s' % (show_pts(t['pts']), t['name'], _rev(t['rev'])))
            else:
                out.append('k:%d:%s' % (len(t['items']), _rev(t['rev'])))
                for c in t['items']:
                    out += spec_toks(c)
        return out
    return ['v:%s:%d:%d:%d:%d:%d:%d:%s:%s:%s:%s:%s:%s:%s' % ((_b(s['rat']),) + tuple(s['deg']) + tuple(s['size']) +
            (show_list(s['kv'][0]), show_list(s['kv'][1]), show_list(s['kv'][2]), show_pts(s['net']),
             fr(s['delta'][0]), fr(s['delta'][1]), fr(s['delta'][2])))]


def stored(o):
    return o.ctrlptsw if o.rational else o.ctrlpts


def obj_toks(o):
    """the same syntax, from a real object"""
    pd = o.pdimension
    if pd == 1:
        return [crv_tok(o.rational, o.degree, o.knotvector, stored(o), o.delta, o.opt_get('reversed'))]
    if pd == 2:
        out = ['s:%s:%d:%d:%d:%d:%s:%s:%s:%s:%s:%s:%d' % (_b(o.rational), o.degree_u, o.degree_v, o.ctrlpts_size_u, o.ctrlpts_size_v,
               show_list(o.knotvector_u), show_list(o.knotvector_v), show_pts(stored(o)), fr(o.delta[0]), fr(o.delta[1]),
               _rev(o.opt_get('reversed')), len(o.trims))]
        for t in o.trims:
            if t.type == 'spline':
                out += obj_toks(t)
            elif t.type == 'freeform':
                out.append('f:%s:%s:%s' % (show_pts(t.evalpts), t.name, _rev(t.opt_get('reversed'))))
            else:
                out.append('k:%d:%s' % (len(t), _rev(t.opt_get('reversed'))))
                for c in t:
                    out += obj_toks(c)
        return out
    return ['v:%s:%d:%d:%d:%d:%d:%d:%s:%s:%s:%s:%s:%s:%s' % (_b(o.rational), o.degree_u, o.degree_v, o.degree_w,
            o.ctrlpts_size_u, o.ctrlpts_size_v, o.ctrlpts_size_w, show_list(o.knotvector_u), show_list(o.knotvector_v),
            show_list(o.knotvector_w), show_pts(stored(o)), fr(o.delta[0]), fr(o.delta[1]), fr(o.delta[2]))]


# ------------------------------------------------------------------------------------------ reference writers (reader ops)
def ref_mesh(spec):
    """lines of tokens (ints / Fractions) of the smesh / vmesh file of a shape, written from the documentation:
    dimension; degrees; sizes; one knot vector per line; points in u-row order (u fastest, then v, then w) as (x,y,z,w); 1"""
    H = hom(spec)
    s = spec['size'] + [1] * (3 - len(spec['size']))
    su, sv, sw = s
    lines = [[len(H[0]) - 1], list(spec['deg']), list(spec['size'])] + [list(kv) for kv in spec['kv']]
    for w in range(sw):
        for v in range(sv):
            for u in range(su):
                pt = H[v + u * sv + w * su * sv]
                lines.append([c / pt[-1] for c in pt[:-1]] + [pt[-1]])
    lines.append([1])
    return lines


def lines_text(lines, sep=' ', trailing=True):
    out = []
    for l in lines:
        out.append(sep.join(str(t) if isinstance(t, int) and not isinstance(t, bool) else qtok(t) for t in l))
    return "\n".join(out) + ("\n" if trailing else "")


def lines_canon(lines):
    return ";".join(",".join(fr(t) for t in l) for l in lines)


def file_canon(path):
    """token stream of a real file: lines `;`, tokens `,`"""
    out = []
    for line in open(path).read().splitlines():
        toks = [t for t in re.split(r'[\s,;]+', line.strip()) if t != '']
        out.append(",".join(canon(t) for t in toks))
    return ";".join(out)


def file2_canon(path):
    """2-D control point file: lines `|`, points `;`, coordinates `,`"""
    out = []
    for line in open(path).read().splitlines():
        out.append(";".join(",".join(canon(c) for c in pt.split(",")) for pt in line.strip().split(";")))
    return "|".join(out)


def file2_text(rows):
    return "".join(";".join(",".join(qtok(c) for c in pt) for pt in row) + "\n" for row in rows)


def rows_canon(rows):
    return "|".join(";".join(",".join(fr(c) for c in pt) for pt in row) for row in rows)


def json_canon(text):
    """the JSON file in document order: keys and strings bare, numbers as exact fractions"""
    def walk(v):
        if isinstance(v, list) and v and isinstance(v[0], tuple) and len(v[0]) == 2 and isinstance(v[0][0], _Key):
            return "{" + ",".join("%s:%s" % (k, walk(x)) for k, x in v) + "}"
        if isinstance(v, list):
            return "[" + ",".join(walk(x) for x in v) + "]"
        if v is True:
            return "true"
        if v is False:
            return "false"
        if isinstance(v, (int, F)):
            return fr(F(v))
        return str(v)

    class _Key(str):
        pass
    data = json.loads(text, object_pairs_hook=lambda prs: [(_Key(k), v) for k, v in prs], parse_float=lambda s: F(s), parse_int=int)
    return walk(data)


# ------------------------------------------------------------------------------------------ cases
def _mesh_line(op, s):
    return "%s %s %s %s %s %s" % (op, _b(s['rat']), " ".join(str(d) for d in s['deg']), " ".join(str(d) for d in s['size']),
                                 " ".join(show_list(kv) for kv in s['kv']), show_pts(s['net']))


def _malform(rng, lines, nhead):
    """a malformed mesh file (and how)"""
    L = [list(l) for l in lines]
    r = rng.random()
    if r < .25:
        L[0] = [2]; return L, 'dimension 2', True
    if r < .5:
        return L[:-2], 'truncated', False        # last point and the trailer missing, no final newline
    if r < .75:
        L[3] = L[3] + [L[3][-1]]; return L, 'knot vector too long', True
    L[3][0] = L[3][-1] + 1
    return L, 'knot vector decreasing', True


def gen(rng, tier):
    mul = 1 if tier == 'quick' else 12
    out = []
    # --- mesh formats
    for kind, op, n in (('surface', 'smesh', 28), ('volume', 'vmesh', 24)):
        for _ in range(n * mul):
            s = gen_shape(rng, kind, dim=3)
            out.append(Case(op + '-w', _mesh_line(op + '-w', s), dict(spec=s)))
            s2 = gen_shape(rng, kind, dim=3)
            lines = ref_mesh(s2)
            out.append(Case(op + '-r', "%s-r %s" % (op, lines_canon(lines)), dict(lines=lines, spec=s2, trailing=True)))
        for _ in range(6 * mul):
            s2 = gen_shape(rng, kind, dim=3)
            lines, how, trailing = _malform(rng, ref_mesh(s2), 5 if kind == 'surface' else 6)
            out.append(Case(op + '-r', "%s-r %s" % (op, lines_canon(lines)), dict(lines=lines, trailing=trailing, how=how), tags=('malformed',)))
    # containers: per-file enumeration
    for n in (1, 2, 3, 4):
        for kind, op in (('surface', 'smesh'), ('volume', 'vmesh')):
            specs = [gen_shape(rng, kind, dim=3, small=True) for _ in range(n)]
            out.append(Case('enum-' + op, "enum %d" % n, dict(specs=specs, op=op)))
    # --- txt / csv
    for _ in range(16 * mul):
        s = gen_shape(rng, rng.choice(['curve', 'surface', 'surface', 'volume']))
        out.append(Case('txt-w', "txt-w %s" % show_pts(s['net']), dict(spec=s)))
        s = gen_shape(rng, rng.choice(['curve', 'surface']))
        out.append(Case('csv-w', "csv-w %s" % show_pts(s['net']), dict(spec=s)))
        s = gen_shape(rng, 'surface')
        out.append(Case('txt2-w', "txt2-w %d %d %s" % (s['size'][0], s['size'][1], show_pts(s['net'])), dict(spec=s)))
        # readers on files written by the harness
        P = hom(gen_shape(rng, 'curve'))
        bad = rng.random() < .15
        lines = [list(p) for p in P]
        if bad:
            lines[rng.randrange(len(lines))][0] = 'x'
        out.append(Case('txt-r', "txt-r %s" % ";".join(",".join(t if isinstance(t, str) else fr(t) for t in l) for l in lines),
                        dict(lines=lines), tags=('malformed',) if bad else ()))
        out.append(Case('csv-r', "csv-r %s" % ";".join(["dim,1,dim,2"] + [",".join(t if isinstance(t, str) else fr(t) for t in l) for l in lines]),
                        dict(lines=lines), tags=('malformed',) if bad else ()))
        s = gen_shape(rng, 'surface')
        su, sv = s['size']
        rows = [[s['net'][j + sv * i] for j in range(sv)] for i in range(su)]
        out.append(Case('txt2-r', "txt2-r %s" % rows_canon(rows), dict(rows=rows)))
    # --- 2-D file helpers of compatibility (non-square and square)
    for _ in range(14 * mul):
        su, sv = rng.choice([(2, 3), (3, 2), (2, 4), (4, 3), (3, 3), (2, 2), (1, 3), (3, 1)])
        rows = [[[_coord(rng, False) for _ in range(3)] + [_weight(rng, False)] for _ in range(sv)] for _ in range(su)]
        for op in ('flip2d', 'w2d', 'uw2d'):
            out.append(Case(op, "%s-file %s" % (op, rows_canon(rows)), dict(rows=rows, su=su, sv=sv)))
    # --- JSON (exact mode: dyadic numbers)
    for _ in range(36 * mul):
        kind = rng.choice(['curve', 'surface', 'surface', 'volume'])
        n = rng.choice([1, 1, 2, 3, 4])
        specs = [gen_shape(rng, kind, dyadic=True, small=(n > 1)) for _ in range(n)]
        if len({s['dim'] for s in specs}) > 1:      # a container holds one spatial dimension
            for s in specs[1:]:
                s.update(gen_shape(rng, kind, dyadic=True, small=True, dim=specs[0]['dim']))
        if n == 1 and rng.random() < .3:
            specs[0]['force_container'] = True
        if kind == 'surface':
            for s in specs:
                s['rev'] = rng.choice([None, None, True, False])
                if rng.random() < .6:
                    s['trims'] = [gen_trim(rng, True) for _ in range(rng.randint(1, 3))]
        elif kind == 'curve':
            for s in specs:
                s['rev'] = rng.choice([None, None, True, False])
        ov = rng.choice([None, None, F(1, 8), F(3, 32), F(2), F(0)])
        toks = " ".join(t for s in specs for t in spec_toks(s))
        out.append(Case('json-w', "json-w %s - %s" % (kind, toks), dict(specs=specs, ov=None)))
        out.append(Case('json-rt', "json-rt %s %s %s" % (kind, '-' if ov is None else fr(ov), toks), dict(specs=specs, ov=ov)))
    # --- float-mode companion (one subprocess)
    out.append(Case('float-pass', '', dict(seed=rng.randint(0, 10 ** 9), tier=tier, what=(
        "float-mode companion: a separate interpreter without the exact-number shadows runs export -> import for smesh, vmesh, "
        "txt (1-D, 2-D), csv, the 2-D file helpers and JSON (containers of 1..4, trims, delta keyword) with non-dyadic doubles "
        "scaled by 1, 1e6 and 1e-7 and compares degrees, sizes, knot vectors, control points, weights and evaluated points at "
        "the printed precision; replaying this case re-runs that interpreter with the recorded seed"))))
    return out


# ------------------------------------------------------------------------------------------ implementation side
def _mesh_fns(op):
    from geomdl import exchange
    return (exchange.export_smesh, exchange.import_smesh) if op.startswith('smesh') else (exchange.export_vmesh, exchange.import_vmesh)


def _surf_text(o):
    return "%s %d %d %d %d %s %s %s" % (_b(o.rational), o.degree_u, o.degree_v, o.ctrlpts_size_u, o.ctrlpts_size_v,
                                        show_list(o.knotvector_u), show_list(o.knotvector_v), show_pts(stored(o)))


def _vol_text(o):
    return "%s %d %d %d %d %d %d %s %s %s %s" % (_b(o.rational), o.degree_u, o.degree_v, o.degree_w, o.ctrlpts_size_u, o.ctrlpts_size_v,
                                                 o.ctrlpts_size_w, show_list(o.knotvector_u), show_list(o.knotvector_v),
                                                 show_list(o.knotvector_w), show_pts(stored(o)))


def _ptline(l):
    return ",".join(t if isinstance(t, str) else qtok(t) for t in l)


def impl(c):
    from geomdl import exchange, compatibility
    _shadow()
    d = c.data
    k = c.kind
    with scratch() as tmp:
        if k in ('smesh-w', 'vmesh-w'):
            exp, _ = _mesh_fns(k)
            fn = os.path.join(tmp, 'a.dat')
            exp(build(d['spec'], q), fn)
            return file_canon(fn)
        if k in ('smesh-r', 'vmesh-r'):
            _, imp = _mesh_fns(k)
            fn = os.path.join(tmp, 'a.dat')
            open(fn, 'w').write(lines_text(d['lines'], trailing=d.get('trailing', True)))
            o = imp(fn)[0]
            return _surf_text(o) if k == 'smesh-r' else _vol_text(o)
        if k.startswith('enum-'):
            exp, _ = _mesh_fns(d['op'])
            exp(container(d['specs'], q), os.path.join(tmp, 'part.dat'))
            names = sorted(os.listdir(tmp))
            return ",".join('-' if n == 'part.dat' else n[len('part.'):-len('.dat')] for n in names)
        if k == 'txt-w':
            fn = os.path.join(tmp, 'a.txt'); exchange.export_txt(build(d['spec'], q), fn)
            return file_canon(fn)
        if k == 'csv-w':
            fn = os.path.join(tmp, 'a.csv'); exchange.export_csv(build(d['spec'], q), fn, point_type='ctrlpts')
            return file_canon(fn)
        if k == 'txt2-w':
            fn = os.path.join(tmp, 'a.txt'); exchange.export_txt(build(d['spec'], q), fn, two_dimensional=True)
            return file2_canon(fn)
        if k == 'txt-r':
            fn = os.path.join(tmp, 'a.txt'); open(fn, 'w').write("".join(_ptline(l) + "\n" for l in d['lines']))
            return show_pts(exchange.import_txt(fn))
        if k == 'csv-r':
            fn = os.path.join(tmp, 'a.csv'); open(fn, 'w').write("dim 1, dim 2\n" + "".join(_ptline(l) + "\n" for l in d['lines']))
            return show_pts(exchange.import_csv(fn))
        if k == 'txt2-r':
            fn = os.path.join(tmp, 'a.txt'); open(fn, 'w').write(file2_text(d['rows']))
            P, su, sv = exchange.import_txt(fn, two_dimensional=True)
            return "%s %d %d" % (show_pts(P), su, sv)
        if k in ('flip2d', 'w2d', 'uw2d'):
            f = dict(flip2d=compatibility.flip_ctrlpts2d_file, w2d=compatibility.generate_ctrlptsw2d_file,
                     uw2d=compatibility.generate_ctrlpts2d_weights_file)[k]
            fi = os.path.join(tmp, 'in.txt'); fo = os.path.join(tmp, 'out.txt')
            open(fi, 'w').write(file2_text(d['rows']))
            f(file_in=fi, file_out=fo)
            return file2_canon(fo)
        if k == 'json-w':
            fn = os.path.join(tmp, 'a.json'); exchange.export_json(container(d['specs'], q), fn)
            return json_canon(open(fn).read())
        if k == 'json-rt':
            fn = os.path.join(tmp, 'a.json'); exchange.export_json(container(d['specs'], q), fn)
            kw = {} if d['ov'] is None else dict(delta=q(d['ov']))
            objs = exchange.import_json(fn, **kw)
            return " ".join(t for o in objs for t in obj_toks(o))
    raise ValueError(k)


# ------------------------------------------------------------------------------------------ oracle
def _params(spec, rng):
    """parameter tuples in the domain of the original shape: ends, knots, interior"""
    axes = []
    for p, kv in zip(spec['deg'], spec['kv']):
        lo, hi = kv[p], kv[-(p + 1)]
        cand = sorted(set([lo, hi] + [x for x in kv if lo <= x <= hi] + [lo + (hi - lo) * F(rng.randint(1, 31), 32) for _ in range(2)]))
        axes.append((cand, lo, hi))
    out = []
    for _ in range(6):
        out.append([rng.choice(a[0]) for a in axes])
    out.append([a[1] for a in axes]); out.append([a[2] for a in axes])
    return out


def _same(a, b, tol):
    if tol is None:
        return a == b
    return abs(float(a) - float(b)) <= tol(a, b)


def _same_list(A, B, tol):
    return len(A) == len(B) and all(_same(a, b, tol) for a, b in zip(A, B))


def _same_pts(A, B, tol):
    return len(A) == len(B) and all(_same_list(a, b, tol) for a, b in zip(A, B))


def compare_shape(spec, obj, num, tol, what, delta=True, ov=None, seed=0):
    """the reimported object against the original data; `tol=None`: exact"""
    pd = len(spec['deg'])
    if not obj.rational:
        return "%s: the reimported shape is not rational" % what
    if obj.pdimension != pd:
        return "%s: parametric dimension %d" % (what, obj.pdimension)
    degs = [obj.degree] if pd == 1 else list(obj.degree)
    if degs != list(spec['deg']):
        return "%s: degrees %s, exported %s" % (what, degs, spec['deg'])
    sizes = [obj.ctrlpts_size] if pd == 1 else [obj.ctrlpts_size_u, obj.ctrlpts_size_v] + ([obj.ctrlpts_size_w] if pd == 3 else [])
    if sizes != list(spec['size']):
        return "%s: sizes %s, exported %s" % (what, sizes, spec['size'])
    H = hom(spec)
    if len(obj.ctrlptsw) != len(H):
        return "%s: %d control points come back, %d were exported" % (what, len(obj.ctrlptsw), len(H))
    kvs = [obj.knotvector] if pd == 1 else list(obj.knotvector)
    for i, (kv, want) in enumerate(zip(kvs, spec['kv'])):
        # float mode: normalising a knot vector given on [a, b] cancels, a few ulps of max(|a|,|b|) remain
        ktol = None if tol is None else (lambda x, y: 1e-14)
        if not _same_list(kv, [num(x) for x in normkv(want)], ktol):
            return "%s: knot vector %d is not the normalised exported one" % (what, i)
    if not _same_pts(obj.ctrlptsw, [[num(c) for c in p] for p in H], tol):
        return "%s: weighted control points differ" % what
    if not _same_list(obj.weights, [num(p[-1]) for p in H], tol):
        return "%s: weights differ" % what
    if delta:
        want = [ov] * pd if (ov is not None and 0 < ov < 1) else spec['delta']
        got = [obj.delta] if pd == 1 else list(obj.delta)
        if not _same_list(got, [num(x) for x in want], tol):
            return "%s: delta %s, expected %s" % (what, [fr(x) for x in got], [fr(x) for x in want])
    # evaluating to the same points
    return eval_same(spec, build(dict(spec, trims=[]), num), obj, num, tol, what, seed=seed)


def eval_same(spec, orig, obj, num, tol, what, seed=0, same_domain=False):
    """`obj` (knots normalised unless same_domain) evaluates to the points of `orig`"""
    pd = len(spec['deg'])
    rng = random.Random(seed)
    scale = max([1.0] + [abs(float(c)) for p in spec['net'] for c in p])   # float mode: coordinates may cancel
    for prm in _params(spec, rng):
        nprm = [(u - kv[0]) / (kv[-1] - kv[0]) for u, kv in zip(prm, spec['kv'])]
        src = prm if spec.get('raw') else nprm
        dst = src if same_domain else nprm
        a = orig.evaluate_single(num(src[0]) if pd == 1 else [num(u) for u in src])
        b = obj.evaluate_single(num(dst[0]) if pd == 1 else [num(u) for u in dst])
        etol = None if tol is None else (lambda x, y: 1e-10 * scale)
        if not _same_list(a, b, etol):
            return "%s: evaluates to a different point at %s" % (what, [fr(u) for u in prm])
        # ... and to the same derivatives (curves, surfaces; orders 0..2): the reimported shape lives on the normalised
        # knot vectors, so order k (cell [k][l]) is the exported one times (last - first)^k (resp. ^k ^l per direction) when
        # the original kept its own knot range, and the very same vector otherwise (C14.*_reimport_derivatives)
        # (float mode: not at a knot - after the normalisation the parameter may fall into the neighbouring span, and
        # derivatives of order > p - multiplicity jump there; exact mode: every parameter)
        if pd <= 2 and (tol is None or not any(u in kv for u, kv in zip(prm, spec['kv']))):
            fac = [(kv[-1] - kv[0]) if (spec.get('raw') and not same_domain) else F(1) for kv in spec['kv']]
            dtol = None if tol is None else (lambda x, y: 1e-9 * max(scale, abs(float(x)), abs(float(y))))
            if pd == 1:
                da = orig.derivatives(num(src[0]), order=2)
                db = obj.derivatives(num(dst[0]), order=2)
                want = [[c * num(fac[0] ** k) for c in v] for k, v in enumerate(da)]
                if len(db) != len(want) or not all(_same_list(x, y, dtol) for x, y in zip(want, db)):
                    return "%s: derivatives at %s are not the exported ones (times (last - first)^k)" % (what, [fr(u) for u in prm])
            else:
                da = orig.derivatives(num(src[0]), num(src[1]), order=2)
                db = obj.derivatives(num(dst[0]), num(dst[1]), order=2)
                for k in range(3):
                    for l in range(3):
                        want = [c * num(fac[0] ** k * fac[1] ** l) for c in da[k][l]]
                        if not _same_list(want, db[k][l], dtol):
                            return "%s: mixed derivative [%d][%d] at %s is not the exported one (times the knot-range factors)" % (
                                what, k, l, [fr(u) for u in prm])
    return None


def compare_trims(spec, obj, num, tol, what):
    if len(obj.trims) != len(spec['trims']):
        return "%s: %d trims come back, %d were exported" % (what, len(obj.trims), len(spec['trims']))
    for i, (t, o) in enumerate(zip(spec['trims'], obj.trims)):
        w = "%s trim %d" % (what, i)
        kind = {'spline': 'spline', 'freeform': 'freeform', 'container': 'container'}[t['t']]
        if o.type != kind:
            return "%s: type %s, exported %s" % (w, o.type, kind)
        if t['t'] == 'spline':
            r = compare_shape(t['c'], o, num, tol, w)
            if r:
                return r
            if o.opt_get('reversed') != t['c']['rev']:
                return "%s: sense flag %s, exported %s" % (w, o.opt_get('reversed'), t['c']['rev'])
        elif t['t'] == 'freeform':
            if not _same_pts(o.evalpts, [[num(c) for c in p] for p in t['pts']], tol) or o.name != t['name']:
                return "%s: freeform points / name differ" % w
            if o.opt_get('reversed') != t['rev']:
                return "%s: sense flag differs" % w
        else:
            if len(o) != len(t['items']):
                return "%s: container of %d curves, exported %d" % (w, len(o), len(t['items']))
            for j, (cs, co) in enumerate(zip(t['items'], o)):
                r = compare_shape(cs, co, num, tol, "%s curve %d" % (w, j))
                if r:
                    return r
                if co.opt_get('reversed') != cs['rev']:
                    return "%s curve %d: sense flag differs" % (w, j)
            if o.opt_get('reversed') != t['rev']:
                return "%s: sense flag differs" % w
    return None


def check_mesh_order(path, spec, num, tol):
    """documented layout: header lines, then the points in u-row order as (x, y, z, w)"""
    lines = [l.split() for l in open(path).read().splitlines()]
    pd = len(spec['deg'])
    H = hom(spec)
    s = spec['size'] + [1] * (3 - pd)
    if [int(x) for x in lines[1]] != spec['deg'] or [int(x) for x in lines[2]] != spec['size'] or int(lines[0][0]) != 3:
        return "mesh header: dimension / degrees / sizes lines are wrong"
    for i in range(pd):
        if not _same_list([F(canon(t)) for t in lines[3 + i]], spec['kv'][i], tol):
            return "mesh header: knot vector line %d differs" % i
    base = 3 + pd
    if len(lines) != base + len(H) + 1 or lines[-1] != ['1']:
        return "mesh file has %d lines, expected %d" % (len(lines), base + len(H) + 1)
    for w in range(s[2]):
        for v in range(s[1]):
            for u in range(s[0]):
                pt = H[v + u * s[1] + w * s[0] * s[1]]
                want = [c / pt[-1] for c in pt[:-1]] + [pt[-1]]
                got = [F(canon(t)) for t in lines[base + u + v * s[0] + w * s[0] * s[1]]]
                if not _same_list(got, want, tol):
                    return "mesh file: line of point (u=%d,v=%d,w=%d) is not (x,y,z,w) of that point (u-row order)" % (u, v, w)
    return None


def _parse2(path):
    try:
        return [[[F(canon(t)) for t in pt.split(',')] for pt in l.split(';')] for l in open(path).read().splitlines()]
    except (ValueError, ZeroDivisionError):
        return None


def oracle_case(c, num, tol):
    """public-level round trips; `num`/`tol` select exact (q, None) or float mode"""
    from geomdl import exchange, compatibility
    d = c.data
    k = c.kind
    with scratch() as tmp:
        if k in ('smesh-w', 'vmesh-w'):
            exp, imp = _mesh_fns(k)
            s = d['spec']
            fn = os.path.join(tmp, 'a.dat')
            exp(build(s, num), fn)
            r = check_mesh_order(fn, s, num, tol)
            if r:
                return r
            objs = imp(fn)
            if len(objs) != 1:
                return "%d shapes come back from one file" % len(objs)
            return compare_shape(s, objs[0], num, tol, k[:5] + " export/import", delta=False)
        if k.startswith('enum-'):
            exp, imp = _mesh_fns(d['op'])
            specs = d['specs']
            exp(container(specs, num), os.path.join(tmp, 'part.dat'))
            names = sorted(os.listdir(tmp))
            want = ['part.dat'] if len(specs) == 1 else ['part.%d.dat' % (i + 1) for i in range(len(specs))]
            if names != want:
                return "container of %d: files %s, expected %s" % (len(specs), names, want)
            objs = imp(tmp)
            if len(objs) != len(specs):
                return "container of %d: %d shapes come back" % (len(specs), len(objs))
            for i, (s, o) in enumerate(zip(specs, objs)):
                r = compare_shape(s, o, num, tol, "%s container element %d" % (d['op'], i), delta=False)
                if r:
                    return r
            return None
        if k in ('txt-w', 'csv-w', 'txt2-w'):
            s = d['spec']
            o = build(s, num)
            want = [[num(x) for x in p] for p in s['net']]
            if k == 'txt-w':
                fn = os.path.join(tmp, 'a.txt'); exchange.export_txt(o, fn, two_dimensional=(s['kind'] == 'curve'))
                got = exchange.import_txt(fn)
                nl = len(open(fn).read().splitlines())
                if nl != len(want):
                    return "txt: %d lines for %d control points" % (nl, len(want))
            elif k == 'csv-w':
                fn = os.path.join(tmp, 'a.csv'); exchange.export_csv(o, fn, point_type='ctrlpts')
                got = exchange.import_csv(fn)
                head = open(fn).read().splitlines()[0]
                if head != ", ".join("dim %d" % (i + 1) for i in range(len(want[0]))):
                    return "csv header is %r" % head
                # the evaluated points through the same writer (point_type='evalpts'): one line per sampled point, in order
                fe = os.path.join(tmp, 'e.csv'); exchange.export_csv(o, fe, point_type='evalpts')
                gote = exchange.import_csv(fe)
                if not _same_pts(gote, [list(p) for p in o.evalpts], tol):
                    return "csv (evalpts): the points read back differ from the object's evaluated points"
            else:
                fn = os.path.join(tmp, 'a.txt'); exchange.export_txt(o, fn, two_dimensional=True)
                got, su, sv = exchange.import_txt(fn, two_dimensional=True)
                if [su, sv] != s['size']:
                    return "txt 2-D: sizes %s come back, exported %s" % ([su, sv], s['size'])
                rows = open(fn).read().splitlines()
                if len(rows) != s['size'][0] or any(len(r.split(';')) != s['size'][1] for r in rows):
                    return "txt 2-D: the file does not have size_u lines of size_v points"
                for i, r in enumerate(rows):
                    for j, pt in enumerate(r.split(';')):
                        if not _same_list([F(canon(t)) for t in pt.split(',')], s['net'][j + s['size'][1] * i], tol):
                            return "txt 2-D: entry (line %d, column %d) is not control point (u=%d, v=%d)" % (i, j, i, j)
            if not _same_pts(got, want, tol):
                return "%s: control points read back differ from the stored ones" % k[:-2]
            # the documented delimiter options: a file written with custom delimiters uses them and reads back
            if k in ('txt-w', 'txt2-w'):
                two = (k == 'txt2-w') or s['kind'] == 'curve'
                fn2 = os.path.join(tmp, 'b.txt')
                exchange.export_txt(o, fn2, two_dimensional=two, separator='|', col_separator='@')
                txt2 = open(fn2).read()
                if ',' in txt2 or ';' in txt2:
                    return "txt: a file written with separator='|', col_separator='@' still contains ',' or ';'"
                back = exchange.import_txt(fn2, two_dimensional=two, separator='|', col_separator='@')
                if two and s['kind'] != 'curve':
                    back, su2, sv2 = back
                    if [su2, sv2] != s['size']:
                        return "txt 2-D with custom delimiters: sizes %s come back, exported %s" % ([su2, sv2], s['size'])
                elif two:
                    back = back[0] if (isinstance(back, tuple) and len(back) == 3) else back
                if not _same_pts(back, want, tol):
                    return "txt with custom delimiters: control points read back differ from the stored ones"
            # the points read back define the same shape
            o2 = build(dict(s, trims=[]), num)
            if s['kind'] == 'curve':
                o2.set_ctrlpts(got)
            else:
                o2.set_ctrlpts(got, *s['size'])
            return eval_same(s, o, o2, num, tol, k[:-2], same_domain=True)
        if k in ('flip2d', 'w2d', 'uw2d'):
            rows, su, sv = d['rows'], d['su'], d['sv']
            fi = os.path.join(tmp, 'in.txt'); fo = os.path.join(tmp, 'out.txt'); fb = os.path.join(tmp, 'back.txt')
            open(fi, 'w').write(file2_text(rows) if tol is None else
                                "".join(";".join(",".join(repr(float(c)) for c in pt) for pt in row) + "\n" for row in rows))
            f, g = dict(flip2d=(compatibility.flip_ctrlpts2d_file,) * 2,
                        w2d=(compatibility.generate_ctrlptsw2d_file, compatibility.generate_ctrlpts2d_weights_file),
                        uw2d=(compatibility.generate_ctrlpts2d_weights_file, compatibility.generate_ctrlptsw2d_file))[k]
            try:
                f(file_in=fi, file_out=fo)
            except Exception as e:
                return "compatibility file helper raises %s on a %dx%d file" % (type(e).__name__, su, sv)
            out = _parse2(fo)
            if out is None:
                return "%dx%d file: the output is not a 2-D control point file (lines of `;`-separated points): %r" % (su, sv, open(fo).read()[:80])
            if k == 'flip2d':
                want = [[rows[u][v] for u in range(su)] for v in range(sv)]
            elif k == 'w2d':
                want = [[[x * p[-1] for x in p[:-1]] + [p[-1]] for p in r] for r in rows]
            else:
                want = [[[x / p[-1] for x in p[:-1]] + [p[-1]] for p in r] for r in rows]
            if [len(r) for r in out] != [len(r) for r in want]:
                return "%dx%d file: the output has lines of %s points, expected %s" % (su, sv, [len(r) for r in out], [len(r) for r in want])
            if not all(_same_pts(a, b, tol) for a, b in zip(out, want)):
                return "%dx%d file: output entries are not in the documented order / form" % (su, sv)
            try:
                g(file_in=fo, file_out=fb)
            except Exception as e:
                return "inverse file helper raises %s on the %dx%d output" % (type(e).__name__, su, sv)
            back = _parse2(fb)
            if back is None or [len(r) for r in back] != [len(r) for r in rows] or not all(_same_pts(a, b, tol) for a, b in zip(back, rows)):
                return "%dx%d file: applying the inverse helper does not restore the file" % (su, sv)
            return None
        if k in ('json-w', 'json-rt'):
            specs, ov = d['specs'], d.get('ov')
            fn = os.path.join(tmp, 'a.json')
            exchange.export_json(container(specs, num), fn)
            # documented content of the file
            J = json.load(open(fn))['shape']
            if J['type'] != specs[0]['kind'] or J['count'] != len(specs) or len(J['data']) != len(specs):
                return "json: shape type / count are wrong"
            for s, rec in zip(specs, J['data']):
                H = hom(s)
                pts = [[float(c / p[-1]) for c in p[:-1]] for p in H] if s['rat'] else [[float(c) for c in p] for p in s['net']]
                ptol = tol or (lambda a, b: 0.0)
                if not _same_pts(rec['control_points']['points'], pts, ptol):
                    return "json: control_points.points are not the unweighted points in the library's order (v fastest)"
                if s['rat'] != ('weights' in rec['control_points']):
                    return "json: weights key present=%s for rational=%s" % ('weights' in rec['control_points'], s['rat'])
            kw = {} if ov is None else dict(delta=num(ov))
            objs = exchange.import_json(fn, **kw)
            if len(objs) != len(specs):
                return "json: %d shapes come back, %d were exported" % (len(objs), len(specs))
            for i, (s, o) in enumerate(zip(specs, objs)):
                w = "json %s %d/%d" % (s['kind'], i + 1, len(specs))
                r = compare_shape(s, o, num, tol, w, ov=ov, seed=i)
                if r:
                    return r
                if s['kind'] != 'volume' and o.opt_get('reversed') != s['rev']:
                    return "%s: sense flag %s, exported %s" % (w, o.opt_get('reversed'), s['rev'])
                if s['kind'] == 'surface':
                    r = compare_trims(s, o, num, tol, w)
                    if r:
                        return r
            return None
    return None


def oracle(c):
    _shadow()
    if c.kind == 'float-pass':
        return run_float_pass(c.data['seed'], c.data['tier'])
    if c.kind.endswith('-r'):
        return None       # reader ops on harness-written files: correspondence only
    return oracle_case(c, q, None)


def classify(c, why):
    if c.kind in ('vmesh-w', 'enum-vmesh') and 'control points come back' in why:
        return 'F-14a'
    if c.kind in ('flip2d', 'w2d', 'uw2d') and c.data['su'] != c.data['sv']:
        return 'F-14b'
    if c.kind == 'float-pass' and 'control points come back' in why and 'vmesh' in why:
        return 'F-14a'
    if c.kind == 'float-pass' and 'file' in why and ('flip2d' in why or 'w2d' in why):
        return 'F-14b'
    return None


def witness(fid):
    _shadow()
    if fid == 'F-14a':
        s = gen_shape(random.Random(1), 'volume', dim=3)
        return oracle_case(Case('vmesh-w', '', dict(spec=s)), q, None)
    if fid == 'F-14b':
        rows = [[[F(u), F(v), F(0), F(1)] for v in range(3)] for u in range(2)]
        return oracle_case(Case('flip2d', '', dict(rows=rows, su=2, sv=3)), q, None)
    return None


# ------------------------------------------------------------------------------------------ float-mode companion
def run_float_pass(seed, tier):
    env = dict(os.environ)
    env['VERIF_REPO'] = core.REPO
    p = subprocess.run([sys.executable, os.path.abspath(__file__), '--float', str(seed), tier], capture_output=True, text=True,
                       env=env, timeout=3000)
    if p.returncode != 0:
        return "float pass crashed: %s" % (p.stderr.strip().splitlines() or ['?'])[-1]
    res = json.loads(p.stdout.strip().splitlines()[-1])
    STATS['float_pass'] = dict(cases=res['cases'], by_kind=res['by_kind'], failures=len(res['fails']), skipped=_MISSING)
    return res['fails'][0] if res['fails'] else None


def _ftol(scale_abs):
    return lambda a, b: scale_abs + 8e-16 * max(abs(float(a)), abs(float(b)))


def float_main(seed, tier):
    import geomdl
    here = os.path.realpath(geomdl.__file__)
    assert here.startswith(os.path.realpath(core.REPO) + os.sep), here
    rng = random.Random(seed)
    fails, kinds = [], {}
    n = 12 if tier == 'quick' else 120
    scale = [F(1), F(1), F(1), F(10 ** 6), F(1, 10 ** 7)]
    cases = []

    def scaled(s):
        f = rng.choice(scale)
        if s['rat']:
            s['net'] = [[c * f for c in p[:-1]] + [p[-1]] for p in s['net']]
        else:
            s['net'] = [[c * f for c in p] for p in s['net']]
        return s, float(f)
    for _ in range(n):
        for kind, op in (('surface', 'smesh-w'), ('volume', 'vmesh-w')):
            s, f = scaled(gen_shape(rng, kind, dim=3))
            # 18 decimals: absolute 1e-18 per printed number, times the weight when multiplied back
            cases.append((Case(op, '', dict(spec=s)), _ftol(4e-18 * 16)))
        s, f = scaled(gen_shape(rng, rng.choice(['curve', 'surface', 'volume'])))
        cases.append((Case('txt-w', '', dict(spec=s)), _ftol(0.0)))
        s, f = scaled(gen_shape(rng, rng.choice(['curve', 'surface'])))
        cases.append((Case('csv-w', '', dict(spec=s)), _ftol(0.0)))
        s, f = scaled(gen_shape(rng, 'surface'))
        cases.append((Case('txt2-w', '', dict(spec=s)), _ftol(0.0)))
        su, sv = rng.choice([(2, 3), (3, 2), (2, 2), (4, 3)])
        rows = [[[_coord(rng, False) for _ in range(3)] + [_weight(rng, False)] for _ in range(sv)] for _ in range(su)]
        for op in ('flip2d', 'w2d'):
            cases.append((Case(op, '', dict(rows=rows, su=su, sv=sv)), _ftol(0.0)))
        kind = rng.choice(['curve', 'surface', 'volume'])
        m = rng.choice([1, 2, 3, 4])
        specs = [gen_shape(rng, kind, dyadic=False, small=(m > 1)) for _ in range(m)]
        for s in specs[1:]:
            s.update(gen_shape(rng, kind, small=True, dim=specs[0]['dim']))
        if kind == 'surface':
            for s in specs:
                if rng.random() < .5:
                    s['trims'] = [gen_trim(rng, False) for _ in range(rng.randint(1, 2))]
        cases.append((Case('json-rt', '', dict(specs=specs, ov=rng.choice([None, F(1, 10)]))), _ftol(0.0)))
    for sp in (1, 2, 3, 4):
        specs = [gen_shape(rng, 'volume', dim=3, small=True) for _ in range(sp)]
        cases.append((Case('enum-vmesh', '', dict(specs=specs, op='vmesh')), _ftol(4e-18 * 16)))
        specs = [gen_shape(rng, 'surface', dim=3, small=True) for _ in range(sp)]
        cases.append((Case('enum-smesh', '', dict(specs=specs, op='smesh')), _ftol(4e-18 * 16)))
    for c, tol in cases:
        kinds[c.kind] = kinds.get(c.kind, 0) + 1
        try:
            r = oracle_case(c, float, tol)
        except Exception as e:
            r = "raised %s: %s" % (type(e).__name__, e)
        if r:
            fails.append("float mode %s: %s" % (c.kind, r))
    print(json.dumps(dict(cases=len(cases), by_kind=kinds, fails=fails[:20])))


if __name__ == '__main__':
    if len(sys.argv) >= 4 and sys.argv[1] == '--float':
        float_main(int(sys.argv[2]), sys.argv[3])
        sys.exit(0)
    sys.exit(2)
