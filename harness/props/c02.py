"""C02  Derivatives returned are the true derivatives of the shape."""
from fractions import Fraction as F
from core import Case, q, qs, fr, show_list, show_pts, show_pts2
import gen as G
import shapes as S
import jets as J

PID = 'C02'
STATS = G.STATS
PARTIAL = [
    "curves, every order: proved (curve_derivatives_are_true_derivatives). The surface case, the list models of A4.2 / A4.4 and the A2.3 table (spec-level model) are covered by correspondence with the model and by the exact jet oracle",
    "unit length of normalised tangents / normals is a floating-point statement (sqrt); checked in the oracle to 1e-12 only",
]


def gen(rng, tier):
    out = []
    n = 150 if tier == 'quick' else 2200
    for _ in range(n):
        if rng.random() < .55:
            d = S.rand_curve(rng, maxp=5, clamped=rng.random() < .9)
            u = S.rand_params(rng, d)[0]
            order = rng.randint(0, d['p'] + 2)
            alt = (not d['rat']) and rng.random() < .45
            G.count('order', order); G.count('evaluator', 'alt' if alt else 'default')
            line = "cders %s %s %d" % (S.args(d), fr(u), order)
            out.append(Case('cders-alt' if alt else 'cders', line, dict(shape=d, u=u, order=order, alt=alt)))
        else:
            d = S.rand_surface(rng, maxp=3, max_interior=2)
            u, v = S.rand_params(rng, d)
            order = rng.randint(0, max(d['pu'], d['pv']) + 2)
            alt = (not d['rat']) and rng.random() < .45
            G.count('order', order); G.count('evaluator', 'surf-alt' if alt else 'surf-default')
            line = "sders %s %d %s %s %s %d" % ('1' if d['rat'] else '0', 1 if alt else 0, S.args(d)[2:], fr(u), fr(v), order)
            out.append(Case('sders-alt' if alt else 'sders', line, dict(shape=d, u=u, v=v, order=order, alt=alt)))
    # hodograph constructors, tangent, normal: oracle only (no model line)
    for _ in range(40 if tier == 'quick' else 500):
        if rng.random() < .5:
            d = S.rand_curve(rng, rational=False, maxp=5)
            if d['p'] < 2:
                continue      # degree-0 shapes cannot be represented by the library
            out.append(Case('hodograph-curve', None, dict(shape=d, u=S.rand_params(rng, d)[0])))
        else:
            d = S.rand_surface(rng, rational=rng.random() < .3, maxp=3, max_interior=2)
            u, v = S.rand_params(rng, d)
            if min(d['pu'], d['pv']) < 2:
                continue
            out.append(Case(rng.choice(['hodograph-surface', 'tangent-normal']), None, dict(shape=d, u=u, v=v)))
    return out


def _obj(c):
    from geomdl import evaluators
    d = c.data['shape']
    o = S.build(d)
    if c.data.get('alt'):
        o.evaluator = evaluators.CurveEvaluator2() if d['kind'] == 'curve' else evaluators.SurfaceEvaluator2()
    return o


def impl(c):
    o = _obj(c)
    if c.kind.startswith('cders'):
        return show_pts(o.derivatives(q(c.data['u']), c.data['order']))
    return show_pts2(o.derivatives(q(c.data['u']), q(c.data['v']), c.data['order']))


def _cmp(got, want, what):
    got = [list(x) for x in got]
    if got != want:
        for k, (a, b) in enumerate(zip(got, want)):
            if a != b:
                return "%s: order %d is %s, exact derivative %s" % (what, k, show_list(a), show_list(b))
        return "%s: wrong number of derivatives" % what
    return None


def _map(d, hd, params):
    """parameters of `d` mapped affinely onto the domain of `hd` (constructors may normalise knot vectors)"""
    res = []
    for (p, kv, n), (p2, kv2, n2), x in zip(S.dirs(d), S.dirs(hd), params):
        lo, hi, lo2, hi2 = kv[p], kv[n], kv2[p2], kv2[n2]
        res.append(lo2 + (x - lo) / (hi - lo) * (hi2 - lo2))
    return res


def oracle(c):
    from geomdl import operations, evaluators
    d = c.data['shape']
    if c.kind.startswith('cders'):
        o = _obj(c)
        u, order = c.data['u'], c.data['order']
        got = o.derivatives(q(u), order)
        return _cmp(got, J.curve_ders(d, u, order), "Curve.derivatives(%s, %d)%s" % (fr(u), order, ' [alternative evaluator]' if c.data['alt'] else ''))
    if c.kind.startswith('sders'):
        o = _obj(c)
        u, v, order = c.data['u'], c.data['v'], c.data['order']
        got = o.derivatives(q(u), q(v), order)
        want = J.surface_ders(d, u, v, order)
        for k in range(order + 1):
            for l in range(order + 1):
                if c.data['alt'] and k + l > order:
                    continue          # the alternative evaluator fills k + l <= order only
                if list(got[k][l]) != want[k][l]:
                    return "Surface.derivatives(%s,%s,%d)%s [%d][%d] = %s, exact %s" % (
                        fr(u), fr(v), order, ' [alternative evaluator]' if c.data['alt'] else '', k, l, show_list(got[k][l]), show_list(want[k][l]))
        return None
    o = S.build(d)
    if c.kind == 'hodograph-curve':
        u = c.data['u']
        h = operations.derivative_curve(o)
        hd = S.from_obj(h)
        want = J.curve_ders(d, u, 1)[1]
        # the hodograph has the same parameter domain (knot vector U[1:-1]); its constructor normalises
        lo, hi = d['kv'][d['p']], d['kv'][d['n']]
        hlo, hhi = hd['kv'][hd['p']], hd['kv'][hd['n']]
        uu = hlo + (u - lo) / (hi - lo) * (hhi - hlo)
        got = S.eval_ref(hd, [uu])
        scale = (hhi - hlo) / (hi - lo)
        if [x for x in got] != [w for w in want] and [x * scale for x in got] != want:
            return "derivative_curve evaluated at %s gives %s, exact first derivative %s" % (fr(u), show_list(got), show_list(want))
        return None
    if c.kind == 'hodograph-surface':
        if d['rat']:
            return None
        u, v = c.data['u'], c.data['v']
        try:
            hs = operations.derivative_surface(o)
        except ZeroDivisionError:
            return "derivative_surface raised ZeroDivisionError"
        ex = J.surface_ders(d, u, v, 1)
        for name, h, want in (('u', hs[0], ex[1][0]), ('v', hs[1], ex[0][1]), ('uv', hs[2], ex[1][1])):
            hd = S.from_obj(h)
            got = S.eval_ref(hd, _map(d, hd, [u, v]))
            if got != want:
                return "derivative_surface[%s] at (%s,%s) gives %s, exact %s" % (name, fr(u), fr(v), show_list(got), show_list(want))
        return None
    if c.kind == 'tangent-normal':
        u, v = c.data['u'], c.data['v']
        ex = J.surface_ders(d, u, v, 1)
        t = operations.tangent(o, (q(u), q(v)), normalize=False)
        if list(t[1]) != ex[1][0] or list(t[2]) != ex[0][1] or list(t[0]) != ex[0][0]:
            return "operations.tangent at (%s,%s) differs from the exact first derivatives" % (fr(u), fr(v))
        nrm = operations.normal(o, (q(u), q(v)), normalize=False)
        a, b = ex[1][0], ex[0][1]
        if len(a) == 3:
            cross = [a[1] * b[2] - a[2] * b[1], a[2] * b[0] - a[0] * b[2], a[0] * b[1] - a[1] * b[0]]
            if list(nrm[1]) != cross:
                return "operations.normal is not the cross product of the two tangents"
            if sum(x * y for x, y in zip(cross, a)) != 0 or sum(x * y for x, y in zip(cross, b)) != 0:
                return "normal not orthogonal to the tangents"
            nn = operations.normal(o, (q(u), q(v)), normalize=True)
            ln = sum(float(x) ** 2 for x in nn[1])
            if any(x != 0 for x in cross) and abs(ln - 1.0) > 1e-12:
                return "normalised normal has squared length %r" % ln
        return None
    return None


def classify(c, why):
    if c.kind == 'hodograph-surface' and why == "derivative_surface raised ZeroDivisionError":
        d = c.data['shape']
        for (p, kv, n) in S.dirs(d):
            if any(sum(1 for y in kv if y == x) >= p for x in set(kv[p + 1:n])):
                return 'F-02b'
    return None


def witness(fid):
    if fid == 'F-02b':
        from geomdl import BSpline, operations
        s = BSpline.Surface()
        s.degree_u, s.degree_v = 2, 2
        s.set_ctrlpts([[q(i), q(j), q((i * j) % 3)] for i in range(3) for j in range(5)], 3, 5)
        s.knotvector_u = qs([0, 0, 0, 1, 1, 1])
        s.knotvector_v = qs([0, 0, 0, F(1, 2), F(1, 2), 1, 1, 1])
        try:
            operations.derivative_surface(s)
        except ZeroDivisionError:
            return "ZeroDivisionError"
        return None
    return None
