"""C02  Derivatives returned are the true derivatives of the shape."""
from fractions import Fraction as F
from core import Case, q, qs, qpts, fr, show_list, show_pts, show_pts2
import gen as G
import shapes as S
import jets as J

PID = 'C02'
FLOAT_KINDS = {'cders', 'cders-alt', 'sders', 'sders-alt', 'bders23'}      # float-mode companion (core.float_companion)
FLOAT_TOL = 1e-6
STATS = G.STATS
PARTIAL = [
    "proved: curves, every order (curve_derivatives_are_true_derivatives); surfaces, every mixed order as partial derivatives of the bivariate span polynomial in Mathlib's F[X][Y] (surface_derivatives_are_true_mixed_derivatives; with SurfaceEvaluator2 only k+l <= order is computed, the rest is left zero); the list models of A4.2 and A4.4 solve the (bivariate) Leibniz system, whose solution is unique; end to end for NURBS curves and surfaces with positive weights, through the library's span search, at every parameter of the closed domain (rational_curve_derivatives_leibniz_of_true_derivatives, rational_surface_derivatives_leibniz_on_domain: row lengths of the derivative table and positivity of the weight polynomial are derived from well-formedness, no hypothesis on the table is left); A2.3 transcribed statement by statement (basisFunsDersA23, stream bders23) equals the specification table basisDers = derivatives of the basis polynomials, and does not divide by zero under the span guard",
    "proved (loops as coded, each transcription compared with the real function by its own stream): A3.2 CurveEvaluator.derivatives (curveDersA32, stream cders32), A3.6 SurfaceEvaluator.derivatives (surfaceDersA36, stream sders36: temp array, dd = min(deriv_order, d[1]) - equals the tensor-formula table, all k <= du, l <= dv filled), A3.7 helpers.surface_deriv_cpts after the fix a380c58 (surfaceDerivCptsA37, stream sdcpts37: exactly which entries of PKL are assigned, their values as v-differences of u-differences, A3.8 reads assigned entries only) and A3.8 SurfaceEvaluator2.derivatives (surfaceDersA38, stream sders38: equals the triangular table) return the true (mixed) derivatives; rational surfaces with the default evaluator as coded solve the Leibniz system of the true derivatives",
    "proved (hodographs; hypotheses of every hodograph theorem = guards of the driver ops: degree >= 2 in each differentiated direction, derivCptsDivisorsOk = no ZeroDivisionError (F-02b for surfaces)): the DATA handed to the setters - derivative_curve (derivativeCurve, stream hodoc: control points PK[1], knot vector U[1:-1], degree p-1) evaluated on the shifted span is the first derivative, also through the library's own span search (the span found on U[1:-1] is the original span minus one); the three surfaces of derivative_surface (derivativeSurface, stream hodos) evaluated on the shifted span pairs and through their own span searches are S_u, S_v, S_uv; the OBJECTS the constructors return (knot vectors after the normalising setter, knotNormalize / surfDataNormalize as the driver prints them): when U[1:-1] spans [0,1] (clamped shape on [0,1], the default) the stored curve / three stored surfaces evaluated at the SAME parameter(s) on the closed domain are the derivatives (hodograph_curve_object_is_first_derivative, hodograph_surface_objects_are_partial_derivatives); for any knot vector they are the derivatives at the affinely mapped parameter (u - U[1]) / (U[-2] - U[1]) (hodograph_*_reparametrised) - at the same parameter they are NOT (finding F-02c, in-file example on an unclamped knot vector)",
    "proved (through the span search, closed domain, what the ops cders32 / sders36 / tanc / tans / nrms run): A3.2 and A3.6 as coded on the span(s) find_span_linear returns; rational curves and surfaces with the default evaluator as coded (A3.2 / A3.6 on the homogeneous net, then A4.2 / A4.4) solve the Leibniz system of the true derivatives with positive weight polynomial; tangent of a non-rational curve / surface = (point, first derivative(s)), tangent of a rational CURVE = (A/w, quotient rule), normal of a non-rational 3-D surface = cross product of the TRUE first partial derivatives (streams tanc / tans / nrms, single and list variants); the values of every PKL entry A3.7 assigns (a37_as_coded_entry_values)",
    "proved (rational tangent / normal, what the ops tanc 1 / tans 1 / nrms 1 run: default evaluator as coded on the homogeneous net, A4.2 / A4.4, entries [0], [1] / [0][0], [1][0], [0][1]; span search, closed domain, positive weights): curve (rational_tangent_is_quotient_rule): point = A/w, vector = (A' w - A w')/w^2 with Mathlib's Polynomial.derivative, w(u) > 0; surface (tangent_rational_surface_on_domain, rational_surface_tangent_is_quotient_rule): W S = A, W S_u + W_u S = A_u, W S_v + W_v S = A_v and the quotient-rule forms with the partial derivatives in F[X][Y]; normal of a rational 3-D surface (normal_rational_surface_on_domain): the call succeeds and returns the cross product of these two rational tangent vectors, orthogonal to both; the quotient-rule values are the unique solution of the first two Leibniz equations and equal the derivative of the quotient polynomial whenever w divides A; over the reals (Mathlib HasDerivAt): x -> A(x)/w(x) has the value and derivative operations.tangent returns (rational_tangent_is_derivative_of_quotient_real), and S_u, S_v are the derivatives of the partial functions x -> A(x,v)/W(x,v), y -> A(u,y)/W(u,y) (rational_surface_tangents_are_partial_derivatives_of_quotient_real)",
    "proved (normalize=True; models tangentCurveN / tangentSurfaceN / normalSurfaceN = the un-normalised result followed by the model of vector_normalize, the magnitudes vector_magnitude returned being INPUTS; driver ops tancn / tansn / nrmsn compared with operations.tangent / normal(normalize=True) on unit-scale and small-scale (2^-10 .. 2^-26) shapes, rational and not, single and list calls, and on shapes with a vanishing tangent / normal (repeated first control point, pole)): for an EXACT root m (m*m = |v|^2): m > 0 -> the result exists, has squared length exactly 1 and is (1/m) v with 1/m > 0 (normalized_vector_is_unit_positive_multiple); m >= 0 -> the call is refused (ValueError, driver ERR) exactly for the zero vector (normalize_refuses_exactly_the_zero_vector); the three ops return the un-normalised point and these vectors, and are refused exactly when the first derivative / one of the two partials / the cross product vanishes (tangent_curve_normalized, tangent_surface_normalized, normal_surface_normalized and the ..._refused_iff_... theorems, for ANY derivative table); end to end for rational shapes: m n solves the Leibniz equation(s) of the true first derivative(s), the normalised normal is orthogonal to both rational tangents (normalized_tangent_rational_curve_on_domain, normalized_tangent_rational_surface_on_domain, normalized_normal_rational_surface_on_domain)",
    "not proved: derivatives of order >= 2 of the quotient A/w are stated through the Leibniz system and its uniqueness only (the quotient-rule / HasDerivAt forms are for order 1, i.e. tangent and normal); the magnitude the implementation uses is the DOUBLE math.sqrt returns, which satisfies m*m = |v|^2 only up to rounding: with it the result is (1/m) v exactly (model = code, compared in exact arithmetic) but its squared length is 1 only up to that rounding (the driver ops answer BADMAG unless |m*m - |v|^2| <= 2^-49 |v|^2, the oracle checks the same bound); a vector so small that |v|^2 underflows is outside - ALSO in the exact mode of the harness, whose math.sqrt is the double square root: vector_magnitude([2^-600, 0]) returns 0 there and tangent(..., normalize=True) raises ValueError for a non-zero vector (driver: BADMAG for that magnitude); A3.6 and A3.8 agree only on k + l <= order (the rest of the A3.8 table is zero)",
    "tangent / normal: the floating-point sqrt and the 18-decimals rounding of vector_normalize are outside the theorems (in the exact mode of the harness the '%.18f' formatting step is NOT EXERCISED: the exact number type ignores the format spec, so tancn / tansn / nrmsn compare the unrounded quotient - model = code there says nothing about the rounding step, and these kinds are not in FLOAT_KINDS; the oracle checks parallelism exactly and the length to relative 2^-49)",
    'vanishing weight function (statement audit 5): the setters accept weights of mixed sign; where the weight function vanishes inside the domain derivatives / tangent / normal of the rational shape raise ZeroDivisionError - the rational ops (cders, sders, cders32, sders36, the R twins, tanc, tans, nrms, tancn, tansn, nrmsn) answer ERR when the evaluated weight is 0 (Drv.cWZero / sWZero); every rational theorem carries positive weights (hwt; added to normal_rational_surface_on_domain / normalized_normal_rational_surface_on_domain, where the proof does not need it); stream zero-weight',
]
PARTIAL.append("proved (REPAIRED span search, F-01b; models curveDersR / curveDersA32R / surfaceDersR / surfaceDersA36R of Model/SpanRGrid.lean = the per-span tables curveDersAt / curveDersA32 / surfaceDersAt / surfaceDersA36 on the span(s) findSpanLinearR returns; ops cdersr / cders32r / sdersr / sders36r): on the whole closed domain of EVERY sorted knot vector with U_p < U_n per direction - the last domain span may be EMPTY - every entry of both curve evaluators is the iterated Polynomial.derivative of the span polynomial of the (legal, non-empty, parameter-containing) span found (curve_derivatives_repaired_on_domain, a32_as_coded_repaired_on_domain); at u = U_n that span is the last non-empty one, the curve coincides with its polynomial on [U_k, U_n), so the values are the LEFT-hand derivatives (curve_derivatives_repaired_at_domain_end); rational curves: positive weight polynomial and the Leibniz system for both evaluators (rational_curve_derivatives_repaired_leibniz); surfaces: tensor-formula table (tri for SurfaceEvaluator2) and A3.6 as coded = mixed partials of the bivariate span polynomial of the span pair found (surface_derivatives_repaired_on_domain), rational surfaces (rational_surface_derivatives_repaired_on_domain); under KnotsOk the R tables are the tables of the other theorems (derivatives_repaired_eq_derivatives); kernel-decided witness curve_derivatives_repaired_witness_F01b; correspondence: stream empty-last-span (kinds cdersr / cdersr-alt / cders32r / sdersr / sdersr-alt / sders36r, at U_n and inside, orders up to degree + 2, both evaluators, with the exact oracle = derivatives of the last non-empty span's polynomial) and the same ops on ordinary shapes (tag ordinary-r). A3.7 + A3.8 as coded lifted too (model surfaceDersA38R, op sders38r on ordinary shapes and in the stream empty-last-span for SurfaceEvaluator2: a38_as_coded_repaired_on_domain - equals surfaceDersR tri, entries k + l <= order are the mixed partials of the span pair found, rest zero; a38_as_coded_repaired_eq; witness a38_as_coded_repaired_witness_F01b). tangent / normal with normalize=False lifted as well (ops tancr / tansr / nrmsr = tangentCurve / tangentSurface / normalSurface over curveDersA32R / surfaceDersA36R, generated in the stream empty-last-span at U_n and inside, model line AND exact oracle; theorems tangent_curve_repaired_on_domain, tangent_surface_repaired_on_domain, normal_surface_repaired_on_domain for non-rational shapes, witness tangent_curve_repaired_witness_F01b; rational shapes: the ops run A4.2 / A4.4 over the R tables, whose entries are covered by the rational ..._repaired theorems). rational CURVE tangent in quotient-rule form lifted: tangent_rational_curve_repaired_quotient_rule, rational SURFACE tangent likewise: tangent_rational_surface_repaired_quotient_rule. rational NORMAL: normal_rational_surface_repaired_on_domain. normalize=True: the generic theorems tangent_curve_normalized / tangent_surface_normalized / normal_surface_normalized hold for ANY table, hence for the R tables. NOT lifted to the repaired search: the normalize=True ops (tancn, tansn, nrmsn) and normalized_..._rational_..._on_domain and the hodograph theorems / ops (stated through findSpanLinear under KnotsOk / CurveWF, ERR on an empty found span), binsearch-selected derivatives (C17)")


def _shrink(rng, d):
    """small-scale geometry (seeded change r5-C02-m1: an absolute 'is it zero' tolerance in vector_normalize refuses regular
    but tiny tangents / normals): with probability .4 all spatial coordinates are multiplied by 2^-k, k = 10..26"""
    if rng.random() >= .4:
        return d
    f = F(1, 2 ** rng.randint(10, 26))
    dim = d['dim']
    e = dict(d)
    e['P'] = [[x * f if i < dim else x for i, x in enumerate(pt)] for pt in d['P']]
    G.count('tangent-scale', 'small')
    return e


def _mag(vec):
    """(the double linalg.vector_magnitude returns for the exact vector, exact squared length): the model of
    vector_normalize takes the square root as an input (core.impl_sqrt: what the implementation computed, checked to be
    the root up to rounding; the vector itself comes from the exact jets, not from the implementation)"""
    import core
    from geomdl import linalg
    ssq = sum((x * x for x in vec), F(0))
    return core.impl_sqrt(ssq, lambda: linalg.vector_magnitude(qs(vec))), ssq


def _cross3(a, b):
    a3, b3 = (list(a) + [F(0)])[:3], (list(b) + [F(0)])[:3]
    return [a3[1] * b3[2] - a3[2] * b3[1], a3[2] * b3[0] - a3[0] * b3[2], a3[0] * b3[1] - a3[1] * b3[0]]


def _degenerate_curve(rng, d):
    """the first two control points coincide (weights kept): on a clamped knot vector the tangent at the start vanishes"""
    dim = d['dim']
    P = [list(pt) for pt in d['P']]
    if d['rat']:
        w0, w1 = P[0][dim], P[1][dim]
        P[1] = [P[0][i] / w0 * w1 for i in range(dim)] + [w1]
    else:
        P[1] = list(P[0])
    e = dict(d); e['P'] = P
    return e


def _pole_surface(rng, d):
    """the first u-row of the net collapses to one point (a pole; weights kept): S_v = 0 along the edge u = start"""
    dim, sv = d['dim'], d['sv']
    P = [list(pt) for pt in d['P']]
    for b in range(1, sv):
        if d['rat']:
            P[b] = [P[0][i] / P[0][dim] * P[b][dim] for i in range(dim)] + [P[b][dim]]
        else:
            P[b] = list(P[0])
    e = dict(d); e['P'] = P
    return e


def _norm_cases(rng, tier):
    """normalize=True variants (models tangentCurveN / tangentSurfaceN / normalSurfaceN; driver ops tancn / tansn /
    nrmsn): unit-scale and small-scale shapes, rational and not, single and list calls, and shapes with a vanishing
    tangent / normal (repeated first control point, pole) where vector_normalize raises"""
    out = []
    for _ in range(70 if tier == 'quick' else 900):
        aslist = rng.random() < .35
        m = rng.randint(2, 3) if aslist else 1
        zero = rng.random() < .12
        if rng.random() < .4:
            d = S.rand_curve(rng, maxp=4, clamped=True if zero else rng.random() < .9)
            us = [S.rand_params(rng, d)[0] for _ in range(m)]
            if zero:
                d = _degenerate_curve(rng, d)
                us[rng.randrange(m)] = d['kv'][d['p']]
            d = _shrink(rng, d)
            mags = [_mag(J.curve_ders(d, u, 1)[1]) for u in us]
            G.count('tangent-normalized', 'curve' + ('-rat' if d['rat'] else '') + ('-list' if aslist else ''))
            G.count('normalize-sqrt', 'zero' if any(x[1] == 0 for x in mags) else
                    ('exact' if all(x[0] * x[0] == x[1] for x in mags) else 'rounded'))
            out.append(Case('tancn', "tancn %s %s %s" % (S.args(d), show_list(us), show_list([x[0] for x in mags])),
                            dict(shape=d, us=us, aslist=aslist)))
        else:
            d = S.rand_surface(rng, maxp=3, max_interior=2, dim=rng.choice([3, 3, 2]), clamped=True if zero else rng.random() < .9)
            ps = [S.rand_params(rng, d) for _ in range(m)]
            if zero:
                d = _pole_surface(rng, d)
                k = rng.randrange(m)
                ps[k] = [d['kvu'][d['pu']], ps[k][1]]
            d = _shrink(rng, d)
            us, vs = [x[0] for x in ps], [x[1] for x in ps]
            kind = rng.choice(['tansn', 'nrmsn'])
            jets = [J.surface_ders(d, u, v, 1) for u, v in ps]
            G.count('tangent-normalized', kind + ('-rat' if d['rat'] else '') + ('-list' if aslist else ''))
            if kind == 'tansn':
                mu = [_mag(ex[1][0]) for ex in jets]
                mv = [_mag(ex[0][1]) for ex in jets]
                G.count('normalize-sqrt', 'zero' if any(x[1] == 0 for x in mu + mv) else
                        ('exact' if all(x[0] * x[0] == x[1] for x in mu + mv) else 'rounded'))
                line = "tansn %s %s %s %s %s" % (S.args(d), show_list(us), show_list(vs), show_list([x[0] for x in mu]),
                                                 show_list([x[0] for x in mv]))
            else:
                mn = [_mag(_cross3(ex[1][0], ex[0][1])) for ex in jets]
                G.count('normalize-sqrt', 'zero' if any(x[1] == 0 for x in mn) else
                        ('exact' if all(x[0] * x[0] == x[1] for x in mn) else 'rounded'))
                line = "nrmsn %s %s %s %s" % (S.args(d), show_list(us), show_list(vs), show_list([x[0] for x in mn]))
            out.append(Case(kind, line, dict(shape=d, us=us, vs=vs, aslist=aslist)))
    return out


def gen(rng, tier):
    out = []
    n = 150 if tier == 'quick' else 2200
    for i_ in range(n):
        if rng.random() < .55:
            d = S.rand_curve(rng, maxp=5, clamped=rng.random() < .9)
            u = S.rand_params(rng, d)[0]
            order = rng.randint(0, d['p'] + 2)
            alt = (not d['rat']) and rng.random() < .45
            G.count('order', order); G.count('evaluator', 'alt' if alt else 'default')
            line = "cders %s %s %d" % (S.args(d), fr(u), order)
            out.append(Case('cders-alt' if alt else 'cders', line, dict(shape=d, u=u, order=order, alt=alt)))
            if not alt:      # A3.2 transcribed loop by loop (model `curveDersA32`)
                out.append(Case('cders32', "cders32 %s %s %d" % (S.args(d), fr(u), order), dict(shape=d, u=u, order=order, alt=False)))
            if i_ % 3 == 0:
                # the tables on the span the REPAIRED model search finds (curveDersR / curveDersA32R, Model/SpanRGrid.lean) on
                # ORDINARY shapes: they must agree with the code everywhere
                out.append(Case('cdersr-alt' if alt else 'cdersr', "cdersr %s %s %d" % (S.args(d), fr(u), order),
                                dict(shape=d, u=u, order=order, alt=alt), tags=('ordinary-r',)))
                if not alt:
                    out.append(Case('cders32r', "cders32r %s %s %d" % (S.args(d), fr(u), order),
                                    dict(shape=d, u=u, order=order, alt=False), tags=('ordinary-r',)))
        else:
            d = S.rand_surface(rng, maxp=3, max_interior=2)
            u, v = S.rand_params(rng, d)
            order = rng.randint(0, max(d['pu'], d['pv']) + 2)
            alt = (not d['rat']) and rng.random() < .45
            G.count('order', order); G.count('evaluator', 'surf-alt' if alt else 'surf-default')
            line = "sders %s %d %s %s %s %d" % ('1' if d['rat'] else '0', 1 if alt else 0, S.args(d)[2:], fr(u), fr(v), order)
            out.append(Case('sders-alt' if alt else 'sders', line, dict(shape=d, u=u, v=v, order=order, alt=alt)))
            # A3.6 / A3.7+A3.8 transcribed loop by loop (models `surfaceDersA36`, `surfaceDersA38`)
            if alt:
                out.append(Case('sders38', "sders38 %s %s %s %d" % (S.args(d)[2:], fr(u), fr(v), order), dict(shape=d, u=u, v=v, order=order, alt=True)))
            else:
                out.append(Case('sders36', "sders36 %s %s %s %d" % (S.args(d), fr(u), fr(v), order), dict(shape=d, u=u, v=v, order=order, alt=False)))
            if i_ % 3 == 0:
                out.append(Case('sdersr-alt' if alt else 'sdersr', "sdersr" + line[5:], dict(shape=d, u=u, v=v, order=order, alt=alt),
                                tags=('ordinary-r',)))
                if not alt:
                    out.append(Case('sders36r', "sders36r %s %s %s %d" % (S.args(d), fr(u), fr(v), order),
                                    dict(shape=d, u=u, v=v, order=order, alt=False), tags=('ordinary-r',)))
                else:
                    out.append(Case('sders38r', "sders38r %s %s %s %d" % (S.args(d)[2:], fr(u), fr(v), order),
                                    dict(shape=d, u=u, v=v, order=order, alt=True), tags=('ordinary-r',)))
    # empty-last-span (F-01b, repaired): knot vectors whose last domain span [U_{n-1}, U_n] is EMPTY (G.knots_empty_last), in
    # the direction of a curve / one direction of a surface.  derivatives(u, order) of both evaluators AT u = U_n (and
    # strictly inside) against the tables on the span the repaired model search finds: curveDersR (A3.3/A3.4) and
    # curveDersA32R (A3.2 as coded), surfaceDersR (tensor formula, tri for SurfaceEvaluator2) and surfaceDersA36R (ops
    # cdersr / cders32r / sdersr / sders36r; the ops of the search without step back answer ERR at U_n) + the exact oracle
    # (derivatives of the polynomial of the last non-empty span: left-hand values)
    for _ in range(40 if tier == 'quick' else 500):
        rat = rng.random() < .4
        at_end = rng.random() < .7
        if rng.random() < .55:
            p = rng.randint(1, 4)
            kv, n_ = G.knots_empty_last(rng, p)
            P = G.points(rng, n_, rng.choice([2, 3]))
            if rat:
                P = G.homogeneous(P, G.weights(rng, n_))
            d = dict(kind='curve', rat=rat, p=p, kv=kv, n=n_, P=P, dim=len(P[0]) - (1 if rat else 0))
            u = kv[n_] if at_end else kv[p] + (kv[n_] - kv[p]) * F(rng.randint(0, 99), 100)
            order = rng.randint(0, p + 2)
            alt = (not rat) and rng.random() < .45
            G.count('empty_last_span', ('curve', 'alt' if alt else 'default', 'at-end' if at_end else 'inside'))
            tags = ('empty-last-span', 'at-end' if at_end else 'inside')
            out.append(Case('cdersr-alt' if alt else 'cdersr', "cdersr %s %s %d" % (S.args(d), fr(u), order),
                            dict(shape=d, u=u, order=order, alt=alt), tags=tags))
            if not alt:
                out.append(Case('cders32r', "cders32r %s %s %d" % (S.args(d), fr(u), order),
                                dict(shape=d, u=u, order=order, alt=False), tags=tags))
            # operations.tangent on the span the repaired search finds (op tancr; dispatched as kind 'tanc', default evaluator)
            G.count('empty_last_span', ('tangent-curve', 'at-end' if at_end else 'inside'))
            out.append(Case('tanc', "tancr %s %s" % (S.args(d), show_list([u])), dict(shape=d, us=[u], aslist=False), tags=tags))
        else:
            k = rng.randrange(2)
            degs, kvs, sizes = [], [], []
            for i in range(2):
                p = rng.randint(1, 3)
                if i == k:
                    kv, n_ = G.knots_empty_last(rng, p)
                else:
                    kv, n_ = G.knots(rng, p, max_interior=2, allow_range=False, clamped=rng.random() < .7)
                degs.append(p); kvs.append(kv); sizes.append(n_)
            P = G.points(rng, sizes[0] * sizes[1], 3)
            if rat:
                P = G.homogeneous(P, G.weights(rng, sizes[0] * sizes[1]))
            d = dict(kind='surface', rat=rat, pu=degs[0], pv=degs[1], kvu=kvs[0], kvv=kvs[1], su=sizes[0], sv=sizes[1], P=P, dim=3)
            ps = S.rand_params(rng, d)
            pk, kvk, nk = S.dirs(d)[k]
            ps[k] = kvk[nk] if at_end else kvk[pk] + (kvk[nk] - kvk[pk]) * F(rng.randint(0, 99), 100)
            u, v = ps
            order = rng.randint(0, max(degs) + 1)
            alt = (not rat) and rng.random() < .45
            G.count('empty_last_span', ('surface', 'dir%d' % k, 'alt' if alt else 'default', 'at-end' if at_end else 'inside'))
            tags = ('empty-last-span', 'at-end' if at_end else 'inside')
            out.append(Case('sdersr-alt' if alt else 'sdersr',
                            "sdersr %s %d %s %s %s %d" % ('1' if rat else '0', 1 if alt else 0, S.args(d)[2:], fr(u), fr(v), order),
                            dict(shape=d, u=u, v=v, order=order, alt=alt), tags=tags))
            if not alt:
                out.append(Case('sders36r', "sders36r %s %s %s %d" % (S.args(d), fr(u), fr(v), order),
                                dict(shape=d, u=u, v=v, order=order, alt=False), tags=tags))
            else:
                out.append(Case('sders38r', "sders38r %s %s %s %d" % (S.args(d)[2:], fr(u), fr(v), order),
                                dict(shape=d, u=u, v=v, order=order, alt=True), tags=tags))
            # operations.tangent / normal on the span pair the repaired search finds (ops tansr / nrmsr; dispatched as kinds
            # 'tans' / 'nrms', default evaluator)
            G.count('empty_last_span', ('tangent-normal-surface', 'dir%d' % k, 'at-end' if at_end else 'inside'))
            for kind in ('tans', 'nrms'):
                out.append(Case(kind, "%sr %s %s %s" % (kind, S.args(d), show_list([u]), show_list([v])),
                                dict(shape=d, us=[u], vs=[v], aslist=False), tags=tags))
    # A2.3 literally transcribed (model `basisFunsDersA23`) against helpers.basis_function_ders
    for _ in range(120 if tier == 'quick' else 2000):
        p = rng.randint(1, 7 if tier == 'quick' else 9)
        kv, n = G.knots(rng, p, clamped=rng.random() < .8)
        u = G.param(rng, kv, p, n)
        k = G.span_of(kv, p, n, u)
        order = rng.randint(0, p) if rng.random() < .93 else p + rng.randint(1, 2)   # above the degree: IndexError
        G.count('a23-order', 'above' if order > p else order)
        out.append(Case('bders23', "bders23 %d %s %d %s %d" % (p, show_list(kv), k, fr(u), order),
                        dict(p=p, n=n, kv=kv, u=u, k=k, order=order), tags=(('diagnostic',) if order > p else ())))
    # A3.7 transcribed loop by loop (model `surfaceDerivCptsA37`) against helpers.surface_deriv_cpts:
    # the window of a span pair (what A3.8 passes) or the whole net (what derivative_surface passes)
    for _ in range(60 if tier == 'quick' else 900):
        d = S.rand_surface(rng, rational=False, maxp=3, max_interior=2)
        if rng.random() < .6:
            u, v = S.rand_params(rng, d)
            ku, kv_ = G.span_of(d['kvu'], d['pu'], d['su'], u), G.span_of(d['kvv'], d['pv'], d['sv'], v)
            win = (ku - d['pu'], ku, kv_ - d['pv'], kv_)
        else:
            win = (0, d['su'] - 1, 0, d['sv'] - 1)
        order = rng.randint(0, max(d['pu'], d['pv']) + 2)
        G.count('a37-window', 'span' if win[0] or win[1] != d['su'] - 1 else 'whole')
        out.append(Case('sdcpts37', "sdcpts37 %s %d %d %d %d %d" % ((S.args(d)[2:],) + win + (order,)), dict(shape=d, win=list(win), order=order)))
    # hodograph constructors, tangent, normal: model line (models `derivativeCurve`, `derivativeSurface`,
    # `tangentCurve`, `tangentSurface`, `normalSurface`) and oracle
    for _ in range(110 if tier == 'quick' else 1200):
        if rng.random() < .35:
            d = S.rand_curve(rng, rational=False, maxp=5)
            if d['p'] < 2:
                continue      # degree-0 shapes cannot be represented by the library
            out.append(Case('hodograph-curve', "hodoc %s" % S.args(d)[2:], dict(shape=d, u=S.rand_params(rng, d)[0])))
        else:
            d = S.rand_surface(rng, rational=rng.random() < .3, maxp=3, max_interior=2)
            u, v = S.rand_params(rng, d)
            if min(d['pu'], d['pv']) < 2:
                continue
            if rng.random() < .5:
                norm = S.unit_range(d['kvu']) and S.unit_range(d['kvv'])
                line = None if d['rat'] else "hodos %d %s" % (1 if norm else 0, S.args(d)[2:])
                out.append(Case('hodograph-surface', line, dict(shape=d, u=u, v=v)))
            else:
                out.append(Case('tangent-normal', None, dict(shape=_shrink(rng, d), u=u, v=v)))
    # hodograph surfaces of shapes without C0 knots (those hit the recorded finding F-02b), tangents of
    # curves, list variants of tangent / normal
    k = 0
    while k < (12 if tier == 'quick' else 150):
        d = S.rand_surface(rng, rational=False, maxp=3, max_interior=2, max_mult=1)
        if min(d['pu'], d['pv']) < 2:
            continue
        u, v = S.rand_params(rng, d)
        norm = S.unit_range(d['kvu']) and S.unit_range(d['kvv'])
        out.append(Case('hodograph-surface', "hodos %d %s" % (1 if norm else 0, S.args(d)[2:]), dict(shape=d, u=u, v=v)))
        k += 1
    for _ in range(16 if tier == 'quick' else 200):
        d = S.rand_curve(rng, maxp=5)
        us = [S.rand_params(rng, d)[0] for _ in range(rng.randint(1, 3))]
        out.append(Case('tangent-curve', None, dict(shape=_shrink(rng, d), us=us)))
    for _ in range(10 if tier == 'quick' else 120):
        d = S.rand_surface(rng, maxp=3, max_interior=2)
        uvs = [S.rand_params(rng, d) for _ in range(rng.randint(2, 3))]
        out.append(Case('tangent-normal-list', None, dict(shape=d, uvs=uvs)))
    # refusals (oracle only): rational shapes are returned unchanged with a warning, wrong shape classes raise
    for _ in range(6 if tier == 'quick' else 40):
        out.append(Case('refusal', None, dict(curve=S.rand_curve(rng, maxp=3), surface=S.rand_surface(rng, maxp=2, max_interior=1),
                                              rcurve=S.rand_curve(rng, rational=True, maxp=3),
                                              rsurface=S.rand_surface(rng, rational=True, maxp=2, max_interior=1))))
    # tangent / normal at single parameters and at parameter lists (the `_single_list` variants)
    for _ in range(60 if tier == 'quick' else 700):
        aslist = rng.random() < .4
        m = rng.randint(1, 3) if aslist else 1
        if rng.random() < .4:
            d = S.rand_curve(rng, maxp=4)
            us = [S.rand_params(rng, d)[0] for _ in range(m)]
            G.count('tangent', 'curve-list' if aslist else 'curve')
            out.append(Case('tanc', "tanc %s %s" % (S.args(d), show_list(us)), dict(shape=d, us=us, aslist=aslist)))
        else:
            d = S.rand_surface(rng, maxp=3, max_interior=2, dim=rng.choice([3, 3, 2]))
            ps = [S.rand_params(rng, d) for _ in range(m)]
            us, vs = [x[0] for x in ps], [x[1] for x in ps]
            kind = rng.choice(['tans', 'nrms'])
            G.count('tangent', kind + ('-list' if aslist else ''))
            out.append(Case(kind, "%s %s %s %s" % (kind, S.args(d), show_list(us), show_list(vs)), dict(shape=d, us=us, vs=vs, aslist=aslist)))
    out.extend(_norm_cases(rng, tier))
    # malformed (statement audit 5, vanishing weight function): weights of mixed sign, parameter ON the zero set of the weight
    # function: derivatives / tangent / normal of the rational shape divide by W = 0 (ZeroDivisionError), the ops answer ERR
    # (Drv.cWZero / sWZero); both sides refuse, the oracle has nothing to judge
    for _ in range(6 if tier == 'quick' else 40):
        d, zero, _other = S.mixed_sign_shape(rng)
        order = rng.randint(0, 2)
        if d['kind'] == 'curve':
            u = zero[0]
            out.append(Case('cders', "cders %s %s %d" % (S.args(d), fr(u), order), dict(shape=d, u=u, order=order, alt=False), tags=('zero-weight',)))
            out.append(Case('cders32', "cders32 %s %s %d" % (S.args(d), fr(u), order), dict(shape=d, u=u, order=order, alt=False), tags=('zero-weight',)))
            out.append(Case('cdersr', "cdersr %s %s %d" % (S.args(d), fr(u), order), dict(shape=d, u=u, order=order, alt=False), tags=('zero-weight',)))
            out.append(Case('tanc', "tanc %s %s" % (S.args(d), show_list([u])), dict(shape=d, us=[u], aslist=False), tags=('zero-weight',)))
        else:
            u, v = zero
            out.append(Case('sders', "sders %s 0 %s %s %s %d" % ('1', S.args(d)[2:], fr(u), fr(v), order), dict(shape=d, u=u, v=v, order=order, alt=False), tags=('zero-weight',)))
            out.append(Case('sders36', "sders36 %s %s %s %d" % (S.args(d), fr(u), fr(v), order), dict(shape=d, u=u, v=v, order=order, alt=False), tags=('zero-weight',)))
            for kind in ('tans', 'nrms'):
                out.append(Case(kind, "%s %s %s %s" % (kind, S.args(d), show_list([u]), show_list([v])), dict(shape=d, us=[u], vs=[v], aslist=False), tags=('zero-weight',)))
    return out


def _obj(c):
    from geomdl import evaluators
    d = c.data['shape']
    o = S.build(d)
    if c.data.get('alt'):
        o.evaluator = evaluators.CurveEvaluator2() if d['kind'] == 'curve' else evaluators.SurfaceEvaluator2()
    return o


def impl(c):
    if c.kind == 'bders23':
        from geomdl import helpers
        d = c.data
        return show_pts(helpers.basis_function_ders(d['p'], qs(d['kv']), d['k'], q(d['u']), d['order']))
    if c.kind == 'sdcpts37':
        from geomdl import helpers
        d = c.data['shape']; r1, r2, s1, s2 = c.data['win']; order = c.data['order']
        pkl = helpers.surface_deriv_cpts(d['dim'], (d['pu'], d['pv']), (qs(d['kvu']), qs(d['kvv'])), qpts(d['P']),
                                         (d['su'], d['sv']), rs=(r1, r2), ss=(s1, s2), deriv_order=order)
        du, dv = min(d['pu'], order), min(d['pv'], order)
        return show_pts2([[pkl[k][l][i][j] for i in range(r2 - r1 - k + 1) for j in range(s2 - s1 - l + 1)]
                          for k in range(du + 1) for l in range(min(order - k, dv) + 1)])
    if c.kind in ('tancn', 'tansn', 'nrmsn'):
        from geomdl import operations
        o = S.build(c.data['shape'])
        if c.kind == 'tancn':
            us = [q(x) for x in c.data['us']]
            res = operations.tangent(o, us, normalize=True) if c.data['aslist'] else (operations.tangent(o, us[0], normalize=True),)
        else:
            ps = [(q(a), q(b)) for a, b in zip(c.data['us'], c.data['vs'])]
            f = operations.tangent if c.kind == 'tansn' else operations.normal
            res = f(o, ps, normalize=True) if c.data['aslist'] else (f(o, ps[0], normalize=True),)
        return "|".join(";".join(show_list(list(x)) for x in r) for r in res)
    if c.kind in ('hodograph-curve', 'hodograph-surface', 'tanc', 'tans', 'nrms'):
        from geomdl import operations
        o = S.build(c.data['shape'])
        if c.kind == 'hodograph-curve':
            h = operations.derivative_curve(o)
            return "%d %s %s" % (h.degree, show_list(h.knotvector), show_pts(h.ctrlpts))
        if c.kind == 'hodograph-surface':
            return " | ".join("%d %d %s %s %d %d %s" % (h.degree_u, h.degree_v, show_list(h.knotvector_u), show_list(h.knotvector_v),
                                                      h.ctrlpts_size_u, h.ctrlpts_size_v, show_pts(h.ctrlpts))
                              for h in operations.derivative_surface(o))
        if c.kind == 'tanc':
            us = [q(x) for x in c.data['us']]
            res = operations.tangent(o, us, normalize=False) if c.data['aslist'] else (operations.tangent(o, us[0], normalize=False),)
        else:
            ps = [(q(a), q(b)) for a, b in zip(c.data['us'], c.data['vs'])]
            f = operations.tangent if c.kind == 'tans' else operations.normal
            res = f(o, ps, normalize=False) if c.data['aslist'] else (f(o, ps[0], normalize=False),)
        return "|".join(";".join(show_list(list(x)) for x in r) for r in res)
    o = _obj(c)
    if c.kind.startswith('cders'):
        return show_pts(o.derivatives(q(c.data['u']), c.data['order']))
    return show_pts2(o.derivatives(q(c.data['u']), q(c.data['v']), c.data['order']))


def _cmp(got, want, what):
    got = [list(x) for x in got]
    if got != want:
        for k, (a, b) in enumerate(zip(got, want)):
            if a != b:
                return "%s: order %d is %s, exact derivative %s" % (what, k, show_list(a), show_list(b))
        return "%s: wrong number of derivatives" % what
    return None


def _map(d, hd, params):
    """parameters of `d` mapped affinely onto the domain of `hd` (constructors may normalise knot vectors)"""
    res = []
    for (p, kv, n), (p2, kv2, n2), x in zip(S.dirs(d), S.dirs(hd), params):
        lo, hi, lo2, hi2 = kv[p], kv[n], kv2[p2], kv2[n2]
        res.append(lo2 + (x - lo) / (hi - lo) * (hi2 - lo2))
    return res


def _basis_poly_ders(kv, p, k, u, order):
    """exact derivatives of the p+1 basis functions active on span k: Cox-de Boor recursion on coefficient
    lists of the polynomial pieces on [kv[k], kv[k+1]), differentiated symbolically"""
    def padd(a, b):
        n = max(len(a), len(b)); a = a + [F(0)] * (n - len(a)); b = b + [F(0)] * (n - len(b))
        return [x + y for x, y in zip(a, b)]

    def pmul_lin(a, c0, c1):            # a(x) * (c0 + c1 x)
        r = [F(0)] * (len(a) + 1)
        for i, x in enumerate(a):
            r[i] += x * c0; r[i + 1] += x * c1
        return r
    N = {i: ([F(1)] if i == k else [F(0)]) for i in range(k - p, k + p + 1)}
    for q_ in range(1, p + 1):
        M = {}
        for i in range(k - p, k + p + 1 - q_):
            acc = [F(0)]
            d1 = kv[i + q_] - kv[i]
            if d1 != 0:
                acc = padd(acc, pmul_lin(N[i], -kv[i] / d1, 1 / d1))
            d2 = kv[i + q_ + 1] - kv[i + 1]
            if d2 != 0:
                acc = padd(acc, pmul_lin(N[i + 1], kv[i + q_ + 1] / d2, -1 / d2))
            M[i] = acc
        N = M
    rows = []
    polys = [N[k - p + r] for r in range(p + 1)]
    for _ in range(order + 1):
        rows.append([sum((c * u ** e for e, c in enumerate(pl)), F(0)) for pl in polys])
        polys = [[c * e for e, c in enumerate(pl)][1:] or [F(0)] for pl in polys]
    return rows


def oracle(c):
    from geomdl import operations, evaluators
    if 'zero-weight' in c.tags:
        return None        # W(u) = 0: the rational routine raises ZeroDivisionError, ERR on both sides (malformed stream)
    if c.kind == 'bders23':
        from geomdl import helpers
        d = c.data
        if d['order'] > d['p']:
            return None
        got = helpers.basis_function_ders(d['p'], qs(d['kv']), d['k'], q(d['u']), d['order'])
        want = _basis_poly_ders(d['kv'], d['p'], d['k'], d['u'], d['order'])
        if [list(r) for r in got] != want:
            return "basis_function_ders(%d, .., %d, %s, %d) differs from the exact derivatives of the basis polynomials" % (
                d['p'], d['k'], fr(d['u']), d['order'])
        return None
    if c.kind == 'refusal':
        import warnings
        from geomdl.exceptions import GeomdlException
        crv, srf = S.build(c.data['curve']), S.build(c.data['surface'])
        rc, rs = S.build(c.data['rcurve']), S.build(c.data['rsurface'])
        with warnings.catch_warnings(record=True) as w:
            warnings.simplefilter('always')
            # a rational shape has no hodograph in this library: the call hands the shape back (same definition)
            hc, hs_ = operations.derivative_curve(rc), operations.derivative_surface(rs)
            if S.from_obj(hc) != S.from_obj(rc) or isinstance(hs_, (list, tuple)) or S.from_obj(hs_) != S.from_obj(rs):
                return "the hodograph constructor of a rational shape neither refuses nor returns the shape unchanged"
        for f, arg, what in ((operations.derivative_curve, srf, 'derivative_curve(surface)'),
                             (operations.derivative_surface, crv, 'derivative_surface(curve)'),
                             (lambda o: operations.normal(o, q(F(1, 2))), crv, 'normal(curve, u)')):
            try:
                f(arg)
            except Exception:
                continue
            return "%s is not rejected" % what
        return None
    d = c.data['shape']
    if c.kind.startswith('cders'):
        o = _obj(c)
        u, order = c.data['u'], c.data['order']
        got = o.derivatives(q(u), order)
        return _cmp(got, J.curve_ders(d, u, order), "Curve.derivatives(%s, %d)%s" % (fr(u), order, ' [alternative evaluator]' if c.data['alt'] else ''))
    if c.kind.startswith('sders'):
        o = _obj(c)
        u, v, order = c.data['u'], c.data['v'], c.data['order']
        got = o.derivatives(q(u), q(v), order)
        want = J.surface_ders(d, u, v, order)
        for k in range(order + 1):
            for l in range(order + 1):
                if c.data['alt'] and k + l > order:
                    continue          # the alternative evaluator fills k + l <= order only
                if list(got[k][l]) != want[k][l]:
                    return "Surface.derivatives(%s,%s,%d)%s [%d][%d] = %s, exact %s" % (
                        fr(u), fr(v), order, ' [alternative evaluator]' if c.data['alt'] else '', k, l, show_list(got[k][l]), show_list(want[k][l]))
        return None
    o = S.build(d)
    if c.kind in ('tanc', 'tans', 'nrms', 'sdcpts37'):
        return _oracle_tn(c, d, o)
    if c.kind in ('tancn', 'tansn', 'nrmsn'):
        return _oracle_norm(c, d, o)
    if c.kind == 'hodograph-curve':
        u = c.data['u']
        h = operations.derivative_curve(o)
        hd = S.from_obj(h)
        want = J.curve_ders(d, u, 1)[1]
        # the hodograph has the same parameter domain (knot vector U[1:-1]); its constructor normalises
        lo, hi = d['kv'][d['p']], d['kv'][d['n']]
        hlo, hhi = hd['kv'][hd['p']], hd['kv'][hd['n']]
        if (hlo, hhi) != (lo, hi):
            # the constructor builds a fresh object whose knot-vector setter normalises U[1:-1]: the hodograph is
            # then parametrised over another interval than the curve (recorded finding F-02c); apart from that
            # re-parametrisation it must still carry the derivative
            uu = hlo + (u - lo) / (hi - lo) * (hhi - hlo)
            if S.eval_ref(hd, [uu]) != want:
                return "derivative_curve: even at the affinely mapped parameter %s the hodograph gives %s, exact first derivative %s" % (fr(uu), show_list(S.eval_ref(hd, [uu])), show_list(want))
            return "derivative_curve returns a hodograph parametrised over [%s,%s], the curve's domain is [%s,%s]: evaluated at the same parameter it is not the derivative" % (fr(hlo), fr(hhi), fr(lo), fr(hi))
        got = S.eval_ref(hd, [u])
        if [x for x in got] != [w for w in want]:
            return "derivative_curve evaluated at %s gives %s, exact first derivative %s" % (fr(u), show_list(got), show_list(want))
        return None
    if c.kind == 'hodograph-surface':
        if d['rat']:
            return None
        u, v = c.data['u'], c.data['v']
        try:
            hs = operations.derivative_surface(o)
        except ZeroDivisionError:
            return "derivative_surface raised ZeroDivisionError"
        ex = J.surface_ders(d, u, v, 1)
        for name, h, want in (('u', hs[0], ex[1][0]), ('v', hs[1], ex[0][1]), ('uv', hs[2], ex[1][1])):
            hd = S.from_obj(h)
            doms = [(kv[p], kv[n]) for (p, kv, n) in S.dirs(d)]
            hdoms = [(kv[p], kv[n]) for (p, kv, n) in S.dirs(hd)]
            if doms != hdoms:
                if S.eval_ref(hd, _map(d, hd, [u, v])) != want:
                    return "derivative_surface[%s]: even at the affinely mapped parameters the hodograph gives %s, exact %s" % (name, show_list(S.eval_ref(hd, _map(d, hd, [u, v]))), show_list(want))
                return "derivative_surface[%s] is parametrised over %s, the surface's domain is %s: evaluated at the same parameters it is not the derivative" % (
                    name, [tuple(map(fr, x)) for x in hdoms], [tuple(map(fr, x)) for x in doms])
            got = S.eval_ref(hd, [u, v])
            if got != want:
                return "derivative_surface[%s] at (%s,%s) gives %s, exact %s" % (name, fr(u), fr(v), show_list(got), show_list(want))
        return None
    if c.kind == 'tangent-curve':
        us = c.data['us']
        want = [J.curve_ders(d, u, 1) for u in us]
        single = [operations.tangent(o, q(u), normalize=False) for u in us]
        lst = operations.tangent(o, [q(u) for u in us], normalize=False)
        for u, w, a, b in zip(us, want, single, lst):
            if list(a[0]) != w[0] or list(a[1]) != w[1]:
                return "operations.tangent(curve, %s) is not (point, first derivative)" % fr(u)
            if list(b[0]) != w[0] or list(b[1]) != w[1]:
                return "operations.tangent(curve, [..]) differs from the single-parameter call at %s" % fr(u)
        if any(x != 0 for x in want[0][1]):        # a zero derivative cannot be normalised (the library raises, rightly)
            nn = operations.tangent(o, q(us[0]), normalize=True)
            ln = sum(float(x) ** 2 for x in nn[1])
            if abs(ln - 1.0) > 1e-12:
                return "normalised tangent has squared length %r" % ln
        return None
    if c.kind == 'tangent-normal-list':
        uvs = c.data['uvs']
        prm = [(q(u), q(v)) for u, v in uvs]
        tl = operations.tangent(o, prm, normalize=False)
        nl = operations.normal(o, prm, normalize=False) if d['dim'] == 3 else None
        for k_, (u, v) in enumerate(uvs):
            ex = J.surface_ders(d, u, v, 1)
            if list(tl[k_][0]) != ex[0][0] or list(tl[k_][1]) != ex[1][0] or list(tl[k_][2]) != ex[0][1]:
                return "operations.tangent(surface, [..]) entry %d differs from the exact first derivatives" % k_
            if nl is not None:
                a, b = ex[1][0], ex[0][1]
                cross = [a[1] * b[2] - a[2] * b[1], a[2] * b[0] - a[0] * b[2], a[0] * b[1] - a[1] * b[0]]
                if list(nl[k_][0]) != ex[0][0] or list(nl[k_][1]) != cross:
                    return "operations.normal(surface, [..]) entry %d is not (point, S_u x S_v)" % k_
        return None
    if c.kind == 'tangent-normal':
        u, v = c.data['u'], c.data['v']
        ex = J.surface_ders(d, u, v, 1)
        t = operations.tangent(o, (q(u), q(v)), normalize=False)
        if list(t[1]) != ex[1][0] or list(t[2]) != ex[0][1] or list(t[0]) != ex[0][0]:
            return "operations.tangent at (%s,%s) differs from the exact first derivatives" % (fr(u), fr(v))
        nrm = operations.normal(o, (q(u), q(v)), normalize=False)
        a, b = ex[1][0], ex[0][1]
        if len(a) == 3:
            cross = [a[1] * b[2] - a[2] * b[1], a[2] * b[0] - a[0] * b[2], a[0] * b[1] - a[1] * b[0]]
            if list(nrm[1]) != cross:
                return "operations.normal is not the cross product of the two tangents"
            if sum(x * y for x, y in zip(cross, a)) != 0 or sum(x * y for x, y in zip(cross, b)) != 0:
                return "normal not orthogonal to the tangents"
            if any(x != 0 for x in cross):
                nn = operations.normal(o, (q(u), q(v)), normalize=True)
                ln = sum(float(x) ** 2 for x in nn[1])
                if abs(ln - 1.0) > 1e-12:
                    return "normalised normal has squared length %r" % ln
        return None
    return None


def _oracle_tn(c, d, o):
    """tangent / normal (single and list variants) against the exact jets; A3.7 control points: evaluating
    level (k, l) with the basis functions of degrees (pu - k, pv - l) gives the exact mixed derivative"""
    from geomdl import operations
    if c.kind == 'tanc':
        us = c.data['us']
        res = operations.tangent(o, [q(x) for x in us], normalize=False) if c.data['aslist'] else (operations.tangent(o, q(us[0]), normalize=False),)
        for u, (pt, vec) in zip(us, res):
            ex = J.curve_ders(d, u, 1)
            if list(pt) != ex[0] or list(vec) != ex[1]:
                return "operations.tangent(curve, %s) is not (point, exact first derivative)" % fr(u)
        return None
    if c.kind in ('tans', 'nrms'):
        ps = list(zip(c.data['us'], c.data['vs']))
        f = operations.tangent if c.kind == 'tans' else operations.normal
        qp = [(q(a), q(b)) for a, b in ps]
        res = f(o, qp, normalize=False) if c.data['aslist'] else (f(o, qp[0], normalize=False),)
        if len(res) != len(ps):
            return "operations.%s returned %d results for %d parameter pairs" % (f.__name__, len(res), len(ps))
        for (u, v), r in zip(ps, res):
            ex = J.surface_ders(d, u, v, 1)
            a, b = ex[1][0], ex[0][1]
            if list(r[0]) != ex[0][0]:
                return "operations.%s at (%s,%s): first entry is not the surface point" % (f.__name__, fr(u), fr(v))
            if c.kind == 'tans':
                if list(r[1]) != a or list(r[2]) != b:
                    return "operations.tangent at (%s,%s) differs from the exact first partial derivatives" % (fr(u), fr(v))
            else:
                a3, b3 = (a + [F(0)])[:3], (b + [F(0)])[:3]
                cross = [a3[1] * b3[2] - a3[2] * b3[1], a3[2] * b3[0] - a3[0] * b3[2], a3[0] * b3[1] - a3[1] * b3[0]]
                if list(r[1]) != cross:
                    return "operations.normal at (%s,%s) is not the cross product of the exact partial derivatives" % (fr(u), fr(v))
        return None
    return None


def _unit_multiple(n, t):
    """None if `n` is `t / m` for ONE number m > 0 with m*m = |t|^2 up to the rounding of a double square root
    (relative 2^-49 on the square), else a sentence"""
    n = [x.q if hasattr(x, 'q') else F(x) for x in n]
    if len(n) != len(t):
        return "has %d coordinates instead of %d" % (len(n), len(t))
    ssq = sum((x * x for x in t), F(0))
    k = max(range(len(t)), key=lambda i: abs(t[i]))
    if n[k] == 0:
        return "is zero in the dominant coordinate of the exact vector"
    m = t[k] / n[k]
    if m <= 0:
        return "points against the exact vector"
    if any(x * m != y for x, y in zip(n, t)):
        return "is not parallel to the exact vector"
    if abs(m * m - ssq) > ssq * F(1, 2 ** 49):
        return "has squared length %s, not 1 up to rounding" % fr(ssq / (m * m))
    return None


def _oracle_norm(c, d, o):
    """normalize=True: the point is the exact point, every returned vector is the exact first derivative (cross product
    of the exact partials) divided by one positive number that is its length up to rounding; a vanishing vector must be
    refused (ValueError of vector_normalize) - single and list calls"""
    from geomdl import operations
    if c.kind == 'tancn':
        prm = [q(x) for x in c.data['us']]
        exs = [J.curve_ders(d, u, 1) for u in c.data['us']]
        want = [(ex[0], [ex[1]]) for ex in exs]
        f, name = operations.tangent, 'tangent(curve'
    else:
        prm = [(q(a), q(b)) for a, b in zip(c.data['us'], c.data['vs'])]
        exs = [J.surface_ders(d, u, v, 1) for u, v in zip(c.data['us'], c.data['vs'])]
        if c.kind == 'tansn':
            want = [(ex[0][0], [ex[1][0], ex[0][1]]) for ex in exs]
            f, name = operations.tangent, 'tangent(surface'
        else:
            want = [(ex[0][0], [_cross3(ex[1][0], ex[0][1])]) for ex in exs]
            f, name = operations.normal, 'normal(surface'
    vanishing = any(all(x == 0 for x in t) for _, ts in want for t in ts)
    try:
        res = f(o, prm, normalize=True) if c.data['aslist'] else (f(o, prm[0], normalize=True),)
    except ValueError:
        return None if vanishing else "operations.%s, .., normalize=True) raised ValueError although no vector to normalise vanishes" % name
    if vanishing:
        return "operations.%s, .., normalize=True) returned a result although a vector to normalise is zero" % name
    if len(res) != len(want):
        return "operations.%s, .., normalize=True) returned %d results for %d parameters" % (name, len(res), len(want))
    for k_, (r, (pt, ts)) in enumerate(zip(res, want)):
        if list(r[0]) != pt:
            return "operations.%s, .., normalize=True) entry %d: first entry is not the exact point" % (name, k_)
        if len(r) != 1 + len(ts):
            return "operations.%s, .., normalize=True) entry %d has %d components" % (name, k_, len(r))
        for n, t in zip(r[1:], ts):
            why = _unit_multiple(list(n), t)
            if why:
                return "operations.%s, .., normalize=True) entry %d: a normalised vector %s" % (name, k_, why)
    return None


def classify(c, why):
    if c.kind in ('hodograph-curve', 'hodograph-surface') and 'parametrised over' in why:
        return 'F-02c'
    if c.kind == 'hodograph-surface' and why == "derivative_surface raised ZeroDivisionError":
        d = c.data['shape']
        for (p, kv, n) in S.dirs(d):
            if any(sum(1 for y in kv if y == x) >= p for x in set(kv[p + 1:n])):
                return 'F-02b'
    return None


def witness(fid):
    if fid == 'F-02b':
        from geomdl import BSpline, operations
        s = BSpline.Surface()
        s.degree_u, s.degree_v = 2, 2
        s.set_ctrlpts([[q(i), q(j), q((i * j) % 3)] for i in range(3) for j in range(5)], 3, 5)
        s.knotvector_u = qs([0, 0, 0, 1, 1, 1])
        s.knotvector_v = qs([0, 0, 0, F(1, 2), F(1, 2), 1, 1, 1])
        try:
            operations.derivative_surface(s)
        except ZeroDivisionError:
            return "ZeroDivisionError"
        return None
    if fid == 'F-02c':
        from geomdl import BSpline, operations
        c = BSpline.Curve(normalize_kv=False)
        c.degree = 2
        c.ctrlpts = [[q(0), q(0)], [q(1), q(2)], [q(3), q(1)]]
        c.knotvector = qs([0, 0, 0, 2, 2, 2])
        h = operations.derivative_curve(c)
        dh = [x.q if hasattr(x, 'q') else F(x) for x in h.evaluate_single(q(1))]
        dc = [x.q if hasattr(x, 'q') else F(x) for x in c.derivatives(q(1), 1)[1]]
        if dh != dc:
            return "hodograph(1) = %s, C'(1) = %s (hodograph domain %s)" % (show_list(dh), show_list(dc), [fr(x) for x in h.domain])
        return None
    return None
