"""C10  Translation, rotation and scaling act on the shape as on its points."""
import math
from fractions import Fraction as F
from core import Case, q, qs, fr, show_list, show_pts
import gen as G
import shapes as S
import knotops as KO

PID = 'C10'
FLOAT_KINDS = {'xform'}      # float-mode companion (core.float_companion)
FLOAT_TOL = 1e-8
STATS = G.STATS
PARTIAL = [
    "cos / sin of the angle are passed to the model as the doubles Python computes (no use of c^2 + s^2 = 1 is made; the theorem holds for any c, s)",
    "object identity (inplace vs copy) is a runtime notion: checked by the oracle (id(), snapshot of the input), not a Lean theorem",
    "containers (translateAll / scaleAll / rotateAll on the list of elements, one common rotation centre = the evaluated start point of the first element): every element is assumed well-formed with the same number d of coordinates (the container's add enforces one spatial dimension); that the container holds exactly the objects it was given, in order, and that iteration visits them in order is the list model itself (checked by the stream xformc and the oracle, not a theorem about multi.AbstractContainer)",
    "end-to-end statements (model's translate / scale / rotate on a Shape, evaluation through the span search, whole closed domain, curves / surfaces / volumes, rational and not, any finite sequence of calls) assume a well-formed shape (ShapeWF = the driver's shapeOk / the library's setters: degree >= 1, a knot list of exactly size + degree + 1 sorted knots, at least degree + 1 control points and a non-empty last span per direction, net of the right size) and, for rational shapes, positive weights; rotate is stated for 2-D and 3-D points (the only cases the library's formulas are meant for) and axis 0, 1 or 2 (for other values operations.rotate raises; also part of Xform.Ok for sequences)",
]


def _xform(rng, d):
    dim = d['dim']
    r = rng.random()
    if r < .35:
        vec = [F(rng.randint(-9, 9), rng.choice([1, 2, 3])) for _ in range(dim)]
        return ('T', vec)
    if r < .6:
        return ('S', F(rng.randint(-7, 9), rng.choice([1, 2, 4])))
    ang = rng.choice([30, 45, 90, 17, 123, -60, 360, 0, F(75, 2)])
    axis = rng.randint(0, 2)
    return ('R', axis, ang)


_CS = {}


def _cs(ang, axis=2, dim=3):
    """cos / sin AS THE IMPLEMENTATION USED THEM: read off the image of a unit vector under operations.rotate of a
    probe polygon whose start point is the origin (any correctly rounded route to the angle in radians, a table for
    90 degrees, ... differs from math.cos(math.radians(a)) in the last digit at most; the affine-map property is
    then checked exactly with THESE values).  They must be the cosine / sine up to rounding, and the probe must be
    mapped by the rotation matrix they define - otherwise the textbook doubles are used and the disagreement shows."""
    rot = math.radians(float(ang))
    ref = (F(math.cos(rot)), F(math.sin(rot)))
    if dim == 2:
        axis = 2
    key = (F(ang), axis, dim)
    if key in _CS:
        return _CS[key]
    res = ref
    try:
        from geomdl import BSpline, operations
        e = [[F(1) if i == j else F(0) for i in range(dim)] for j in range(dim)]
        c = BSpline.Curve()
        c.degree = 1
        c.ctrlpts = [[q(F(0)) for _ in range(dim)]] + [[q(x) for x in v] for v in e]
        n = dim + 1
        c.knotvector = [q(F(0))] + [q(F(i, n - 1)) for i in range(n)] + [q(F(1))]
        r = operations.rotate(c, q(F(ang)), axis=axis)
        img = [[F(fr(x)) for x in pt] for pt in r.ctrlpts][1:]
        a, b = {2: (0, 1), 0: (1, 2), 1: (0, 2)}[axis]            # the plane the rotation acts in
        cc, ss = img[a][a], img[a][b]
        ok = abs(cc - ref[0]) <= F(1, 10 ** 15) and abs(ss - ref[1]) <= F(1, 10 ** 15) and img[b][a] == -ss and img[b][b] == cc
        if ok:
            res = (cc, ss)
    except Exception:
        pass
    _CS[key] = res
    return res


def gen(rng, tier):
    out = []
    n = 110 if tier == 'quick' else 1500
    for _ in range(n):
        d = KO.rand_shape(rng) if rng.random() < .8 else S.rand_curve(rng, maxp=4, clamped=False)   # unclamped: start point != first control point
        x = _xform(rng, d)
        if rng.random() < .08:
            x = ('T', [F(0)] * d['dim'])          # the identity translation must still return a new object
        inplace = rng.random() < .5
        G.count('xform', x[0]); G.count('inplace', inplace)
        if x[0] == 'T':
            tail = "T %s" % show_list(x[1])
        elif x[0] == 'S':
            tail = "S %s" % fr(x[1])
        else:
            c, s = _cs(x[2], x[1], d['dim'])
            tail = "R %d %s %s" % (x[1], fr(c), fr(s))
        line = "xform %s %s %s" % (KO.KIND[d['kind']], S.args(d), tail)
        out.append(Case('xform', line, dict(shape=d, x=list(x), inplace=inplace)))
    for _ in range(12 if tier == 'quick' else 150):
        ds = [S.rand_curve(rng, maxp=3, dim=3) for _ in range(rng.randint(1, 3))]
        x = _xform(rng, ds[0])
        out.append(Case('container', None, dict(shapes=ds, x=list(x), inplace=rng.random() < .5)))
    # containers against the model (translateAll / scaleAll / rotateAll): 1-3 elements of one kind and one spatial
    # dimension (the container refuses anything else), rational and non-rational mixed, degrees / sizes independent,
    # the first element sometimes unclamped (its start point - the common rotation centre - is then not a control point)
    for k in range(45 if tier == 'quick' else 600):
        kind = ('curve', 'surface', 'volume')[k % 3] if k < 30 else rng.choice(['curve', 'curve', 'surface', 'volume'])
        m = rng.randint(1, 3)
        dim = rng.choice([2, 3, 3]) if kind != 'volume' else 3
        ds = []
        for i in range(m):
            uncl = (i == 0 and rng.random() < .35)
            if kind == 'curve':
                ds.append(S.rand_curve(rng, maxp=4, dim=dim, clamped=not uncl))
            elif kind == 'surface':
                ds.append(S.rand_surface(rng, maxp=3, dim=dim, max_interior=2, clamped=not uncl))
            else:
                ds.append(S.rand_volume(rng, maxp=2, dim=dim, max_interior=1, clamped=not uncl))
        x = _xform(rng, ds[0])
        out.append(_ccase(kind, ds, x, rng.random() < .5))
        G.count('container', '%s x%d' % (kind, m)); G.count('container-xform', x[0])
        G.count('container-rat', ''.join('r' if d['rat'] else 'n' for d in ds))
    # the empty container: translate (dimension 0: every vector is refused) and rotate (geom[0]) raise, scale returns an
    # empty container; and a wrong vector length / axis on a non-empty one
    for kind in ('curve', 'surface', 'volume'):
        for x in (('T', [F(1), F(2), F(3)]), ('S', F(3, 2)), ('R', 2, 30), ('R', 0, 90)):
            out.append(_ccase(kind, [], x, rng.random() < .5, dim=3))
    for _ in range(6 if tier == 'quick' else 60):
        ds = [S.rand_curve(rng, maxp=3, dim=3) for _ in range(rng.randint(1, 3))]
        x = ('T', [F(rng.randint(-3, 3)) for _ in range(rng.choice([1, 2, 4]))]) if rng.random() < .6 else ('R', rng.choice([3, 4, 7]), 30)
        out.append(_ccase('curve', ds, x, rng.random() < .5))
    return out


def _ccase(kind, ds, x, inplace, dim=None):
    dim = ds[0]['dim'] if ds else dim
    if x[0] == 'T':
        tail = "T %s" % show_list(x[1])
    elif x[0] == 'S':
        tail = "S %s" % fr(x[1])
    else:
        c, s = _cs(x[2], x[1] if 0 <= x[1] <= 2 else 2, dim)
        tail = "R %d %s %s" % (x[1], fr(c), fr(s))
    line = "xformc %d %s%s" % (len(ds), "".join("%s %s " % (KO.KIND[d['kind']], S.args(d)) for d in ds), tail)
    return Case('xformc', line, dict(ckind=kind, shapes=ds, x=list(x), inplace=inplace))


def _container(kind, objs):
    from geomdl import multi
    cls = dict(curve=multi.CurveContainer, surface=multi.SurfaceContainer, volume=multi.VolumeContainer)[kind]
    return cls(*objs) if objs else cls()


_PRE = [0]


def _prehistory(o, key):
    """read-only things a caller may have done before the transformation (about every second case, decided by the case's own data so that a replay does the same): a container that was iterated
    and the loop left early; a shape whose sampled points were computed over a PART of its domain"""
    if not key % 2:
        return
    from geomdl import multi
    try:
        if isinstance(o, multi.AbstractContainer):
            for g_ in o:
                break
        else:
            dom = o.domain if o.pdimension > 1 else [o.domain]
            lo, hi = dom[0]
            mid = lo + (hi - lo) / 2
            if o.pdimension == 1:
                o.evaluate(start=mid)
            else:
                o.evaluate(start_u=mid)
    except Exception:
        pass


def _apply(o, x, inplace):
    from geomdl import operations
    import zlib
    _prehistory(o, zlib.crc32(repr((x, inplace, type(o).__name__)).encode()))
    if x[0] == 'T':
        return operations.translate(o, [q(v) for v in x[1]], inplace=inplace)
    if x[0] == 'S':
        return operations.scale(o, q(x[1]), inplace=inplace)
    return operations.rotate(o, q(F(x[2])), axis=x[1], inplace=inplace)


def impl(c):
    if c.kind == 'xformc':
        objs = [S.build(d) for d in c.data['shapes']]
        cont = _container(c.data['ckind'], objs)
        if len(cont) != len(objs):
            return "an element was not accepted by the container"
        r = _apply(cont, c.data['x'], c.data['inplace'])
        els = [KO.show_shape(S.from_obj(o)) for o in r]
        return " # ".join(els) if els else "EMPTY"
    o = S.build(c.data['shape'])
    r = _apply(o, c.data['x'], c.data['inplace'])
    return KO.show_shape(S.from_obj(r))


def _pointmap(x, origin):
    """the same map, applied to a point (exact: cos / sin are the doubles the library uses)"""
    if x[0] == 'T':
        return lambda pt: [a + b for a, b in zip(pt, x[1])]
    if x[0] == 'S':
        return lambda pt: [a * x[1] for a in pt]
    c, s = _cs(x[2], x[1], len(origin))
    axis = x[1]

    def rot(pt):
        p = [a - o for a, o in zip(pt, origin)]
        if len(p) == 2 or axis == 2:
            r = [p[0] * c - p[1] * s, p[1] * c + p[0] * s] + p[2:]
        elif axis == 0:
            r = [p[0], p[1] * c - p[2] * s, p[2] * c + p[1] * s]
        else:
            r = [p[0] * c - p[2] * s, p[1], p[2] * c + p[0] * s]
        return [a + o for a, o in zip(r, origin)]
    return rot


def _start(d):
    return S.eval_ref(d, [kv[p] for (p, kv, n) in S.dirs(d)])


def _check_one(before, after, x, origin):
    import itertools
    f = _pointmap(x, origin)
    if before['rat']:
        wb = [pt[-1] for pt in before['P']]; wa = [pt[-1] for pt in after['P']]
        if wa != wb:
            return "weights changed"
    for combo in itertools.product(*KO.probe_params(before)):
        a = f(S.eval_ref(before, list(combo)))
        b = S.eval_ref(after, list(combo))
        if a != b:
            return "point at %s: the map of the original point is %s, the transformed shape gives %s" % (tuple(map(fr, combo)), show_list(a), show_list(b))
    return None


def oracle(c):
    x = c.data['x']
    inplace = c.data['inplace']
    if c.kind == 'xform':
        d = c.data['shape']
        o = S.build(d)
        before = S.from_obj(o)
        r = _apply(o, x, inplace)
        if inplace:
            if r is not o:
                return "inplace=True returned a different object"
        else:
            if r is o:
                return "inplace=False returned the input object"
            if S.from_obj(o) != before:
                return "inplace=False modified the input"
            if before['rat']:
                # every public view: read the result's views first, then the input's (a copy that shares
                # lazily filled state with its source shows here)
                def views(obj):
                    return ([[c_.q if hasattr(c_, 'q') else F(c_) for c_ in pt] for pt in obj.ctrlpts],
                            [w_.q if hasattr(w_, 'q') else F(w_) for w_ in obj.weights])
                views(r)
                cp, ws = views(o)
                want_w = [pt[-1] for pt in before['P']]
                want_cp = [[c_ / pt[-1] for c_ in pt[:-1]] for pt in before['P']]
                if cp != want_cp or ws != want_w:
                    return "inplace=False: after reading the result's ctrlpts / weights the input reports other ctrlpts / weights than before"
        return _check_one(before, S.from_obj(r), x, _start(before))
    ds = c.data['shapes']
    objs = [S.build(d) for d in ds]
    cont = _container(c.data.get('ckind', 'curve'), objs)
    before = [S.from_obj(o) for o in objs]
    try:
        r = _apply(cont, x, inplace)
    except Exception:
        # refused input (empty container for translate / rotate, wrong vector length, wrong axis): nothing may have changed
        if [S.from_obj(o) for o in objs] != before or len(cont) != len(objs):
            return "the call raised and the container was modified"
        return None
    if not ds:
        return None if len(r) == 0 else "an empty container became non-empty"
    origin = _start(before[0])      # one common rotation centre: the start point of the first element
    res = [S.from_obj(o) for o in r]
    if len(res) != len(before):
        return "the number of elements changed"
    if not inplace:
        if r is cont:
            return "inplace=False returned the input container"
        if any(a is b for a in r for b in objs):
            return "inplace=False: the result shares an element object with the input"
        if [S.from_obj(o) for o in objs] != before or [o for o in cont] != objs:
            return "inplace=False modified the container's elements"
    else:
        if r is not cont:
            return "inplace=True returned a different container"
        if len(list(r)) != len(objs) or any(a is not b for a, b in zip(r, objs)):
            return "inplace=True: the elements are not the same objects"
    for b, a in zip(before, res):
        if (b['kind'], b['rat'], S.dirs(b)) != (a['kind'], a['rat'], S.dirs(a)):
            return "container element: degrees / knot vectors / sizes / rational flag changed"
        why = _check_one(b, a, x, origin)
        if why:
            return "container element: " + why
    return None
