"""C17  Results do not depend on configuration choices."""
import os, sys, json, subprocess
from fractions import Fraction as F
from core import Case, q, qs, fr, show_list, show_pts, REPO, VERIF
import gen as G
import shapes as S
import knotops as KO

PID = 'C17'
FLOAT_KINDS = {'knot-range', 'ders-config'}      # float-mode companion (core.float_companion)
FLOAT_TOL = 1e-6
STATS = G.STATS
PARTIAL = [
    "process pools (multi.*Container.tessellate, voxelize with num_procs) are runtime behaviour: compared across num_procs in {1,2,4,8} by the harness in floating point; the Lean side only has 'an order preserving map is List.map'",
    "GEOMDL_CACHE_SIZE: the Lean theorem is about an abstract LRU cache of any capacity (functools.lru_cache itself is trusted); the harness imports the package in sub-interpreters under each setting and compares a fixed knot-operation scenario",
    "knot range: proved for curve / surface / volume POINT evaluation, for curve and surface DERIVATIVES (chain-rule factors a^-k, a1^-k*a2^-l; basis tables, A2.3 as coded, rational A4.2 / A4.4; knotvector.normalize: factor (last-first)^k), for knot insertion / removal / refinement at helper level and for one direction of insert_knot / remove_knot / refine_knotvector, for split (identical pieces), and NOW ALSO for the whole calls: insertKnot / removeKnot / refineKnotvector (the folds over the directions, any subset requested, completed / raised flag included) on the shape with EVERY knot vector mapped by its own x -> a_d*x + b_d (Shape.affineKvs; hypotheses only for the requested directions: a_d > 0, non-empty knot vector, and either tol' = a_d*tol for each of them - one common factor or tol = 0, since the call has ONE tolerance - or, for insert / remove, the same tolerance with the separation hypothesis per requested direction and arbitrary per-direction factors), split of a shape mapped in all directions (pieces identical: every direction is normalised), decomposeDirE and decomposeUVE - the decomposition WITH the exceptions of the code, what the driver op decomp runs - (same tolerance, separation hypothesis for the FIRST interior knot of the direction only; conclusion: both sides answer the same - both raise (a rejected first split, e.g. an end knot repeated p+2 times, is an exception on both ranges: decompose_rejected_first_split_raises_on_both_ranges) or both return the identical list of pieces -, or nothing is split on either side because there is no fuel / no interior knot and each returns its own un-normalised object; *_when_split: same answer as soon as there is an interior knot, for decomposeUVE then without any hypothesis about the v range; *_when_split_pieces: when the code does not raise the common answer is the list of the plain model decomposeDir). NOT theorems: volume derivatives (library stub); a scaled-tolerance form of decompose_* (false in general: after the first split both sides continue on the identical normalised piece, so the tolerances must agree); per-direction different factors with a scaled tolerance in ONE insert_knot / remove_knot / refine_knotvector call (the call has one tolerance; tol' = a_d*tol must hold for every requested direction); and the fixed tolerance of the code in REFINEMENT: the refinement theorems (helper, one direction, whole call) scale find_multiplicity's tolerance with the knot range (a*tol), i.e. they assume no knot distance falls between tol and a*tol (insert_knot / remove_knot / split / decompose have same-tolerance versions under the explicit hypothesis that every knot equals the parameter or is further than tol away in both ranges). The real operations are additionally run on both knot ranges by the oracle stream knot-range-ops (insert, insert+remove, refine on any subset of directions of curves / surfaces / volumes, decompose_curve / decompose_surface u / v / uv; exact arithmetic, no model involved)",
    "evaluator family: the evaluators AS CODED agree - CurveEvaluator (curveDersA32, A3.2 over A2.3) = CurveEvaluator2 (curveDersAt, A3.3/A3.4) in every entry k <= order (curve_evaluators_as_coded_agree), SurfaceEvaluator2 (surfaceDersA38, A3.7 + A3.8) = SurfaceEvaluator (surfaceDersA36, A3.6) in every entry with k + l <= order (surface_evaluators_as_coded_agree; the other entries of A3.8 stay zero) - on non-empty spans of sorted knot vectors inside the net (both sides equal the true derivative, C02); chain rule under an affine knot map also for the DEFAULT evaluators as coded through the span search on the closed domain (default_curve_derivatives_affine_knots, default_surface_derivatives_affine_knots); the theorems about curveDers / surfaceDersAt are about the A3.3/A3.4 evaluator resp. the tensor model, NOT about the default evaluator (their docs say so)",
    "span search option: termination / legal span index of find_span_binsearch on the whole domain is a theorem without the F-17b hypothesis, for tolerances 0 < tol < 1/2 only (the model's start index (p+n+1)/2 is the code's int(round((low+high)/2 + tol)) only there; with tol = 9 the real code raises IndexError; the driver runs the shipped tolerance 10e-6); equality with the linear search still needs the F-17b hypothesis (recorded finding)",
    "evaluation with find_span_binsearch selected: curve / rational curve / surface / volume points and curve derivatives (both evaluators as coded) on the span the binary search returns are the Cox-de Boor sums / true derivatives on the whole closed domain (*_binsearch_selected, binsearch_span_found, binsearch_selected_any_span_function) for knot vectors with a NON-EMPTY last domain span (KnotsOk; the five statements are about findSpanBin, the search without the step back of the F-01b repair - BinTolOk alone is not enough: U = [0,0,1,2,4,4,5,5], p = 2, u = 4 meets it and findSpanBin returns the empty span 4) and under BinTolOk (0 < tol < 1/2 and the F-17b separation hypothesis, per direction; implied for every parameter by 'last span longer than the tolerance'); without it the evaluated point differs (curve_eval_binsearch_refuted_F17b). Surface derivatives / rational surfaces and volumes with the binary search follow from the span equality only (no separate statement). LIFTED to the repaired searches for point evaluation (statement audit 5): curve_/surface_/volume_eval_binsearchR_selected - on EVERY valid knot vector (DomOk: the last domain span may be empty), 0 < tol, 2 tol < 1 and the end hypothesis of findSpanBinR_eq_linearR per direction, the span(s) findSpanBinR returns are those of findSpanLinearR and the point computed on them is curvePointR / surfacePointR / volumePointR, i.e. the point of C01's *_eval_repaired_closed theorems (stream span-func tagged empty-last-span: find_span_binsearch selected on such shapes at U_n, model line cevalr / sevalr / vevalr). NOT lifted: derivatives with the binary search selected on knot vectors with an empty last span",
]
TRUSTED = ["CPython functools.lru_cache implements the LRU contract", "multiprocessing.Pool.map preserves order"]
OPS = {'curve': 'ceval', 'surface': 'seval', 'volume': 'veval'}


def gen(rng, tier):
    out = []
    n = 90 if tier == 'quick' else 1200
    for _ in range(n):
        d = KO.rand_shape(rng)
        ps = S.rand_params(rng, d)
        r = rng.random()
        if r < .45:
            # binary span search selected on the object; tolerance-safe parameters only (F-17b is C03's finding)
            ok = True
            for (p, kv, kn), u in zip(S.dirs(d), ps):
                end = kv[kn]
                if any(0 < end - t <= F(1, 50000) for t in kv) or 0 < end - u <= F(1, 50000):
                    ok = False
            if not ok:
                continue
            line = "%s %s %s" % (OPS[d['kind']], S.args(d), " ".join(fr(x) for x in ps))
            out.append(Case('span-func', line, dict(shape=d, params=ps)))
        else:
            # same geometry with knots kept in an affine range vs normalised to [0,1]
            if all(S.unit_range(kv) for (_, kv, _) in S.dirs(d)):
                continue
            dn = dict(d)
            for key in ('kv', 'kvu', 'kvv', 'kvw'):
                if key in d:
                    kv = d[key]
                    dn[key] = [(x - kv[0]) / (kv[-1] - kv[0]) for x in kv]
            pn = [(u - kv[0]) / (kv[-1] - kv[0]) for (p, kv, kn), u in zip(S.dirs(d), ps)]
            line = "%s %s %s" % (OPS[d['kind']], S.args(dn), " ".join(fr(x) for x in pn))
            out.append(Case('knot-range', line, dict(shape=d, params=ps, nparams=pn)))
    # knot OPERATIONS on another knot range (oracle only, real code on both ranges, exact arithmetic): the whole calls
    # insert_knot / remove_knot / refine_knotvector with any subset of directions, decompose_curve / decompose_surface
    for _ in range(40 if tier == 'quick' else 500):
        d = KO.rand_shape(rng)
        am = [(F(rng.choice([2, 3, F(1, 2), F(5, 3), 1])), F(rng.randint(-3, 3))) for _ in S.dirs(d)]
        if all(a == 1 and b == 0 for a, b in am):
            continue
        op = rng.choice(['insert', 'insert-remove', 'refine', 'decompose'])
        data = dict(shape=d, amap=am, op=op)
        if op in ('insert', 'insert-remove'):
            prm, nr, nt = [], [], []
            for (p_, kv, n) in S.dirs(d):
                ks = sorted(set(kv[p_:n + 1]))
                cands = [x for x in ks[1:-1]] + [(x + y) / 2 for x, y in zip(ks, ks[1:])]
                u = rng.choice(cands)
                room = p_ - sum(1 for x in kv if x == u)
                if rng.random() < .3 or room < 1:
                    prm.append(None); nr.append(0); nt.append(0)
                else:
                    r = rng.randint(1, room)
                    prm.append(u); nr.append(r); nt.append(rng.randint(1, r))
            if all(x is None for x in prm):
                continue
            data.update(prm=prm, nr=nr, nt=nt)
        elif op == 'refine':
            dens = [rng.choice([0, 1, 1]) for _ in S.dirs(d)]
            if not any(dens):
                dens[0] = 1
            data.update(dens=dens)
        else:
            if d['kind'] == 'volume':
                continue
            data.update(dirs=rng.choice(['u', 'v', 'uv']))
        G.count('knot_range_op', (op, d['kind']))
        out.append(Case('knot-range-ops', None, data))
    # decompose with a REJECTED first split (audit 4, H1): the first knot of U[p+1:-(p+1)] lies on a domain end (end knot
    # repeated p+2 times; G.knots never generates it) - decompose_curve / decompose_surface raise "Cannot split from the
    # domain edge" on BOTH knot ranges (decompose_affine_knots: both sides answer none)
    for _ in range(4 if tier == 'quick' else 30):
        p_ = rng.randint(1, 3)
        inner = sorted(F(rng.randint(1, 9), 10) for _ in range(rng.randint(0, 2)))
        kv = ([F(0)] * (p_ + 2) + inner + [F(1)] * (p_ + 1)) if rng.random() < .5 else ([F(0)] * (p_ + 1) + inner + [F(1)] * (p_ + 2))
        n = len(kv) - p_ - 1
        if rng.random() < .6:
            d = dict(kind='curve', rat=False, p=p_, kv=kv, n=n, P=G.points(rng, n, 2), dim=2)
            dirs = 'u'
        else:
            kvv, sv = G.knots(rng, 1, max_interior=1, allow_range=False)
            d = dict(kind='surface', rat=False, pu=p_, pv=1, kvu=kv, kvv=kvv, su=n, sv=sv, P=G.points(rng, n * sv, 3), dim=3)
            dirs = rng.choice(['u', 'uv'])
        am = [(F(rng.choice([2, 3, F(1, 2)])), F(rng.randint(-3, 3))) for _ in S.dirs(d)]
        G.count('knot_range_op', ('decompose-rejected', d['kind']))
        out.append(Case('knot-range-ops', None, dict(shape=d, amap=am, op='decompose', dirs=dirs, rejected=True)))
    # derivatives under every configuration (binary span search x alternative evaluator), non-square nets
    for _ in range(25 if tier == 'quick' else 300):
        if rng.random() < .5:
            d = S.rand_curve(rng, rational=False, maxp=4)
            u = S.rand_params(rng, d)[0]
            order = rng.randint(1, d['p'] + 1)
            line = "cders %s %s %d" % (S.args(d), fr(u), order)
            out.append(Case('ders-config', line, dict(shape=d, params=[u], order=order, alt=rng.random() < .6, bin=rng.random() < .5)))
        else:
            d = S.rand_surface(rng, rational=False, maxp=3, max_interior=2)
            u, v = S.rand_params(rng, d)
            order = rng.randint(1, 3)
            alt = rng.random() < .6
            line = "sders 0 %d %s %s %s %d" % (1 if alt else 0, S.args(d)[2:], fr(u), fr(v), order)
            out.append(Case('ders-config', line, dict(shape=d, params=[u, v], order=order, alt=alt, bin=rng.random() < .5)))
    out.append(Case('cache-size', None, dict(seed=rng.randint(1, 10 ** 6))))
    out.append(Case('num-procs', None, dict(seed=rng.randint(1, 10 ** 6), scenario='tessellate')))
    out.append(Case('num-procs', None, dict(seed=rng.randint(1, 10 ** 6), scenario='voxelize')))
    # binary search SELECTED on shapes with an EMPTY last domain span, at the domain end and inside (statement audit 5, S1):
    # the model line is the evaluation through the REPAIRED linear search (cevalr / sevalr / vevalr), which the selected
    # repaired binary search equals (curve_/surface_/volume_eval_binsearchR_selected; derivative tables of every evaluator on the binsearch spans = the R tables: derivatives_binsearchR_selected); oracle: binary = linear
    OPSR = {'curve': 'cevalr', 'surface': 'sevalr', 'volume': 'vevalr'}
    for _ in range(12 if tier == 'quick' else 150):
        d, k_ = S.empty_last_shape(rng)
        ps = S.rand_params(rng, d)
        if rng.random() < .6:
            p_, kv_, n_ = S.dirs(d)[k_]
            ps[k_] = kv_[n_]
        ok = True
        for (p_, kv_, n_), u in zip(S.dirs(d), ps):
            end = kv_[n_]
            if any(0 < end - t <= F(1, 50000) for t in kv_) or 0 < end - u <= F(1, 50000):
                ok = False
        if not ok:
            continue
        line = "%s %s %s" % (OPSR[d['kind']], S.args(d), " ".join(fr(x) for x in ps))
        out.append(Case('span-func', line, dict(shape=d, params=ps), tags=('empty-last-span',)))
    return out


def _eval(o, d, ps):
    qp = [q(x) for x in ps]
    return o.evaluate_single(qp[0] if d['kind'] == 'curve' else tuple(qp))


def _ders(c):
    from geomdl import helpers, evaluators
    d = c.data['shape']
    kw = dict(find_span_func=helpers.find_span_binsearch) if c.data['bin'] else {}
    o = S.build(d, **kw)
    if c.data['alt']:
        o.evaluator = (evaluators.CurveEvaluator2 if d['kind'] == 'curve' else evaluators.SurfaceEvaluator2)(**kw)
    qp = [q(x) for x in c.data['params']]
    return o.derivatives(*qp, c.data['order'])


def impl(c):
    from geomdl import helpers
    d = c.data['shape']
    if c.kind == 'ders-config':
        from core import show_pts2
        r = _ders(c)
        return show_pts(r) if d['kind'] == 'curve' else show_pts2(r)
    if c.kind == 'span-func':
        o = S.build(d, find_span_func=helpers.find_span_binsearch)
        return show_list(_eval(o, d, c.data['params']))
    # knot-range: the object normalises the knot vectors itself; evaluate at the mapped parameters
    o = S.build(d, normalize_kv=True)
    return show_list(_eval(o, d, c.data['nparams']))


KV_KEYS = {'curve': ['kv'], 'surface': ['kvu', 'kvv'], 'volume': ['kvu', 'kvv', 'kvw']}


def _mapped(d, am):
    """the same definition with the knot vector of direction i mapped by x -> a_i*x + b_i"""
    dn = dict(d)
    for key, (a, b) in zip(KV_KEYS[d['kind']], am):
        dn[key] = [a * x + b for x in d[key]]
    return dn


def _range_ops(c, d, am):
    """run the operation of the case on the definition `d` (parameters mapped with `am`, identity maps for the
    original); returns the list of resulting definitions (object states / pieces) or ('ERR', name)"""
    from geomdl import operations
    x = c.data
    o = S.build(d)
    try:
        if x['op'] in ('insert', 'insert-remove'):
            qp = [None if u is None else q(a * u + b) for u, (a, b) in zip(x['prm'], am)]
            operations.insert_knot(o, qp, list(x['nr']))
            res = [S.from_obj(o)]
            if x['op'] == 'insert-remove':
                operations.remove_knot(o, qp, list(x['nt']))
                res.append(S.from_obj(o))
            return res
        if x['op'] == 'refine':
            operations.refine_knotvector(o, list(x['dens']))
            return [S.from_obj(o)]
        if d['kind'] == 'curve':
            return [S.from_obj(pc) for pc in operations.decompose_curve(o)]
        return [S.from_obj(pc) for pc in operations.decompose_surface(o, decompose_dir=x['dirs'])]
    except Exception as e:
        return ('ERR', type(e).__name__)


def _knot_range_ops(c):
    d = c.data['shape']
    am = [(F(a), F(b)) for a, b in c.data['amap']]
    ident = [(F(1), F(0))] * len(am)
    base = _range_ops(c, d, ident)
    got = _range_ops(c, _mapped(d, am), am)
    op = c.data['op']
    if isinstance(base, tuple) or isinstance(got, tuple):
        if isinstance(base, tuple) and isinstance(got, tuple):
            return None
        return "%s: original range gives %s, mapped range %s" % (op, base if isinstance(base, tuple) else 'a result', got if isinstance(got, tuple) else 'a result')
    if len(base) != len(got):
        return "%s: %d results on the original range, %d on the mapped one" % (op, len(base), len(got))
    if op == 'decompose':
        # pieces are normalised by their constructor: identical - unless nothing was split (the object itself comes back)
        if len(base) == 1 and base[0] != got[0]:
            return None if _mapped(base[0], am) == got[0] else "decompose: the single piece differs by more than the knot map"
        for i, (x, y) in enumerate(zip(base, got)):
            if x != y:
                return "decompose: piece %d differs between the knot ranges" % i
        return None
    for i, (x, y) in enumerate(zip(base, got)):
        if _mapped(x, am) != y:
            what = 'control points' if x['P'] != y['P'] else 'knot vectors / sizes'
            return "%s (step %d): %s on the mapped range are not the mapped result" % (op, i, what)
    return None


def _probe(scenario, seed, env_extra, nproc=1):
    env = dict(os.environ)
    env.pop('GEOMDL_CACHE_SIZE', None)
    env.update(env_extra)
    p = subprocess.run([sys.executable, os.path.join(VERIF, 'harness', 'float_probe.py'), REPO, scenario, str(seed), str(nproc)],
                       capture_output=True, text=True, env=env, timeout=600)
    if p.returncode != 0:
        return None, (p.stderr.strip().splitlines() or ['?'])[-1]
    return p.stdout.strip(), None


def oracle(c):
    from geomdl import helpers, evaluators
    if c.kind in ('span-func', 'knot-range'):
        d = c.data['shape']
        ps = c.data['params']
        base = S.build(d)
        want = [x for x in _eval(base, d, ps)]
        if c.kind == 'span-func':
            try:
                got = _eval(S.build(d, find_span_func=helpers.find_span_binsearch), d, ps)
            except Exception as e:
                return "selecting the binary span search made evaluate_single raise %s" % type(e).__name__
            if list(got) != want:
                return "binary span search gives %s, linear %s at %s" % (show_list(got), show_list(want), tuple(map(fr, ps)))
            if d['kind'] != 'volume' and not d['rat']:
                o2 = S.build(d, find_span_func=helpers.find_span_binsearch)
                o2.evaluator = evaluators.CurveEvaluator2(find_span_func=helpers.find_span_binsearch) if d['kind'] == 'curve' \
                    else evaluators.SurfaceEvaluator2(find_span_func=helpers.find_span_binsearch)
                if list(_eval(o2, d, ps)) != want:
                    return "alternative evaluator gives a different point"
            return None
        try:
            got = _eval(S.build(d, normalize_kv=True), d, c.data['nparams'])
        except Exception as e:
            return "normalize_kv=True made a valid evaluation raise %s" % type(e).__name__
        if list(got) != want:
            return "normalised knots give %s, original range %s" % (show_list(got), show_list(want))
        return None
    if c.kind == 'knot-range-ops':
        return _knot_range_ops(c)
    if c.kind == 'ders-config':
        d = c.data['shape']
        base = S.build(d)
        qp = [q(x) for x in c.data['params']]
        want = base.derivatives(*qp, c.data['order'])
        try:
            got = _ders(c)
        except Exception as e:
            return "derivatives raise %s under span=%s evaluator=%s" % (type(e).__name__, 'binary' if c.data['bin'] else 'linear', 'alt' if c.data['alt'] else 'default')
        order = c.data['order']
        if d['kind'] == 'curve':
            if [list(x) for x in got] != [list(x) for x in want]:
                return "curve derivatives differ between configurations"
        else:
            for k in range(order + 1):
                for l in range(order + 1 - k):     # the alternative evaluator fills k + l <= order
                    if list(got[k][l]) != list(want[k][l]):
                        return "surface derivative [%d][%d] differs between configurations (span=%s, evaluator=%s)" % (k, l, 'binary' if c.data['bin'] else 'linear', 'alt' if c.data['alt'] else 'default')
        return None
    if c.kind == 'cache-size':
        ref, err = _probe('knotops', c.data['seed'], {})
        if ref is None:
            return "baseline scenario failed: %s" % err
        for val in ('0', '1', '16', '1024'):
            got, err = _probe('knotops', c.data['seed'], {'GEOMDL_CACHE_SIZE': val})
            if got is None:
                return "GEOMDL_CACHE_SIZE=%s makes the scenario fail: %s" % (val, err)
            if got != ref:
                return "GEOMDL_CACHE_SIZE=%s changes the results of the knot-operation scenario" % val
        r = json.loads(ref)
        if any(abs(a - b) > 1e-9 for pa, pb in zip(r['pts'], r['pts0']) for a, b in zip(pa, pb)):
            return "scenario sanity: knot operations moved the curve"
        for name, first, again in r.get('regen', []):
            if first != again:
                return "%s returns another result after the caller adjusted its previous result in place (default cache size)" % name
        return None
    if c.kind == 'num-procs':
        ref, err = _probe(c.data['scenario'], c.data['seed'], {}, 1)
        if ref is None:
            return "%s with num_procs=1 failed: %s" % (c.data['scenario'], err)
        for k in (2, 4, 8):
            got, err = _probe(c.data['scenario'], c.data['seed'], {}, k)
            if got is None:
                return "%s with num_procs=%d failed: %s" % (c.data['scenario'], k, err)
            if got != ref:
                return "%s: num_procs=%d gives a different result than num_procs=1" % (c.data['scenario'], k)
        if c.data['scenario'] == 'voxelize':
            r = json.loads(ref)
            if all(v == r['default_tol'] for v in r['by_tol'].values()) and r['filled'] == r['default_tol']:
                return "scenario sanity: no padding changes the set of filled voxels (the num_procs comparison would not see a dropped padding)"
        return None
    return None


def classify(c, why):
    return None
