"""C19  Equality of shapes is an equivalence that tracks the definition.

Public level only: pairs of BSpline / NURBS Curve / Surface / Volume objects are built through the
public setters, compared with `==` / `!=` in both directions, and the three verdicts are compared
with the Lean model of the (repaired) `SplineGeometry.__eq__`.  The oracle states the property on
the real objects without the model: reflexive, symmetric (same precision), `!=` is the negation,
a deep copy equals its source, identical definitions are equal, and a difference of more than
`10 ** -precision` in any knot / homogeneous coordinate, or a different degree, size, rationality or
parametric kind, makes the shapes unequal."""
import copy
from fractions import Fraction as F
from core import Case, q, qs, qpts, fr, show_list, show_pts
import gen as G

PID = 'C19'
STATS = G.STATS
ASSUMPTIONS = [
    "the comparison tolerance of an object is 10 ** (-precision) (precision = documented 'number of decimal places', default 18); "
    "symmetry is required of pairs built with the same precision only (with different precisions `a == b` uses a's tolerance "
    "and `b == a` uses b's: such pairs are compared with the model but not judged by the oracle)",
    "the model receives the value of the expression 10 ** (-precision) (a double for precision > 0) as an input",
]
NAMES = 'uvw'
CLS = {'C': 'Curve', 'S': 'Surface', 'V': 'Volume'}


# ---------------------------------------------------------------- shape descriptions
def stored(S):
    """what the object built from description S holds (computed here, not read from the object):
    (pdim, rational, degrees, sizes, knot vectors, net, precision)"""
    pdim = len(S['deg'])
    deg = list(S.get('deg_after') or S['deg'])
    size = list(S.get('size_after') or S['size'])
    kvs = []
    for kv in (S['kv'] or [[] for _ in range(pdim)]):
        if S['norm'] and kv:
            a, b = kv[0], kv[-1]
            kv = [(x - a) / (b - a) for x in kv]
        kvs.append(list(kv))
    return (pdim, bool(S['rat']), deg, size, kvs, [list(p) for p in S['P']], S['prec'])


def tol_value(prec):
    """the value the repaired code compares with: the Python expression 10 ** (-precision)"""
    return F(10 ** (-prec))


def shape_text(S):
    pdim, rat, deg, size, kvs, net, prec = stored(S)
    return "%d %d %s %s %s %s %d %s" % (pdim, 1 if rat else 0, ",".join(map(str, deg)), ",".join(map(str, size)),
                                        show_pts(kvs), show_pts(net), prec, fr(tol_value(prec)))


def build(S):
    """the real object, through the public API"""
    from geomdl import BSpline, NURBS
    mod = NURBS if S['rat'] else BSpline
    kw = {}
    if S['prec'] != 18 or S.get('explicit_prec'):
        kw['precision'] = S['prec']
    if not S['norm']:
        kw['normalize_kv'] = False
    o = getattr(mod, CLS[S['kind']])(**kw)
    pdim = len(S['deg'])
    if S['kind'] == 'C':
        o.degree = S['deg'][0]
    else:
        for i in range(pdim):
            setattr(o, 'degree_' + NAMES[i], S['deg'][i])
    P = qpts(S['P'])
    via = S.get('via', 'direct')
    if S['rat'] and via == 'split':
        # unweighted points and weights through the two property setters
        cp = [[c / pt[-1] for c in pt[:-1]] for pt in P]
        w = [pt[-1] for pt in P]
        if S['kind'] != 'C':
            for i in range(pdim):
                setattr(o, 'ctrlpts_size_' + NAMES[i], S['size'][i])
        o.ctrlpts = cp
        o.weights = w
    elif via == 'prop':
        if S['kind'] != 'C':
            for i in range(pdim):
                setattr(o, 'ctrlpts_size_' + NAMES[i], S['size'][i])
        if S['rat']:
            o.ctrlptsw = P
        else:
            o.ctrlpts = P
    else:
        if S['kind'] == 'C':
            o.set_ctrlpts(P)
        else:
            o.set_ctrlpts(P, *S['size'])
    if S['kv']:
        if S['kind'] == 'C':
            o.knotvector = qs(S['kv'][0])
        else:
            for i in range(pdim):
                setattr(o, 'knotvector_' + NAMES[i], qs(S['kv'][i]))
    if S.get('deg_after'):
        if S['kind'] == 'C':
            o.degree = S['deg_after'][0]
        else:
            for i in range(pdim):
                setattr(o, 'degree_' + NAMES[i], S['deg_after'][i])
    if S.get('size_after'):
        for i in range(pdim):
            setattr(o, 'ctrlpts_size_' + NAMES[i], S['size_after'][i])
    if S.get('touch'):
        # fill lazily computed state before comparing / copying
        _ = o.ctrlpts
        _ = o.bbox
        if S['rat']:
            _ = o.weights
    return o


def base_shape(rng, kind=None, rat=None, norm=None, dim=None):
    kind = kind or rng.choice('CCCSSV')
    rat = (rng.random() < .5) if rat is None else rat
    norm = (rng.random() < .75) if norm is None else norm
    pdim = {'C': 1, 'S': 2, 'V': 3}[kind]
    while True:
        degs = rng.sample([1, 2, 3, 4] if kind != 'V' else [1, 2, 3], pdim)
        kvs, sizes = [], []
        for p in degs:
            kv, n = G.knots(rng, p, max_interior=(4 if kind == 'C' else 2), allow_range=not norm, max_mult=(p if kind == 'C' else 1))
            kvs.append(kv); sizes.append(n)
        if len(set(sizes)) == pdim:
            break
    n = 1
    for s in sizes:
        n *= s
    dim = dim or (rng.choice([2, 3]) if kind == 'C' else 3)
    P = G.points(rng, n, dim)
    if rat:
        P = G.homogeneous(P, G.weights(rng, n))
    G.count('shape', kind + ('-rational' if rat else ''))
    return dict(kind=kind, rat=rat, deg=degs, size=sizes, kv=kvs, P=P, prec=18, norm=norm,
                via=rng.choice(['direct', 'prop', 'split'] if rat else ['direct', 'prop']), touch=rng.random() < .3)


def clone(S):
    return copy.deepcopy(S)


MULS = [F(1, 2), F(2), F(1, 2), F(2), F(3, 4), F(1), F(5, 4), F(1, 1000), F(10)]
BIG = [F(1, 2), F(1, 3), F(5), F(20), F(100), F(1, 10 ** 6), F(1, 10 ** 12)]


def pick_delta(rng, prec, small=None):
    """a perturbation: (value, tag).  small: multiples of 10^-prec (half / twice / exactly ...);
    otherwise far from the tolerance"""
    small = (rng.random() < .6) if small is None else small
    if small:
        m = rng.choice(MULS)
        return m * F(1, 10 ** prec), 'tol*%s' % fr(m)
    d = rng.choice(BIG)
    return d, 'big'


def mk_case(A, B, what, extra=None, tags=()):
    d = dict(A=A, B=B, what=what)
    if extra:
        d.update(extra)
    G.count('pair', what)
    return Case(what, "eq %s %s" % (shape_text(A), shape_text(B if B is not None else A)), d, tags=tags)


def gen(rng, tier):
    n_pairs = 30 if tier == 'quick' else 330
    out = []
    # --- fixed small tolerance probes first (a quadratic curve, one interior knot) ---------------
    for rat in (False, True):
        for prec in (18, 6):
            A = dict(kind='C', rat=rat, deg=[2], size=[4], kv=[[F(0)] * 3 + [F(1, 2)] + [F(1)] * 3],
                     P=[[F(0), F(0)], [F(1), F(1)], [F(2), F(0)], [F(3), F(1)]], prec=prec, norm=True, via='direct')
            if rat:
                A['P'] = G.homogeneous(A['P'], [F(1), F(2), F(1, 2), F(1)])
            t = F(1, 10 ** prec)
            # a difference of exactly the value the code compares with (strict `<`: unequal)
            B = clone(A); B['kv'][0][3] += tol_value(prec)
            out.append(mk_case(A, B, 'knot', dict(delta=tol_value(prec)), tags=('tol-probe', 'exact', 'diagnostic')))
            B = clone(A); B['P'][1][0] -= tol_value(prec)
            out.append(mk_case(A, B, 'net', dict(delta=-tol_value(prec)), tags=('tol-probe', 'exact', 'diagnostic')))
            for mul in (F(1, 2), F(2)):
                B = clone(A); B['P'][1][0] += mul * t
                out.append(mk_case(A, B, 'net', dict(delta=mul * t), tags=('tol-probe',)))
                B = clone(A); B['P'][2][-1] += mul * t
                out.append(mk_case(A, B, 'net', dict(delta=mul * t), tags=('tol-probe',)))
                B = clone(A); B['kv'][0][3] += mul * t
                out.append(mk_case(A, B, 'knot', dict(delta=mul * t), tags=('tol-probe',)))
    for _ in range(n_pairs):
        A = base_shape(rng)
        pdim = len(A['deg'])
        # none / copy
        B = clone(A); B['via'] = rng.choice(['direct', 'prop'])
        out.append(mk_case(A, B, 'same'))
        out.append(mk_case(A, None, 'copy'))
        # one net coordinate (for rational shapes the last coordinate is the weight)
        for _k in range(2):
            B = clone(A)
            i = rng.randrange(len(B['P'])); j = rng.randrange(len(B['P'][i]))
            dl, tag = pick_delta(rng, A['prec'])
            if not (A['rat'] and j == len(B['P'][i]) - 1) and rng.random() < .5:
                dl = -dl
            B['P'][i][j] += dl
            out.append(mk_case(A, B, 'net', dict(delta=dl, at=[i, j]), tags=(tag,)))
        # one weight, through the weights setter (all homogeneous coordinates of that point move)
        if A['rat']:
            B = clone(A); B['via'] = 'split'
            i = rng.randrange(len(B['P']))
            dl, tag = pick_delta(rng, A['prec'])
            w = B['P'][i][-1]
            B['P'][i] = [c / w * (w + dl) for c in B['P'][i][:-1]] + [w + dl]
            out.append(mk_case(A, B, 'weight', dict(delta=dl, at=[i]), tags=(tag,)))
        # one knot
        for small in (True, False):
            A2 = clone(A)
            d = rng.randrange(pdim); p = A2['deg'][d]; kv = A2['kv'][d]; n = A2['size'][d]
            dl, tag = pick_delta(rng, A['prec'], small=small)
            interior = [k for k in range(p + 1, n) if kv[k] < kv[k + 1]]
            if small and interior and A2['norm']:
                k = rng.choice(interior)
            else:
                A2['norm'] = False      # the last knot moves (kept as given: no normalisation)
                k = len(kv) - 1
            B = clone(A2); B['kv'][d][k] += dl
            out.append(mk_case(A2, B, 'knot', dict(delta=dl, at=[d, k]), tags=(tag,)))
        # one degree (set after the shape is complete: nothing else changes)
        B = clone(A); d = rng.randrange(pdim)
        B['deg_after'] = list(A['deg']); B['deg_after'][d] = A['deg'][d] + rng.choice([1, 2, -1] if A['deg'][d] > 1 else [1, 2])
        out.append(mk_case(A, B, 'degree'))
        # sizes exchanged (same flat net, same knot vectors)
        if pdim > 1:
            B = clone(A); sz = list(A['size']); i, j = rng.sample(range(pdim), 2); sz[i], sz[j] = sz[j], sz[i]
            B['size_after'] = sz
            out.append(mk_case(A, B, 'size'))
        # rationality: the same stored lists, read as homogeneous by one and as plain points by the other
        if A['rat'] or len(A['P'][0]) >= (4 if A['kind'] == 'V' else 3):
            B = clone(A); B['rat'] = not A['rat']; B['via'] = 'direct'; B['touch'] = False
            out.append(mk_case(A, B, 'rational'))
        # different parametric kind
        B = base_shape(rng, kind=rng.choice([k for k in 'CSV' if k != A['kind']]), rat=A['rat'])
        out.append(mk_case(A, B, 'kind'))
        # different parametric kind, but the lower-dimensional shape carries the LEADING data of the other one (first direction(s),
        # first control points): a comparison that walks over the shorter description must still say "unequal"
        if A['kind'] in 'SV':
            keep = rng.randint(1, pdim - 1)
            B = clone(A); B['kind'] = 'CSV'[keep - 1]
            B['deg'] = list(A['deg'][:keep]); B['kv'] = [list(k) for k in A['kv'][:keep]]; B['size'] = list(A['size'][:keep])
            cnt = 1
            for x in B['size']:
                cnt *= x
            B['P'] = [list(pt) for pt in A['P'][:cnt]]
            if not (B['kind'] == 'S' and len(B['P'][0]) - (1 if B['rat'] else 0) < 3):
                out.append(mk_case(A, B, 'kind'))
        # different point dimension (curves)
        if A['kind'] == 'C' and not A['rat']:
            B = clone(A); B['P'] = [pt + [F(0)] for pt in B['P']]
            out.append(mk_case(A, B, 'dimension'))
        # one more control point and knot (curves)
        if A['kind'] == 'C':
            B = clone(A); p = A['deg'][0]
            B['P'] = B['P'] + [list(B['P'][-1])]; B['size'] = [A['size'][0] + 1]
            kv = list(A['kv'][0]); B['kv'] = [kv[:p + 1] + [(kv[p] + kv[p + 1]) / 2] + kv[p + 1:]]
            out.append(mk_case(A, B, 'count'))
        # knot vector given in another range and normalised by the setter: the same shape
        if A['norm']:
            B = clone(A)
            a, b = F(rng.randint(-3, 3)), F(rng.choice([2, 3, 5, F(1, 2)]))
            B['kv'] = [[a + b * x for x in kv] for kv in A['kv']]
            out.append(mk_case(A, B, 'kvrange'))
        # different precision (model comparison only)
        B = clone(A); B['prec'] = rng.choice([3, 6, 9, 0]); B['explicit_prec'] = True
        i = rng.randrange(len(B['P'])); j = rng.randrange(len(B['P'][i]))
        B['P'][i][j] += rng.choice([F(1, 2), F(3, 2)]) * F(1, 10 ** B['prec']) if B['prec'] else F(1, 2)
        out.append(mk_case(A, B, 'precision'))
        # same non-default precision on both sides, probes around that tolerance
        A3 = clone(A); A3['prec'] = rng.choice([3, 6, 9, 12, 0, 1]); A3['explicit_prec'] = True
        B = clone(A3)
        i = rng.randrange(len(B['P'])); j = rng.randrange(len(B['P'][i]))
        dl, tag = pick_delta(rng, A3['prec'], small=True)
        B['P'][i][j] += dl
        out.append(mk_case(A3, B, 'net', dict(delta=dl, at=[i, j]), tags=(tag, 'prec%d' % A3['prec'])))
        # comparison with something that is not a shape (oracle only)
        out.append(Case('other', None, dict(A=A, B=None, what='other')))
    return out


# ---------------------------------------------------------------- implementation / oracle
def _objects(c):
    d = c.data
    a = build(d['A'])
    b = copy.deepcopy(a) if d['B'] is None else build(d['B'])
    return a, b


def impl(c):
    a, b = _objects(c)
    return "%s %s %s" % (a == b, b == a, a != b)


def expected(sa, sb):
    """what the property demands of `a == b` (a's tolerance): False / True / None (= no demand)"""
    pdim, rat, deg, size, kvs, net, prec = sa
    pdim2, rat2, deg2, size2, kvs2, net2, _ = sb
    if pdim != pdim2:
        return False, 'different parametric kind'
    if rat != rat2:
        return False, 'different rationality'
    if deg != deg2:
        return False, 'different degrees'
    if size != size2:
        return False, 'different sizes'
    if [len(k) for k in kvs] != [len(k) for k in kvs2]:
        return False, 'knot vectors of different length'
    if len(net) != len(net2) or [len(p) for p in net] != [len(p) for p in net2]:
        return False, 'control points of different number / dimension'
    tol = F(1, 10 ** prec)
    dk = max([abs(x - y) for k1, k2 in zip(kvs, kvs2) for x, y in zip(k1, k2)] or [F(0)])
    dn = max([abs(x - y) for p1, p2 in zip(net, net2) for x, y in zip(p1, p2)] or [F(0)])
    if dk > tol:
        return False, 'a knot differs by %s > 10^-%d' % (fr(dk), prec)
    if dn > tol:
        return False, 'a homogeneous control point coordinate differs by %s > 10^-%d' % (fr(dn), prec)
    if dk == 0 and dn == 0:
        return True, 'identical definitions'
    return None, ''


def oracle(c):
    d = c.data
    a, b = _objects(c)
    if d['what'] == 'other':
        for x in (None, 5, 'curve', [1, 2], object()):
            if (a == x) is not False or (a != x) is not True:
                return "comparison of a shape with %r is not False" % (x,)
        return None
    sa = stored(d['A']); sb = stored(d['B']) if d['B'] is not None else sa
    ab, ba = (a == b), (b == a)
    if not (a == a) or not (b == b):
        return "== is not reflexive"
    if (a != b) != (not ab) or (b != a) != (not ba):
        return "!= is not the negation of =="
    if sa[6] == sb[6] and ab != ba:
        return "== is not symmetric: a == b is %s, b == a is %s" % (ab, ba)
    ca = copy.deepcopy(a)
    if not (ca == a) or not (a == ca):
        return "a deep copy does not equal its source"
    if d['B'] is None and not (ab and ba):
        return "a deep copy does not equal its source"
    # the copy is independent: editing it in place (through the lists its properties hand out) changes the copy only
    fresh = build(d['A'])
    pts = ca.ctrlptsw if ca.rational else ca.ctrlpts
    mid_ = len(pts) // 2
    want_ = pts[mid_][0] + 3
    pts[mid_][0] = want_
    if not (a == fresh) or not (fresh == a):
        return "editing a deep copy in place (a control point coordinate) changed its source"
    took = (ca.ctrlptsw if ca.rational else ca.ctrlpts)[mid_][0] == want_      # a getter handing out copies: nothing was edited
    if took and ((ca == a) or (a == ca)):
        return "a deep copy whose control point was then moved by 3 still equals its source"
    cb = copy.deepcopy(a)
    kv = cb.knotvector if cb.pdimension == 1 else cb.knotvector[-1]
    wantk_ = kv[-1] + 3
    kv[-1] = wantk_
    if not (a == fresh) or not (fresh == a):
        return "editing a deep copy in place (a knot) changed its source"
    took = (cb.knotvector if cb.pdimension == 1 else cb.knotvector[-1])[-1] == wantk_
    if took and ((cb == a) or (a == cb)):
        return "a deep copy whose last knot was then moved by 3 still equals its source"
    for got, (want, why), txt in ((ab, expected(sa, sb), 'a == b'), (ba, expected(sb, sa), 'b == a')):
        if want is not None and got != want:
            return "%s is %s although the shapes have %s (pair kind: %s)" % (txt, got, why, d['what'])
    return None


def classify(c, why):
    """F-19: the pinned `__eq__` compares with tolerance 18 and discards the control-point verdict"""
    if 'is True although the shapes have a knot differs' in why or 'is True although the shapes have a homogeneous control point' in why:
        return 'F-19'
    return None


def witness(fid):
    if fid == 'F-19':
        from geomdl import BSpline
        def crv(y):
            o = BSpline.Curve(); o.degree = 2
            o.ctrlpts = qpts([[0, 0], [1, y], [2, 0], [3, 1]]); o.knotvector = qs([0, 0, 0, F(1, 2), 1, 1, 1])
            return o
        return "curves with control point (1,1) and (1,3/2) compare equal" if crv(1) == crv(F(3, 2)) else None
    return None
