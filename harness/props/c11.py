"""C11  Fitted curves and surfaces meet interpolation and least-squares conditions."""
import math
import sys
from fractions import Fraction as F
from core import Case, q, qs, qpts, fr, show_list, show_pts, show_pts2
import gen as G
import shapes as S

PID = 'C11'
FLOAT_KINDS = {'icurve', 'isurf', 'acurve', 'asurf'}      # float-mode companion (core.float_companion)
FLOAT_TOL = 1e-6


def FLOAT_FILTER(c):
    """the solves are only as accurate in doubles as the systems are conditioned: the normal equations N^T N of the
    approximation square the condition number, and with 20-40 data points (thorough tier) the deviation from the
    exact run legitimately exceeds any fixed tolerance (seen: 3e-6 with 26 points, degree 3) - small data sets only"""
    d = c.data
    n = len(d['pts'])
    if c.kind in ('acurve', 'icurve'):
        return n <= 10
    return n <= 30
# two least-squares passes on doubles (chord lengths) give exact rationals with more than 4300 digits
if hasattr(sys, 'set_int_max_str_digits'):
    sys.set_int_max_str_digits(0)
STATS = G.STATS
PARTIAL = [
    "non-singularity of the collocation matrix / of N^T N (Schoenberg-Whitney / total positivity) is a hypothesis: the theorems say 'whenever lu_solve returns'; the harness checks that it does return on every generated data set. "
    "F-11b (open, recorded): it does NOT return for interpolate_curve, degree 3, on 6 points with three consecutive chords 2^-60 of the total (distinct consecutive points; stream rounded-invp) - "
    "the double 1.0/3 puts an averaged knot beyond a parameter, the collocation diagonal has a zero, lu_solve divides by zero. "
    "Proved in that direction (necessary conditions only, data with distinct consecutive points): for the averaged knot vector with invp*p = 1 "
    "(the EXACT 1/p: the double 1.0/p of the code satisfies it for p = 1, 2, 4, 8 only, not for p = 3, 5, 6, 7, 9, 10, ...; F-11b shows the hypothesis is essential, "
    "so for those degrees the three theorems do not speak about the run of the code) every "
    "interior parameter lies strictly inside the support of its own basis function (averaged_schoenberg_whitney) and the collocation matrix of "
    "interpolate_curve / interpolate_surface has a positive diagonal (interpolateCurve_collocation_diag_pos, interpolateSurface_collocation_diag_pos); "
    "every knot span of compute_knot_vector2 contains a parameter (knotVector2_span_has_param, the docstring guarantee), the matrix N of the "
    "approximations has no zero column and N^T N a positive diagonal (approximateCurve_normal_matrix_diag_pos, approximateSurface_spans_and_diag)",
    "least squares: proved for the interior data points k = 1..nd-2 (the objective of The NURBS Book Eq. 9.63) and for data with positive chord lengths (approximateCurve_least_squares); for arbitrary chord lengths only the form with N_j,p as computed by basis_function_one (approximateCurve_minimises) is proved",
    "the knot vectors: compute_knot_vector (Eq. 9.8) and compute_knot_vector2 (Eqs. 9.68-9.69) are proved to build valid clamped knot vectors "
    "(Geomdl.ClampedKnots: n+p+1 knots, p+1 zeros, p+1 ones, non-decreasing, every interior knot strictly inside (0,1), interior knots pairwise "
    "different, accepted by knotvector.check) for parameters strictly increasing from 0 to 1 - compute_knot_vector2 with int() exact (IsFloor), "
    "compute_knot_vector under 0 < invp and invp*p <= 1 (1/p exactly: knotVector_valid_exact, no residual hypothesis; the doubles 1.0/p for "
    "p = 1..4, 6..9 round down, checked in an example) or invp*p <= 1+e with the last chord at least the share e of the total chord length (the doubles "
    "1.0/5, 1.0/10 round up by 2^-54). That the double 1.0/p satisfies |invp*p - 1| <= 2^-53 for EVERY p is floating-point knowledge, not proved",
    "chord lengths and their square roots are doubles computed by math.sqrt: passed to the model as inputs (exact dyadic values)",
    "approximate_surface: modelled (approximateSurface / lsqPass, correspondence 'asurf'); proved: corner control points = "
    "corner data points, evaluated corners S(0|1,0|1) = corner data (unconditionally for positive chord lengths), every "
    "pass solves its normal equations and minimises the squared residual of ITS line - with N as computed by basis_function_one for any data "
    "(approximateSurface_passes_normal_equations, lsqLine_minimises) and, for positive chord lengths in both directions, against the EVALUATED "
    "B-spline curve of the line (span search + A2.2 + A3.1) among all choices of the interior control points "
    "(approximateSurface_passes_least_squares, lsqPass_least_squares). "
    "Not proved (and not true of A9.7): a least-squares statement for the surface as a whole",
    "approximate_curve / approximate_surface raise IndexError for 2 control points in a direction (ctrlpts_size = 2, degree 1: "
    "matrix_multiply on the empty transposed matrix; finding F-11a); the driver answers ERR there, the generators ask for >= 3 control points, "
    "and every theorem about a fitting routine carries the guard of its driver op as hypothesis (InterpCurveOk / InterpSurfOk / "
    "ApproxCurveOk / ApproxSurfOk: degree >= 1, enough points, >= 3 control points per direction, su*sv data points, one chord "
    "list per data line with NON-ZERO total chord length, all data points of ONE length >= 2 (RectData: ragged data -> ValueError of point_distance, "
    "1-D data -> 'should be at least 2-dimensional'; stream malformed-data, ERR on both sides); the bundles ask for EXACTLY su*sv data points although "
    "interpolate_surface / approximate_surface never read extra points and return - stricter than the code, stated) - on inputs outside the guard (where the code raises) nothing is claimed",
    "a data line whose points all coincide (total chord length 0): compute_params_curve raises ZeroDivisionError; driver guard "
    "zeroChord (ops fit.params / icurve / isurf / acurve / asurf), generator stream 'zero-chord' compared as ERR on both sides and "
    "not judged by the oracle (the property text requires distinct consecutive points)",
    "approximate_curve 'starts and ends at the end data points' is proved for data with positive chords (distinct consecutive points) only; "
    "with a REPEATED first / last data point the code is still inside its guard and returns, but for nd/(nc-p) < 2 compute_knot_vector2 repeats "
    "the end knot p+2 times and the curve misses the end point ([(0,0),(0,0),(3,4),(6,0),(6,5)], degree 1, 4 control points: C(0) = (-1/7, 13/21)) - "
    "an observation outside the property's quantifier, pinned by the diagnostic stream repeated-end-point (model = code), not judged",
]
ASSUMPTIONS = ["int(j * d) in compute_knot_vector2 is evaluated exactly here; in floating point j*d may round across an integer"]


def _data(rng, n, dim):
    pts = []
    while len(pts) < n:
        pt = [F(rng.randint(-20, 20), rng.choice([1, 2, 4])) for _ in range(dim)]
        if not pts or pt != pts[-1]:
            pts.append(pt)
    return pts


def _cds(pts, centripetal):
    """the doubles the library computes for the chord lengths (then their square roots)"""
    out = []
    for a, b in zip(pts, pts[1:]):
        d2 = sum((x - y) ** 2 for x, y in zip(b, a))
        import core
        from geomdl import linalg
        dist = float(core.impl_sqrt(d2, lambda: linalg.point_distance(qs(a), qs(b))))   # the implementation's own chord length
        out.append(F(math.sqrt(dist)) if centripetal else F(dist))
    return out


def gen(rng, tier):
    out = []
    n = 50 if tier == 'quick' else 600
    for _ in range(n):
        dim = rng.choice([2, 3])
        npts = rng.randint(3, 12 if tier == 'quick' else 40)
        p = rng.randint(1, min(5, npts - 1))
        pts = _data(rng, npts, dim)
        cen = rng.random() < .5
        G.count('npts', npts); G.count('degree', p); G.count('centripetal', cen)
        cds = _cds(pts, cen)
        line = "fit.icurve %d %s %s %s" % (p, show_pts(pts), show_list(cds), fr(F(1.0 / p)))
        out.append(Case('icurve', line, dict(p=p, pts=pts, cen=cen)))
        if rng.random() < .3 and min(5, npts - 1) > 1:
            p2 = rng.choice([x for x in range(1, min(5, npts - 1) + 1) if x != p])
            line2 = "fit.icurve %d %s %s %s" % (p2, show_pts(pts), show_list(cds), fr(F(1.0 / p2)))
            out.append(Case('icurve', line2, dict(p=p2, pts=pts, cen=cen), tags=('same-data-again',)))
    for _ in range(20 if tier == 'quick' else 250):
        dim = 3
        su, sv = rng.randint(3, 7), rng.randint(3, 7)
        if su == sv:
            sv += 1
        pu, pv = rng.randint(1, min(3, su - 1)), rng.randint(1, min(3, sv - 1))
        pts = [[F(u) + F(rng.randint(-2, 2), 8), F(v) + F(rng.randint(-2, 2), 8), F(rng.randint(-12, 12), 4)] for u in range(su) for v in range(sv)]
        cen = rng.random() < .5
        cu = [_cds([pts[v + sv * u] for u in range(su)], cen) for v in range(sv)]
        cv = [_cds([pts[v + sv * u] for v in range(sv)], cen) for u in range(su)]
        line = "fit.isurf %d %d %d %d %s %s %s %s %s" % (pu, pv, su, sv, show_pts(pts), show_pts(cu), show_pts(cv), fr(F(1.0 / pu)), fr(F(1.0 / pv)))
        out.append(Case('isurf', line, dict(pu=pu, pv=pv, su=su, sv=sv, pts=pts, cen=cen)))
    for _ in range(40 if tier == 'quick' else 500):
        dim = rng.choice([2, 3])
        npts = rng.randint(5, 14 if tier == 'quick' else 40)
        p = rng.randint(1, min(4, npts - 3))
        nc = rng.randint(p + 2, npts - 1)
        pts = _data(rng, npts, dim)
        cen = rng.random() < .5
        cds = _cds(pts, cen)
        G.count('approx_ncp', nc)
        line = "fit.acurve %d %s %s %d" % (p, show_pts(pts), show_list(cds), nc)
        out.append(Case('acurve', line, dict(p=p, pts=pts, cen=cen, nc=nc)))
        # history independence: the same data fitted again in the same process with another number of
        # control points / another degree (same parameters, other knot vector) must not see leftovers
        if rng.random() < .5:
            alts = [(p, m) for m in range(p + 2, npts) if m != nc] + [(p2, nc) for p2 in range(1, min(4, npts - 3) + 1) if p2 != p and nc >= p2 + 2]
            if alts:
                p2, nc2 = rng.choice(alts)
                line2 = "fit.acurve %d %s %s %d" % (p2, show_pts(pts), show_list(cds), nc2)
                out.append(Case('acurve', line2, dict(p=p2, pts=pts, cen=cen, nc=nc2), tags=('same-data-again',)))
    for _ in range(14 if tier == 'quick' else 120):
        su, sv = rng.randint(4, 8), rng.randint(4, 8)
        if su == sv:
            sv = sv + 1 if sv < 8 else sv - 1
        pu, pv = rng.randint(1, min(3, su - 2)), rng.randint(1, min(3, sv - 2))
        pts = [[F(u) + F(rng.randint(-2, 2), 8), F(v) + F(rng.randint(-2, 2), 8), F(rng.randint(-12, 12), 4)] for u in range(su) for v in range(sv)]
        cen = rng.random() < .5
        # default ctrlpts_size = size - 1, or explicit smaller numbers of control points (>= degree + 1)
        if rng.random() < .4:
            ncu, ncv, dflt = su - 1, sv - 1, True
        else:
            ncu, ncv, dflt = rng.randint(max(pu + 1, 3), su - 1), rng.randint(max(pv + 1, 3), sv - 1), False
        G.count('asurf_ncp', (ncu, ncv)); G.count('asurf_default', dflt)
        cu = [_cds([pts[v + sv * u] for u in range(su)], cen) for v in range(sv)]
        cv = [_cds([pts[v + sv * u] for v in range(sv)], cen) for u in range(su)]
        line = "fit.asurf %d %d %d %d %s %s %s %d %d" % (pu, pv, su, sv, show_pts(pts), show_pts(cu), show_pts(cv), ncu, ncv)
        out.append(Case('asurf', line, dict(pu=pu, pv=pv, su=su, sv=sv, pts=pts, cen=cen, ncu=ncu, ncv=ncv, dflt=dflt)))
    # the smallest admissible number of control points for a line (degree 1, two control points: nothing to
    # solve, the result is the segment between the end data points) - recorded finding F-11a
    for _ in range(3 if tier == 'quick' else 20):
        dim = rng.choice([2, 3]); npts = rng.randint(3, 7)
        pts = _data(rng, npts, dim); cen = rng.random() < .5
        cds = _cds(pts, cen)
        out.append(Case('acurve', "fit.acurve 1 %s %s 2" % (show_pts(pts), show_list(cds)), dict(p=1, pts=pts, cen=cen, nc=2), tags=('two-ctrlpts',)))
    # a data line whose points all coincide (total chord length 0): the property text requires distinct consecutive
    # points; compute_params_curve divides by the total chord length -> ZeroDivisionError, driver guard `zeroChord`.
    # These cases are compared as ERR on both sides and are NOT judged by the oracle.
    for _ in range(6 if tier == 'quick' else 40):
        cen = rng.random() < .5
        kind = rng.choice(['icurve', 'acurve', 'isurf', 'asurf'])
        if kind in ('icurve', 'acurve'):
            dim = rng.choice([2, 3]); npts = rng.randint(4, 7)
            pt = [F(rng.randint(-20, 20), rng.choice([1, 2, 4])) for _ in range(dim)]
            pts = [list(pt) for _ in range(npts)]
            cds = _cds(pts, cen)
            p = rng.randint(1, 2)
            if kind == 'icurve':
                out.append(Case('icurve', "fit.icurve %d %s %s %s" % (p, show_pts(pts), show_list(cds), fr(F(1.0 / p))),
                                dict(p=p, pts=pts, cen=cen), tags=('zero-chord',)))
            else:
                out.append(Case('acurve', "fit.acurve %d %s %s %d" % (p, show_pts(pts), show_list(cds), 3),
                                dict(p=p, pts=pts, cen=cen, nc=3), tags=('zero-chord',)))
        else:
            su, sv = rng.randint(4, 6), rng.randint(4, 6)
            if su == sv:
                sv += 1
            pu, pv = rng.randint(1, 2), rng.randint(1, 2)
            pts = [[F(u) + F(rng.randint(-2, 2), 8), F(v) + F(rng.randint(-2, 2), 8), F(rng.randint(-12, 12), 4)] for u in range(su) for v in range(sv)]
            if rng.random() < .5:      # collapse one data column (fixed v, all u)
                v0 = rng.randrange(sv)
                for u in range(su):
                    pts[v0 + sv * u] = list(pts[v0])
            else:                      # collapse one data row (fixed u, all v)
                u0 = rng.randrange(su)
                for v in range(sv):
                    pts[v + sv * u0] = list(pts[sv * u0])
            cu = [_cds([pts[v + sv * u] for u in range(su)], cen) for v in range(sv)]
            cv = [_cds([pts[v + sv * u] for v in range(sv)], cen) for u in range(su)]
            if kind == 'isurf':
                line = "fit.isurf %d %d %d %d %s %s %s %s %s" % (pu, pv, su, sv, show_pts(pts), show_pts(cu), show_pts(cv), fr(F(1.0 / pu)), fr(F(1.0 / pv)))
                out.append(Case('isurf', line, dict(pu=pu, pv=pv, su=su, sv=sv, pts=pts, cen=cen), tags=('zero-chord',)))
            else:
                ncu, ncv = su - 1, sv - 1
                line = "fit.asurf %d %d %d %d %s %s %s %d %d" % (pu, pv, su, sv, show_pts(pts), show_pts(cu), show_pts(cv), ncu, ncv)
                out.append(Case('asurf', line, dict(pu=pu, pv=pv, su=su, sv=sv, pts=pts, cen=cen, ncu=ncu, ncv=ncv, dflt=True), tags=('zero-chord',)))
    # F-11b (open, recorded): the double 1.0/degree is not 1/degree for degree 3, 5, 6, 7, ...; with three consecutive chords
    # that are 2^-60 of the total chord length the averaged knot U_5 of Eq. 9.8 (computed with the rounded 1.0/3) ends up
    # BELOW the parameter u_1 ... the collocation matrix gets a zero on its diagonal and lu_solve divides by zero although
    # consecutive data points are distinct.  A few scaled / shifted / 3-D variants of the audit-5 witness.
    for k_ in range(4 if tier == 'quick' else 16):
        e = F(1, 2 ** rng.choice([60, 61, 64, 70]))
        sc = F(rng.choice([1, 2, 3, 5]), rng.choice([1, 2, 4]))
        sh = [F(rng.randint(-3, 3)), F(rng.randint(-3, 3))]
        base = [[F(0), F(0)], [F(1), F(0)], [F(1), e], [F(1), 2 * e], [F(1), 3 * e], [F(2), 3 * e]]
        if k_ == 0:
            sc, sh, e = F(1), [F(0), F(0)], F(1, 2 ** 60)
            base = [[F(0), F(0)], [F(1), F(0)], [F(1), e], [F(1), 2 * e], [F(1), 3 * e], [F(2), 3 * e]]
        pts = [[sc * x + sh[0], sc * y + sh[1]] for x, y in base]
        if rng.random() < .3 and k_:
            pts = [pt + [F(0)] for pt in pts]
        if rng.random() < .5 and k_:
            pts = pts[::-1]
        cds = _cds(pts, False)
        line = "fit.icurve 3 %s %s %s" % (show_pts(pts), show_list(cds), fr(F(1.0 / 3)))
        out.append(Case('icurve', line, dict(p=3, pts=pts, cen=False), tags=('rounded-invp',)))
    # malformed data (audit 5, J1): points of different lengths (linalg.point_distance raises ValueError) and points with
    # fewer than 2 coordinates (the control point setter raises "should be at least 2-dimensional") - guard RectData of the
    # four bundles / `rectData` of the driver ops; compared as ERR on both sides, not judged by the oracle
    for k_ in range(8 if tier == 'quick' else 40):
        cen = rng.random() < .5
        kind = ['icurve', 'acurve', 'isurf', 'asurf'][k_ % 4]
        how = rng.choice(['ragged', 'low-dim'])
        if kind in ('icurve', 'acurve'):
            npts = rng.randint(4, 7)
            dim = rng.choice([2, 3]) if how == 'ragged' else rng.choice([0, 1])
            pts = _data(rng, npts, max(dim, 1))
            good = [list(pt) for pt in pts]
            if dim == 0:
                pts = [[] for _ in pts]
            if how == 'ragged':
                j = rng.randrange(npts)
                pts[j] = pts[j] + [F(rng.randint(1, 5))] if rng.random() < .5 else pts[j][:-1]
            # chord lengths: the ones of the well-formed data (the implementation never gets that far)
            cds = _cds(good, cen)
            p = rng.randint(1, 2)
            if kind == 'icurve':
                out.append(Case('icurve', "fit.icurve %d %s %s %s" % (p, show_pts(pts), show_list(cds), fr(F(1.0 / p))),
                                dict(p=p, pts=pts, cen=cen), tags=('malformed-data', how)))
            else:
                out.append(Case('acurve', "fit.acurve %d %s %s %d" % (p, show_pts(pts), show_list(cds), 3),
                                dict(p=p, pts=pts, cen=cen, nc=3), tags=('malformed-data', how)))
        else:
            su, sv = rng.randint(4, 5), rng.randint(4, 5)
            if su == sv:
                sv += 1
            pu, pv = rng.randint(1, 2), rng.randint(1, 2)
            good = [[F(u) + F(rng.randint(-2, 2), 8), F(v) + F(rng.randint(-2, 2), 8), F(rng.randint(-12, 12), 4)] for u in range(su) for v in range(sv)]
            cu = [_cds([good[v + sv * u] for u in range(su)], cen) for v in range(sv)]
            cv = [_cds([good[v + sv * u] for v in range(sv)], cen) for u in range(su)]
            pts = [list(pt) for pt in good]
            if how == 'ragged':
                j = rng.randrange(su * sv)
                pts[j] = pts[j] + [F(1)] if rng.random() < .5 else pts[j][:-1]
            else:
                pts = [pt[:1] for pt in pts]
            if kind == 'isurf':
                line = "fit.isurf %d %d %d %d %s %s %s %s %s" % (pu, pv, su, sv, show_pts(pts), show_pts(cu), show_pts(cv), fr(F(1.0 / pu)), fr(F(1.0 / pv)))
                out.append(Case('isurf', line, dict(pu=pu, pv=pv, su=su, sv=sv, pts=pts, cen=cen), tags=('malformed-data', how)))
            else:
                line = "fit.asurf %d %d %d %d %s %s %s %d %d" % (pu, pv, su, sv, show_pts(pts), show_pts(cu), show_pts(cv), su - 1, sv - 1)
                out.append(Case('asurf', line, dict(pu=pu, pv=pv, su=su, sv=sv, pts=pts, cen=cen, ncu=su - 1, ncv=sv - 1, dflt=True), tags=('malformed-data', how)))
    # observation, not judged (audit 5, J3): approximate_curve on data whose FIRST (or last) point is repeated - inside the guard
    # (total chord length non-zero), the code returns, but with nd/(nc-p) < 2 compute_knot_vector2 repeats the end knot p+2
    # times and the curve does NOT start at the first data point ([(0,0),(0,0),(3,4),(6,0),(6,5)], degree 1, 4 control points:
    # C(0) = (-1/7, 13/21)).  The property sentence (and every theorem: positive chords) is about distinct consecutive points;
    # the stream pins model = code there (tag diagnostic).
    for k_ in range(3 if tier == 'quick' else 15):
        dim = rng.choice([2, 3]); npts = rng.randint(5, 8)
        pts = _data(rng, npts - 1, dim)
        pts = [list(pts[0])] + pts if rng.random() < .5 else pts + [list(pts[-1])]
        if k_ == 0:
            pts = [[F(0), F(0)], [F(0), F(0)], [F(3), F(4)], [F(6), F(0)], [F(6), F(5)]]
        p = 1 if k_ == 0 else rng.randint(1, 2)
        nc = 4 if k_ == 0 else rng.randint(max(p + 2, (len(pts) + 2) // 2 + p), len(pts) - 1) if max(p + 2, (len(pts) + 2) // 2 + p) <= len(pts) - 1 else len(pts) - 1
        cen = False if k_ == 0 else rng.random() < .5
        cds = _cds(pts, cen)
        out.append(Case('acurve', "fit.acurve %d %s %s %d" % (p, show_pts(pts), show_list(cds), nc), dict(p=p, pts=pts, cen=cen, nc=nc),
                        tags=('diagnostic', 'repeated-end-point')))
    return out


def _fit(c):
    from geomdl import fitting
    d = c.data
    if c.kind == 'icurve':
        return fitting.interpolate_curve(qpts(d['pts']), d['p'], centripetal=d['cen'])
    if c.kind == 'isurf':
        return fitting.interpolate_surface(qpts(d['pts']), d['su'], d['sv'], d['pu'], d['pv'], centripetal=d['cen'])
    if c.kind == 'acurve':
        return fitting.approximate_curve(qpts(d['pts']), d['p'], centripetal=d['cen'], ctrlpts_size=d['nc'])
    if d.get('dflt', True):
        return fitting.approximate_surface(qpts(d['pts']), d['su'], d['sv'], d['pu'], d['pv'], centripetal=d['cen'])
    return fitting.approximate_surface(qpts(d['pts']), d['su'], d['sv'], d['pu'], d['pv'], centripetal=d['cen'],
                                       ctrlpts_size_u=d['ncu'], ctrlpts_size_v=d['ncv'])


def impl(c):
    o = _fit(c)
    if c.kind in ('isurf', 'asurf'):
        return "%s %s %s" % (show_list(o.knotvector_u), show_list(o.knotvector_v), show_pts(o.ctrlpts))
    return "%s %s" % (show_list(o.knotvector), show_pts(o.ctrlpts))


def oracle(c):
    from geomdl import fitting, helpers
    d = c.data
    if 'zero-chord' in c.tags or 'malformed-data' in c.tags or 'repeated-end-point' in c.tags:
        # outside the property (it requires distinct consecutive data points of one dimension >= 2): zero-chord and
        # malformed-data cases answer ERR on both sides, repeated-end-point cases are an observation; nothing to judge
        return None
    try:
        o = _fit(c)
    except Exception as e:
        if c.kind == 'icurve' and all(a != b for a, b in zip(d['pts'], d['pts'][1:])) and 1 <= d['p'] < len(d['pts']):
            # property sentence 1 (and C16: "always returns ... for spline collocation matrices")
            return "interpolate_curve did not return for data with distinct consecutive points (degree %d, %d points): raised %s: %s" % (
                d['p'], len(d['pts']), type(e).__name__, e)
        return "%s raised %s: %s" % (c.kind, type(e).__name__, e)
    return _judge(c, o) or _knots(c, o)


def _fq(x):
    return x.q if hasattr(x, 'q') else F(x)


def _kv_valid(name, kv, p, n, par, need_span):
    """a valid clamped knot vector with simple interior knots (theorems knotVector_valid / knotVector2_valid, stated for
    parameters that run strictly increasing from 0 to 1); for the approximation also: every span holds a parameter"""
    if not (par[0] == 0 and par[-1] == 1 and all(a < b for a, b in zip(par, par[1:]))):
        return None           # outside the hypotheses of the theorems (coincident consecutive data points in every line)
    if 1 - par[-2] < F(1, 2 ** 52):
        return None           # the double 1.0/p may exceed 1/p by 2^-53 relative: hypothesis of the '_near' theorems
    if len(kv) != n + p + 1:
        return "%s has %d knots, expected %d" % (name, len(kv), n + p + 1)
    if any(x != 0 for x in kv[:p + 1]) or any(x != 1 for x in kv[n:]):
        return "%s is not clamped to [0, 1] with multiplicity p+1" % name
    if any(not (a < b) for a, b in zip(kv[p:n], kv[p + 1:n + 1])):
        return "%s: the knots U_p .. U_n are not strictly increasing" % name
    if need_span:
        for s_ in range(p, n):
            if not any(kv[s_] <= u < kv[s_ + 1] for u in par):
                return "%s: the knot span %d contains no parameter" % (name, s_)
    return None


def _knots(c, o):
    from geomdl import fitting
    d = c.data
    if c.kind in ('icurve', 'acurve'):
        par = [_fq(x) for x in fitting.compute_params_curve(qpts(d['pts']), d['cen'])]
        n = len(d['pts']) if c.kind == 'icurve' else d['nc']
        return _kv_valid('knot vector', [_fq(x) for x in o.knotvector], d['p'], n, par, c.kind == 'acurve')
    uk, vl = fitting.compute_params_surface(qpts(d['pts']), d['su'], d['sv'], d['cen'])
    uk, vl = [_fq(x) for x in uk], [_fq(x) for x in vl]
    nu, nv = (d['su'], d['sv']) if c.kind == 'isurf' else (o.ctrlpts_size_u, o.ctrlpts_size_v)
    return (_kv_valid('knot vector u', [_fq(x) for x in o.knotvector_u], d['pu'], nu, uk, c.kind == 'asurf')
            or _kv_valid('knot vector v', [_fq(x) for x in o.knotvector_v], d['pv'], nv, vl, c.kind == 'asurf'))


def _judge(c, o):
    from geomdl import fitting, helpers
    d = c.data
    if c.kind == 'icurve':
        if o.degree != d['p']:
            return "interpolating curve has degree %d" % o.degree
        uk = fitting.compute_params_curve(qpts(d['pts']), d['cen'])
        if uk[0] != 0 or uk[-1] != 1 or any(a > b for a, b in zip(uk, uk[1:])):
            return "parameters do not run from 0 to 1 monotonically"
        for u, pt in zip(uk, d['pts']):
            got = o.evaluate_single(u)
            if list(got) != pt:
                return "interpolate_curve misses data point %s: curve(%s) = %s" % (show_list(pt), fr(u), show_list(got))
        return None
    if c.kind == 'isurf':
        uk, vl = fitting.compute_params_surface(qpts(d['pts']), d['su'], d['sv'], d['cen'])
        for iu, u in enumerate(uk):
            for iv, v in enumerate(vl):
                got = o.evaluate_single((u, v))
                if list(got) != d['pts'][iv + d['sv'] * iu]:
                    return "interpolate_surface misses data point (%d,%d)" % (iu, iv)
        return None
    if c.kind == 'acurve':
        pts, p, nc = d['pts'], d['p'], d['nc']
        cp = [[x.q if hasattr(x, 'q') else F(x) for x in pt] for pt in o.ctrlpts]
        if len(cp) != nc:
            return "approximation has %d control points, requested %d" % (len(cp), nc)
        if cp[0] != pts[0] or cp[-1] != pts[-1]:
            return "approximation does not interpolate the end data points"
        if list(o.evaluate_single(q(0))) != pts[0] or list(o.evaluate_single(q(1))) != pts[-1]:
            return "approximating curve does not start / end at the end data points"
        # normal equations: for every interior control point index i, sum_k N_i(u_k) (Q_k - C(u_k)) = 0
        uk = fitting.compute_params_curve(qpts(pts), d['cen'])
        kv = [x.q if hasattr(x, 'q') else F(x) for x in o.knotvector]
        last = kv[-1]
        for i in range(1, nc - 1):
            acc = [F(0)] * len(pts[0])
            for k in range(1, len(pts) - 1):
                u = uk[k].q if hasattr(uk[k], 'q') else F(uk[k])
                Ni = G.cox_de_boor(kv, p, i, u, last)
                if Ni:
                    cu = S.eval_ref(dict(kind='curve', rat=False, p=p, kv=kv, n=nc, P=cp), [u])
                    acc = [a + Ni * (qk - ck) for a, qk, ck in zip(acc, pts[k], cu)]
            if any(a != 0 for a in acc):
                return "least squares: the residual is not orthogonal to basis function %d (normal equations violated)" % i
        return None
    if c.kind == 'asurf':
        pts, su, sv = d['pts'], d['su'], d['sv']
        for (u, v, idx) in ((0, 0, 0), (0, 1, sv - 1), (1, 0, sv * (su - 1)), (1, 1, su * sv - 1)):
            got = o.evaluate_single((q(u), q(v)))
            if list(got) != pts[idx]:
                return "approximate_surface does not interpolate corner (%d,%d)" % (u, v)
        # the four boundary control polygons are least-squares fits of the four boundary data lines
        # (A9.7: the boundary rows of the intermediate net are data rows; the boundary columns are fitted
        # from the boundary data columns): residual orthogonal to every interior basis function
        fq = lambda x: x.q if hasattr(x, 'q') else F(x)
        ncu, ncv = o.ctrlpts_size_u, o.ctrlpts_size_v
        if (ncu, ncv) != (d['ncu'], d['ncv']):
            return "approximate_surface returned %dx%d control points, requested %dx%d" % (ncu, ncv, d['ncu'], d['ncv'])
        cp = [[fq(x) for x in pt] for pt in o.ctrlpts]
        uk, vl = fitting.compute_params_surface(qpts(pts), su, sv, d['cen'])
        uk, vl = [fq(x) for x in uk], [fq(x) for x in vl]
        kvu, kvv = [fq(x) for x in o.knotvector_u], [fq(x) for x in o.knotvector_v]
        lines = [
            ('u=0', d['pv'], kvv, vl, [pts[v] for v in range(sv)], [cp[v] for v in range(ncv)]),
            ('u=1', d['pv'], kvv, vl, [pts[v + sv * (su - 1)] for v in range(sv)], [cp[v + ncv * (ncu - 1)] for v in range(ncv)]),
            ('v=0', d['pu'], kvu, uk, [pts[sv * u] for u in range(su)], [cp[ncv * u] for u in range(ncu)]),
            ('v=1', d['pu'], kvu, uk, [pts[sv - 1 + sv * u] for u in range(su)], [cp[ncv - 1 + ncv * u] for u in range(ncu)]),
        ]
        for name, p, kv, par, Q, P in lines:
            last = kv[-1]
            for i in range(1, len(P) - 1):
                acc = [F(0)] * len(Q[0])
                for k in range(1, len(Q) - 1):
                    Ni = G.cox_de_boor(kv, p, i, par[k], last)
                    if Ni:
                        ck = S.eval_ref(dict(kind='curve', rat=False, p=p, kv=kv, n=len(P), P=P), [par[k]])
                        acc = [a + Ni * (qk - x) for a, qk, x in zip(acc, Q[k], ck)]
                if any(a != 0 for a in acc):
                    return "approximate_surface: boundary polygon %s is not the least-squares fit of the boundary data line (residual not orthogonal to basis function %d)" % (name, i)
        return None
    return None


def _tiny_chord(c):
    """F-11b pattern: a degree p whose double 1.0/p is not 1/p, and `p` consecutive chords below 2^-50 of the total chord length"""
    d = c.data
    p = d['p']
    if F(1.0 / p) * p == 1 or d.get('cen'):
        return False
    cds = _cds(d['pts'], False)
    tot = sum(cds)
    return any(sum(cds[i:i + p]) * 2 ** 50 < tot for i in range(len(cds) - p + 1))


def classify(c, why):
    if c.kind == 'acurve' and c.data.get('nc') == 2 and 'raised IndexError' in why:
        return 'F-11a'
    if (c.kind == 'icurve' and 'did not return for data with distinct consecutive points' in why and 'ZeroDivisionError' in why
            and _tiny_chord(c)):
        return 'F-11b'
    return None


def witness(fid):
    if fid == 'F-11a':
        from geomdl import fitting
        try:
            fitting.approximate_curve(qpts([[F(0), F(0)], [F(1), F(2)], [F(2), F(1)], [F(3), F(3)]]), 1, ctrlpts_size=2)
        except IndexError:
            return "approximate_curve(4 points, degree 1, ctrlpts_size=2) raises IndexError"
        return None
    if fid == 'F-11b':
        from geomdl import fitting
        e = F(1, 2 ** 60)
        pts = [[F(0), F(0)], [F(1), F(0)], [F(1), e], [F(1), 2 * e], [F(1), 3 * e], [F(2), 3 * e]]
        try:
            fitting.interpolate_curve(qpts(pts), 3)
        except ZeroDivisionError:
            return ("interpolate_curve((0,0),(1,0),(1,e),(1,2e),(1,3e),(2,3e), degree 3), e = 2^-60 (consecutive points distinct) "
                    "raises ZeroDivisionError: with the double 1.0/3 the averaged knot U_5 lies below the parameter u_1")
        return None
    return None
