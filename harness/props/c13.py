"""C13  One control-net layout convention across all modules (v fastest, then u, then w)."""
from fractions import Fraction as F
from core import Case, q, qs, qpts, fr, show_list, show_pts, show_pts2
import gen as G

PID = 'C13'
FLOAT_KINDS = {'sweepc', 'sweeps', 'transpose', 'consurf-u', 'consurf-v', 'convol-u', 'convol-v', 'convol-w'}      # float-mode companion (core.float_companion)
FLOAT_TOL = 1e-9
STATS = G.STATS
PARTIAL = [
    "boundary sections: proved at the level of nets, degrees and knot vectors (sweep_*_sections, sweep_sections_rational) AND of "
    "evaluated points, non-rational (surface_boundary_u/v_is_extracted_curve, volume_boundary_is_extracted_surface, "
    "sweep_curve/surface_boundary_points: curvePoint / surfacePoint / volumePoint on the stored points, every coordinate) and "
    "RATIONAL (…_rational: project of the evaluated homogeneous point = what the rational evaluators return; positive weights; "
    "the weight divided by is proved positive; far section of a rational sweep = C(v) + vec resp. S(u,v) + vec in Cartesian "
    "coordinates).  The rational forms need KnotsOk (non-decreasing, last span non-empty) in every direction and the free "
    "parameters in the closed domain (outside it the evaluated weight need not be positive); the non-rational forms hold for every "
    "parameter.  The surface sweep theorems carry the guard of the code / driver op (at least 3 spatial coordinates: "
    "Volume.set_ctrlpts raises for a planar surface) and have corollaries with the generated knot vector knotGenerate 1 2 = "
    "[0,0,1,1] (sweep_*_boundary_points(_rational)_generated: V(u,v,0) = S, V(u,v,1) = translate)",
    "the ctrlpts/weights split-and-recombine that construct_* and sweep_vector perform on rational shapes is modelled twice: as the "
    "identity on homogeneous points (Model/Layout.lean, ops consurf/convol/sweepc/sweeps) and written out with the C09 views "
    "(Model/LayoutRat.lean: per-object ctrlpts/weights getters, separate concatenation / re-ordering, combine-flip-separate for "
    "direction v, ns.ctrlpts= then ns.weights= on a fresh object, deep copy + ctrlpts setter for the swept copy; ops "
    "consurfr/convolr/sweepcr/sweepsr, run on every rational case); the two are PROVED equal for non-zero weights "
    "(rational_split_recombine_identity, construct_surface/volume_rational_explicit, sweep_vector_rational_explicit) and the rational "
    "sweep theorems are stated for the written-out model.  Not modelled: the input objects' caches are taken empty (the getters "
    "return separate(net) either way, C09 views_consistent), validation inside NURBS set_ctrlpts; a zero weight makes the real code "
    "raise (ZeroDivisionError in separate_ctrlpts_weights) = ERR of the written-out ops (stream ratzero)",
    "knot vectors of the INPUT objects are carried through unchanged (they were validated / normalised when the objects were "
    "built, C03).  The knotvector= argument of construct_surface / construct_volume goes through the knot-vector setter of the new "
    "object: the driver ops consurf / convol / consurfr / convolr answer ERR where the code raises (degree=0: the eagerly "
    "evaluated default knotvector.generate(0, n); fewer than degree+1 inputs; knotvector.check fails: wrong length or not "
    "non-decreasing; first knot = last knot: normalize divides by zero) and otherwise pass knotNormalize(kv) to the model "
    "(Driver/Layout.lean storedKv; streams consurf-kvnorm / consurf-kvbad / convol-kvnorm / convol-kvbad and their rational "
    "twins); construct_surface_eval / construct_volume_eval carry these guards (hdeg1, hkv, hrange) and speak about the curve "
    "over kvO = knotNormalize L, construct_extract_* carry 1 <= degO and degO + 1 <= len(args) and treat kvO as the abstract "
    "stored knot datum",
    "sweep_vector with a vector shorter than the control points have spatial coordinates raises (point_translate zips): ERR in the "
    "four sweep ops, hypothesis d <= len(vec) (resp. the dimension-keeping hypothesis htr) in sweep_curve_sections, "
    "sweep_surface_sections, sweep_sections_rational, sweep_vector_rational_explicit, sweep_surface_boundary_points(_generated); "
    "streams sweepc-short / sweeps-short (+ rational twins); longer vectors are cut on both sides.  In sweep_surface_sections "
    "/ sweep_surface_boundary_points(_generated) the point map is selected by the flag rat (pointTranslateW / pointTranslate) and "
    "the guards (3 spatial coordinates, vector length, non-zero weights) are tied to it",
    "evaluation of constructed shapes: construct_surface_eval / construct_volume_eval (all stacking directions, repaired code) give "
    "S(t,v) resp. V(t,a,b) = degree-degO curve with the given knot function through the points C_i(v) resp. S_i(a,b), every "
    "coordinate of the stored points; the inputs are evaluated with the degree(s) and knot vector(s) of the FIRST input (the code "
    "copies only args[0].knotvector*; inputs with other knot vectors are silently re-parametrised - an observation, not a "
    "finding).  For rational inputs this is the statement on homogeneous points (weight coordinate included); the projected "
    "corollary is not stated separately.  The knot vector knotvector.generate(degree, len(args)) used when no knotvector= is "
    "passed is not tied in (C03)",
]
ASSUMPTIONS = [
    "rational shapes are compared on their homogeneous nets; the identity-model ops are generated with non-zero (positive) weights "
    "only, the written-out ops additionally with one zero weight (both sides must raise / answer ERR)",
    "knot vectors of the generated input shapes are already normalised to [0,1] (the knot-vector setters normalise; identity "
    "there); un-normalised / invalid vectors are generated for the knotvector= argument of construct_* only",
    "operations.transpose leaves sample_size_u/v (delta) unswapped; this affects only sampled evalpts grids and is "
    "recorded as an observation (DESIGN section 7, C13), not checked",
    "model of the pinned construct_volume (used only for the refutation theorems) was compared with the pinned "
    "code once by hand (driver op convolpinned, 69 cases, no disagreement); it is not part of the recurring run",
]
TRUSTED = []


# ---------------------------------------------------------------- text forms (same as Driver/Layout.lean)
def crv_txt(c):
    return "%d %s %s" % (c['deg'], show_list(c['kv']), show_pts(c['pts']))


def srf_txt(s):
    return "%d %d %s %s %d %d %s" % (s['du'], s['dv'], show_list(s['ku']), show_list(s['kv']), s['su'], s['sv'], show_pts(s['pts']))


def vol_txt(v):
    return "%d %d %d %s %s %s %d %d %d %s" % (v['du'], v['dv'], v['dw'], show_list(v['ku']), show_list(v['kv']), show_list(v['kw']),
                                                v['su'], v['sv'], v['sw'], show_pts(v['pts']))


def join(l):
    return " / ".join(l)


# ---------------------------------------------------------------- real objects <-> plain data
def net_of(o):
    return o.ctrlptsw if o.rational else o.ctrlpts


def mk_curve(c, rat):
    from geomdl import BSpline, NURBS
    o = NURBS.Curve() if rat else BSpline.Curve()
    o.degree = c['deg']
    o.set_ctrlpts(qpts(c['pts']))
    o.knotvector = qs(c['kv'])
    return o


def mk_surf(s, rat):
    from geomdl import BSpline, NURBS
    o = NURBS.Surface() if rat else BSpline.Surface()
    o.degree_u = s['du']; o.degree_v = s['dv']
    o.set_ctrlpts(qpts(s['pts']), s['su'], s['sv'])
    o.knotvector_u = qs(s['ku']); o.knotvector_v = qs(s['kv'])
    return o


def mk_vol(v, rat):
    from geomdl import BSpline, NURBS
    o = NURBS.Volume() if rat else BSpline.Volume()
    o.degree_u = v['du']; o.degree_v = v['dv']; o.degree_w = v['dw']
    o.set_ctrlpts(qpts(v['pts']), v['su'], v['sv'], v['sw'])
    o.knotvector_u = qs(v['ku']); o.knotvector_v = qs(v['kv']); o.knotvector_w = qs(v['kw'])
    return o


def plain(P):
    """exact numbers -> Fractions (so that == and printing do not depend on the number class)"""
    from qnum import Q
    def one(x):
        if isinstance(x, Q):
            return x.q
        return F(x)
    return [[one(c) for c in p] for p in P]


def plainl(v):
    return plain([v])[0]


def crv_data(o):
    return dict(deg=o.degree, kv=plainl(o.knotvector), pts=plain(net_of(o)))


def srf_data(o):
    return dict(du=o.degree_u, dv=o.degree_v, ku=plainl(o.knotvector_u), kv=plainl(o.knotvector_v),
                su=o.ctrlpts_size_u, sv=o.ctrlpts_size_v, pts=plain(net_of(o)))


def vol_data(o):
    return dict(du=o.degree_u, dv=o.degree_v, dw=o.degree_w, ku=plainl(o.knotvector_u), kv=plainl(o.knotvector_v),
                kw=plainl(o.knotvector_w), su=o.ctrlpts_size_u, sv=o.ctrlpts_size_v, sw=o.ctrlpts_size_w, pts=plain(net_of(o)))


# ---------------------------------------------------------------- generators
def kv_for(rng, p, n):
    """clamped knot vector on [0,1] for n control points of degree p; interior multiplicities up to p"""
    den = rng.choice([8, 12, 7, 10, 9])
    need = n - p - 1
    ints = []
    while len(ints) < need:
        x = F(rng.randint(1, den - 1), den)
        m = rng.randint(1, p)
        if ints.count(x) + m <= p:
            ints += [x] * min(m, need - len(ints))
    return [F(0)] * (p + 1) + sorted(ints) + [F(1)] * (p + 1)


def distinct_pts(rng, n, dim, rat):
    while True:
        P = G.points(rng, n, dim)
        if len({tuple(p) for p in P}) == n:
            break
    if rat:
        P = G.homogeneous(P, G.weights(rng, n))
    return P


def sizes_degrees(rng, k, maxs):
    """k pairwise different sizes and k pairwise different degrees with degree < size"""
    while True:
        sz = rng.sample(range(2, maxs + 1), k)
        dg = [rng.randint(1, s - 1) for s in sz]
        if len(set(dg)) == k:
            G.count('sizes', tuple(sz)); G.count('degrees', tuple(dg))
            return sz, dg


def rand_surf(rng, maxs=6):
    (su, sv), (du, dv) = sizes_degrees(rng, 2, maxs)
    rat = rng.random() < .45
    dim = rng.choice([2, 3])
    G.count('rational', rat)
    return dict(du=du, dv=dv, ku=kv_for(rng, du, su), kv=kv_for(rng, dv, sv), su=su, sv=sv,
                pts=distinct_pts(rng, su * sv, dim, rat)), rat


def rand_vol(rng, maxs=5):
    (su, sv, sw), (du, dv, dw) = sizes_degrees(rng, 3, maxs)
    rat = rng.random() < .45
    G.count('rational', rat)
    return dict(du=du, dv=dv, dw=dw, ku=kv_for(rng, du, su), kv=kv_for(rng, dv, sv), kw=kv_for(rng, dw, sw),
                su=su, sv=sv, sw=sw, pts=distinct_pts(rng, su * sv * sw, 3, rat)), rat


def rand_curve(rng, rat=None, dim=None):
    n = rng.randint(2, 7); p = rng.randint(1, n - 1)
    rat = (rng.random() < .45) if rat is None else rat
    dim = rng.choice([2, 3]) if dim is None else dim
    return dict(deg=p, kv=kv_for(rng, p, n), pts=distinct_pts(rng, n, dim, rat)), rat


def params(rng, k=3):
    out = [(F(0), F(1)), (F(1), F(0))]
    for _ in range(k):
        out.append((F(rng.randint(0, 12), 12), F(rng.randint(0, 10), 10)))
    return out


def ex_curves_py(S, key):
    """reference extraction straight from the layout definition (no geomdl code)"""
    su, sv, P = S['su'], S['sv'], S['pts']
    if key == 'v':
        return [dict(deg=S['dv'], kv=S['kv'], pts=[P[v + sv * u] for v in range(sv)]) for u in range(su)]
    return [dict(deg=S['du'], kv=S['ku'], pts=[P[v + sv * u] for u in range(su)]) for v in range(sv)]


def ex_surfs_py(V, key):
    su, sv, sw, P = V['su'], V['sv'], V['sw'], V['pts']
    at = lambda u, v, w: P[v + sv * (u + su * w)]
    if key == 'uv':
        return [dict(du=V['du'], dv=V['dv'], ku=V['ku'], kv=V['kv'], su=su, sv=sv,
                     pts=[at(u, v, w) for u in range(su) for v in range(sv)]) for w in range(sw)]
    if key == 'uw':
        return [dict(du=V['du'], dv=V['dw'], ku=V['ku'], kv=V['kw'], su=su, sv=sw,
                     pts=[at(u, v, w) for u in range(su) for w in range(sw)]) for v in range(sv)]
    return [dict(du=V['dv'], dv=V['dw'], ku=V['kv'], kv=V['kw'], su=sv, sv=sw,
                 pts=[at(u, v, w) for v in range(sv) for w in range(sw)]) for u in range(su)]


def kv_ok(deg, kv, n):
    """guard of the knot-vector setter behind construct_*: degree >= 1 (the eagerly evaluated default
    knotvector.generate(0, n) raises), knotvector.check (length, non-decreasing), and a non-zero range (normalize)"""
    return deg >= 1 and len(kv) == deg + n + 1 and all(a <= b for a, b in zip(kv, kv[1:])) and kv[0] != kv[-1]


def kv_norm(kv):
    return [(x - kv[0]) / (kv[-1] - kv[0]) for x in kv]


def kv_variant(rng, deg, n):
    """(label, degree, knot vector) for the knotvector= argument of construct_*: two valid un-normalised forms (the
    setter normalises) and the malformed ones (the setter / the default-argument evaluation raises)"""
    base = kv_for(rng, deg, n)
    r = rng.choice(['unnorm', 'unclamped', 'deg0', 'unsorted', 'wronglen', 'allequal'])
    if r == 'unnorm':
        a, b = F(rng.randint(2, 5), rng.choice([1, 2])), F(rng.randint(-3, 3))
        return r, deg, [a * x + b for x in base]
    if r == 'unclamped':
        return r, deg, [F(i, 2) for i in range(deg + n + 1)]
    if r == 'deg0':
        return r, 0, [F(i, n) for i in range(n + 1)]
    if r == 'unsorted':
        kv = list(base); kv[deg], kv[deg + 1] = F(2, 3), F(1, 3)
        return r, deg, kv
    if r == 'wronglen':
        return r, deg, base[:-1] if rng.random() < .5 else base + [F(1)]
    return r, deg, [F(1)] * (deg + n + 1)


KEY_OF_DIR = {'u': 'vw', 'v': 'uw', 'w': 'uv'}          # which extracted family is stacked along which direction
OTHER = {'u': ('du', 'ku'), 'v': ('dv', 'kv'), 'w': ('dw', 'kw')}


def convol_case(V, rat, d, tags=()):
    ss = ex_surfs_py(V, KEY_OF_DIR[d])
    deg, kv = V[OTHER[d][0]], V[OTHER[d][1]]
    line = "convol %s %d %s %s" % (d, deg, show_list(kv), " ".join(srf_txt(s) for s in ss))
    return Case('convol-' + d, line, dict(dir=d, deg=deg, kv=kv, surfs=ss, rat=rat, vol=V), tags=tags)


def rat_twin(c):
    """the same input for the model WITH the ctrlpts / weights split-and-recombine (Model/LayoutRat.lean):
    ops consurfr / convolr / sweepcr / sweepsr; rational cases only"""
    if not c.data.get('rat'):
        return None
    k, ln = c.kind, c.line
    if k.startswith('consurf-'):
        return Case('consurfr-' + k[len('consurf-'):], 'consurfr' + ln[len('consurf'):], dict(c.data), tags=c.tags)
    if k.startswith('convol-'):
        return Case('convolr-' + k[len('convol-'):], 'convolr' + ln[len('convol'):], dict(c.data), tags=c.tags)
    if k == 'sweepc':
        assert ln.startswith('sweepc 1 ')
        return Case('sweepcr', 'sweepcr ' + ln[len('sweepc 1 '):], dict(c.data), tags=c.tags)
    if k == 'sweeps':
        assert ln.startswith('sweeps 1 ')
        return Case('sweepsr', 'sweepsr ' + ln[len('sweeps 1 '):], dict(c.data), tags=c.tags)
    if k == 'sweepc-short':
        return Case('sweepcr-short', 'sweepcr ' + ln[len('sweepc 1 '):], dict(c.data), tags=c.tags)
    if k == 'sweeps-short':
        return Case('sweepsr-short', 'sweepsr ' + ln[len('sweeps 1 '):], dict(c.data), tags=c.tags)
    return None


def zero_weight(rng, P):
    """one homogeneous point gets weight 0 (separate_ctrlpts_weights divides by it)"""
    P = [list(p) for p in P]
    P[rng.randrange(len(P))][-1] = F(0)
    return P


def gen(rng, tier):
    out = gen_base(rng, tier)
    tw = [t for t in (rat_twin(c) for c in out) if t is not None]
    # malformed stream of the split-and-recombine ops: a zero weight in one input
    bad = []
    for t in tw:
        if t.kind.endswith('-short') or '-kv' in t.kind:
            continue            # already malformed streams of their own
        if rng.random() < .12:
            d = dict(t.data)
            if t.kind.startswith('consurfr-'):
                cs = [dict(x) for x in d['crvs']]
                i = rng.randrange(len(cs)); cs[i]['pts'] = zero_weight(rng, cs[i]['pts'])
                d['crvs'] = cs; d.pop('srf', None)
                ln = "consurfr %s %d %s %s" % (d['dir'], d['deg'], show_list(d['kv']), " ".join(crv_txt(x) for x in cs))
            elif t.kind.startswith('convolr-'):
                ss = [dict(x) for x in d['surfs']]
                i = rng.randrange(len(ss)); ss[i]['pts'] = zero_weight(rng, ss[i]['pts'])
                d['surfs'] = ss; d.pop('vol', None)
                ln = "convolr %s %d %s %s" % (d['dir'], d['deg'], show_list(d['kv']), " ".join(srf_txt(x) for x in ss))
            elif t.kind == 'sweepcr':
                c = dict(d['crv']); c['pts'] = zero_weight(rng, c['pts']); d['crv'] = c
                ln = "sweepcr %s %s" % (crv_txt(c), show_list(d['vec']))
            else:
                S = dict(d['srf']); S['pts'] = zero_weight(rng, S['pts']); d['srf'] = S
                ln = "sweepsr %s %s" % (show_list(d['vec']), srf_txt(S))
            d['zero'] = True
            G.count('ratzero', t.kind.split('-')[0])
            bad.append(Case('ratzero', ln, d))
    return out + tw + bad


def gen_base(rng, tier):
    quick = tier == 'quick'
    out = []
    # the recorded witnesses first (small): 2x3x4 net (F-13a), a quadratic curve swept (F-13b)
    V = dict(du=1, dv=2, dw=3, ku=kv_for(rng, 1, 2), kv=kv_for(rng, 2, 3), kw=kv_for(rng, 3, 4), su=2, sv=3, sw=4,
             pts=[[F(u), F(v), F(w)] for w in range(4) for u in range(2) for v in range(3)])
    for d in 'uvw':
        out.append(convol_case(V, False, d, tags=('witness',)))
    c = dict(deg=2, kv=[F(0)] * 3 + [F(1)] * 3, pts=[[F(0), F(0)], [F(1), F(2)], [F(3), F(1)]])
    vec = [F(1), F(1, 2)]
    out.append(Case('sweepc', "sweepc 0 %s %s" % (crv_txt(c), show_list(vec)), dict(crv=c, rat=False, vec=vec), tags=('witness',)))

    n_s = 45 if quick else 600
    for _ in range(n_s):
        S, rat = rand_surf(rng, 6 if quick else 8)
        su, sv, P = S['su'], S['sv'], S['pts']
        base = dict(srf=S, rat=rat)
        out.append(Case('c2d', "c2d %d %d %s" % (su, sv, show_pts(P)), dict(base, prm=params(rng))))
        Gd = [[P[v + sv * u] for v in range(sv)] for u in range(su)]
        out.append(Case('set2d', "set2d %d %d %s" % (S['du'], S['dv'], show_pts2(Gd)), dict(base, grid=Gd)))
        u, v = rng.randint(0, su - 1), rng.randint(0, sv - 1)
        if rng.random() < .12:
            u, v = rng.randint(0, su + 1), rng.randint(0, sv + 2)       # possibly outside
        out.append(Case('mgrget2', "mgrget2 %d %d %s %d %d" % (su, sv, show_pts(P), u, v), dict(base, u=u, v=v)))
        pt = [F(99)] * len(P[0])
        out.append(Case('mgrset2', "mgrset2 %d %d %s %d %d %s" % (su, sv, show_pts(P), u, v, show_list(pt)), dict(base, u=u, v=v, pt=pt)))
        out.append(Case('flipu', "flipu %d %d %s" % (su, sv, show_pts(P)), base))
        out.append(Case('flipc', "flipc %d %d %s" % (su, sv, show_pts(P)), base))
        out.append(Case('flip2d', "flip2d %d %d %s" % (su, sv, show_pts2(Gd)), dict(base, grid=Gd)))
        out.append(Case('transpose', "transpose " + srf_txt(S), dict(base, prm=params(rng))))
        out.append(Case('flip', "flip " + srf_txt(S), base))
        out.append(Case('fliploop', "fliploop " + srf_txt(S), base))
        for d in 'uv':
            out.append(Case('excurves-' + d, "excurves %s %s" % (d, srf_txt(S)), dict(base, dir=d, prm=params(rng, 2))))
        # construct_surface from the extracted families (round trip) ...
        for d, key, deg, kv in (('u', 'v', S['du'], S['ku']), ('v', 'u', S['dv'], S['kv'])):
            cs = ex_curves_py(S, key)
            out.append(Case('consurf-' + d, "consurf %s %d %s %s" % (d, deg, show_list(kv), " ".join(crv_txt(c) for c in cs)),
                            dict(dir=d, deg=deg, kv=kv, crvs=cs, rat=rat, srf=S)))
        vec = [F(rng.randint(-5, 5), rng.choice([1, 2, 3])) for _ in range(len(P[0]) - (1 if rat else 0))]
        out.append(Case('sweeps', "sweeps %d %s %s" % (1 if rat else 0, show_list(vec), srf_txt(S)), dict(base, vec=vec, prm=params(rng, 2))))
        if rng.random() < .2:
            # malformed: a vector SHORTER than the points have spatial coordinates (point_translate zips: the translated
            # points lose coordinates and set_ctrlpts of the swept copy raises); both sides must refuse
            short = vec[:rng.randint(1, len(vec) - 1)]
            G.count('sweep-short', 'surface')
            out.append(Case('sweeps-short', "sweeps %d %s %s" % (1 if rat else 0, show_list(short), srf_txt(S)), dict(base, vec=short)))
    # ... and from unrelated curves of equal degree and size, plus the malformed stream
    for _ in range(30 if quick else 400):
        c0, rat = rand_curve(rng)
        n = rng.randint(2, 6)
        dim = len(c0['pts'][0]) - (1 if rat else 0)
        cs = [c0] + [dict(deg=c0['deg'], kv=kv_for(rng, c0['deg'], len(c0['pts'])), pts=distinct_pts(rng, len(c0['pts']), dim, rat)) for _ in range(n - 1)]
        deg = rng.randint(1, n - 1) if n > 2 else 1
        kv = kv_for(rng, deg, n)
        r = rng.random()
        kind = 'consurf-free'
        if r < .08:
            cs = cs[:1]; kind = 'consurf-bad'
        elif r < .16:
            cs[-1] = dict(cs[-1], pts=cs[-1]['pts'] + [cs[-1]['pts'][0]], kv=kv_for(rng, c0['deg'], len(c0['pts']) + 1)); kind = 'consurf-bad'
        elif r < .24 and len(c0['pts']) > c0['deg'] + 1:
            cs[-1] = dict(cs[-1], deg=c0['deg'] + 1, kv=kv_for(rng, c0['deg'] + 1, len(c0['pts']))); kind = 'consurf-bad'
        elif r < .30:
            deg = n; kv = [F(0)] * (n + 1) + [F(1)] * (n + 1); kind = 'consurf-bad'
        d = rng.choice('uv')
        G.count('consurf', kind)
        out.append(Case(kind, "consurf %s %d %s %s" % (d, deg, show_list(kv), " ".join(crv_txt(c) for c in cs)),
                        dict(dir=d, deg=deg, kv=kv, crvs=cs, rat=rat)))
        if kind == 'consurf-free' and rng.random() < .6:
            # the knotvector= argument goes through the knot-vector setter: valid un-normalised vectors are normalised,
            # invalid ones (and degree=0) raise
            lab, deg2, kv2 = kv_variant(rng, deg, n)
            kind2 = 'consurf-kvnorm' if lab in ('unnorm', 'unclamped') else 'consurf-kvbad'
            G.count('consurf-kv', lab)
            out.append(Case(kind2, "consurf %s %d %s %s" % (d, deg2, show_list(kv2), " ".join(crv_txt(c) for c in cs)),
                            dict(dir=d, deg=deg2, kv=kv2, crvs=cs, rat=rat, kvlab=lab)))
        c, rat = rand_curve(rng)
        dim = len(c['pts'][0]) - (1 if rat else 0)
        vec = [F(rng.randint(-5, 5), rng.choice([1, 2, 3])) for _ in range(dim)]
        out.append(Case('sweepc', "sweepc %d %s %s" % (1 if rat else 0, crv_txt(c), show_list(vec)), dict(crv=c, rat=rat, vec=vec, prm=params(rng, 2))))
        if rng.random() < .3:
            short = vec[:rng.randint(1, dim - 1)]
            G.count('sweep-short', 'curve')
            out.append(Case('sweepc-short', "sweepc %d %s %s" % (1 if rat else 0, crv_txt(c), show_list(short)), dict(crv=c, rat=rat, vec=short)))
        elif rng.random() < .15:
            # a LONGER vector is fine on both sides (zip cuts it)
            lng = vec + [F(rng.randint(1, 4))]
            out.append(Case('sweepc', "sweepc %d %s %s" % (1 if rat else 0, crv_txt(c), show_list(lng)), dict(crv=c, rat=rat, vec=lng, prm=params(rng, 1))))
    n_v = 22 if quick else 300
    for _ in range(n_v):
        V, rat = rand_vol(rng, 5 if quick else 6)
        su, sv, sw, P = V['su'], V['sv'], V['sw'], V['pts']
        base = dict(vol=V, rat=rat)
        u, v, w = rng.randint(0, su - 1), rng.randint(0, sv - 1), rng.randint(0, sw - 1)
        if rng.random() < .12:
            u, v, w = rng.randint(0, su + 1), rng.randint(0, sv + 1), rng.randint(0, sw + 1)
        out.append(Case('mgrget3', "mgrget3 %d %d %d %s %d %d %d" % (su, sv, sw, show_pts(P), u, v, w), dict(base, u=u, v=v, w=w)))
        pt = [F(99)] * len(P[0])
        out.append(Case('mgrset3', "mgrset3 %d %d %d %s %d %d %d %s" % (su, sv, sw, show_pts(P), u, v, w, show_list(pt)), dict(base, u=u, v=v, w=w, pt=pt)))
        for key in ('uv', 'uw', 'vw'):
            out.append(Case('exsurfs-' + key, "exsurfs %s %s" % (key, vol_txt(V)), dict(base, key=key, prm=params(rng, 1))))
        for d in 'uvw':
            out.append(convol_case(V, rat, d))
        if rng.random() < .5:
            d = rng.choice('uvw')
            ss = ex_surfs_py(V, KEY_OF_DIR[d])
            lab, deg2, kv2 = kv_variant(rng, V[OTHER[d][0]], len(ss))
            kind2 = 'convol-kvnorm' if lab in ('unnorm', 'unclamped') else 'convol-kvbad'
            G.count('convol-kv', lab)
            out.append(Case(kind2, "convol %s %d %s %s" % (d, deg2, show_list(kv2), " ".join(srf_txt(s) for s in ss)),
                            dict(dir=d, deg=deg2, kv=kv2, surfs=ss, rat=rat, kvlab=lab)))
        # malformed: one surface only / one surface of another size
        if rng.random() < .3:
            ss = ex_surfs_py(V, 'uv')
            bad = ss[:1] if rng.random() < .5 else ss[:-1] + [ex_surfs_py(V, 'uw')[0]]
            d = rng.choice('uvw')
            kvb = kv_for(rng, 1, max(2, len(bad)))
            out.append(Case('convol-bad', "convol %s 1 %s %s" % (d, show_list(kvb), " ".join(srf_txt(s) for s in bad)),
                            dict(dir=d, deg=1, kv=kvb, surfs=bad, rat=rat)))
    return out


# ---------------------------------------------------------------- implementation
def impl(c):
    from geomdl import BSpline, NURBS, construct, sweeping, operations, control_points, compatibility
    d = c.data
    k = c.kind
    rat = d.get('rat', False)
    if k == 'c2d':
        return show_pts2(mk_surf(d['srf'], rat).ctrlpts2d)
    if k == 'set2d':
        S = d['srf']
        o = NURBS.Surface() if rat else BSpline.Surface()
        o.degree_u = S['du']; o.degree_v = S['dv']
        o.ctrlpts2d = [qpts(r) for r in d['grid']]
        return "%d %d %s" % (o.ctrlpts_size_u, o.ctrlpts_size_v, show_pts(net_of(o)))
    if k in ('mgrget2', 'mgrset2'):
        S = d['srf']
        m = control_points.SurfaceManager(S['su'], S['sv'])
        m.ctrlpts = qpts(S['pts'])
        if k == 'mgrget2':
            r = m.get_ctrlpt(d['u'], d['v'])
            return 'None' if r is None else show_list(r)
        m.set_ctrlpt(qs(d['pt']), d['u'], d['v'])
        return show_pts(m.ctrlpts)
    if k in ('mgrget3', 'mgrset3'):
        V = d['vol']
        m = control_points.VolumeManager(V['su'], V['sv'], V['sw'])
        m.ctrlpts = qpts(V['pts'])
        if k == 'mgrget3':
            r = m.get_ctrlpt(d['u'], d['v'], d['w'])
            return 'None' if r is None else show_list(r)
        m.set_ctrlpt(qs(d['pt']), d['u'], d['v'], d['w'])
        return show_pts(m.ctrlpts)
    if k == 'flipu':
        S = d['srf']
        return show_pts(compatibility.flip_ctrlpts_u(qpts(S['pts']), S['su'], S['sv']))
    if k == 'flipc':
        S = d['srf']
        return show_pts(compatibility.flip_ctrlpts(qpts(S['pts']), S['su'], S['sv']))
    if k == 'flip2d':
        S = d['srf']
        return show_pts2(compatibility.flip_ctrlpts2d([qpts(r) for r in d['grid']], S['su'], S['sv']))
    if k == 'transpose':
        return srf_txt(srf_data(operations.transpose(mk_surf(d['srf'], rat))))
    if k in ('flip', 'fliploop'):
        return srf_txt(srf_data(operations.flip(mk_surf(d['srf'], rat))))
    if k.startswith('excurves-'):
        ex = construct.extract_curves(mk_surf(d['srf'], rat))
        return join(crv_txt(crv_data(o)) for o in ex[d['dir']])
    if k == 'ratzero':
        k = c.line.split(' ', 1)[0] + '-'
    if k.startswith('consurf-') or k.startswith('consurfr-'):
        cs = [mk_curve(cc, rat) for cc in d['crvs']]
        return srf_txt(srf_data(construct.construct_surface(d['dir'], *cs, degree=d['deg'], knotvector=qs(d['kv']))))
    if k.startswith('exsurfs-'):
        ex = construct.extract_surfaces(mk_vol(d['vol'], rat))
        return join(srf_txt(srf_data(o)) for o in ex[d['key']])
    if k.startswith('convol-') or k.startswith('convolr-'):
        ss = [mk_surf(s, rat) for s in d['surfs']]
        return vol_txt(vol_data(construct.construct_volume(d['dir'], *ss, degree=d['deg'], knotvector=qs(d['kv']))))
    if k in ('sweepc', 'sweepcr', 'sweepcr-', 'sweepc-short', 'sweepcr-short'):
        return srf_txt(srf_data(sweeping.sweep_vector(mk_curve(d['crv'], rat), qs(d['vec']))))
    if k in ('sweeps', 'sweepsr', 'sweepsr-', 'sweeps-short', 'sweepsr-short'):
        return vol_txt(vol_data(sweeping.sweep_vector(mk_surf(d['srf'], rat), qs(d['vec']))))
    raise ValueError(k)


# ---------------------------------------------------------------- the property, on the implementation
def _ev(o, prm):
    if len(prm) == 1:
        return plainl(o.evaluate_single(q(prm[0])))
    return plainl(o.evaluate_single(tuple(q(x) for x in prm)))


def _tensor_eval(S, rat, a, b):
    """independent reference: sum_ij N_i(a) N_j(b) P[j + sv*i] with Cox-de Boor"""
    su, sv, P = S['su'], S['sv'], S['pts']
    dim = len(P[0])
    Nu = [G.cox_de_boor(S['ku'], S['du'], i, a, F(1)) for i in range(su)]
    Nv = [G.cox_de_boor(S['kv'], S['dv'], j, b, F(1)) for j in range(sv)]
    acc = [F(0)] * dim
    for i in range(su):
        for j in range(sv):
            for t in range(dim):
                acc[t] += Nu[i] * Nv[j] * P[j + sv * i][t]
    return [x / acc[-1] for x in acc[:-1]] if rat else acc


def _tensor_eval3(V, rat, a, b, c):
    su, sv, sw, P = V['su'], V['sv'], V['sw'], V['pts']
    dim = len(P[0])
    Nu = [G.cox_de_boor(V['ku'], V['du'], i, a, F(1)) for i in range(su)]
    Nv = [G.cox_de_boor(V['kv'], V['dv'], j, b, F(1)) for j in range(sv)]
    Nw = [G.cox_de_boor(V['kw'], V['dw'], k, c, F(1)) for k in range(sw)]
    acc = [F(0)] * dim
    for i in range(su):
        for j in range(sv):
            for k in range(sw):
                for t in range(dim):
                    acc[t] += Nu[i] * Nv[j] * Nw[k] * P[j + sv * (i + su * k)][t]
    return [x / acc[-1] for x in acc[:-1]] if rat else acc


def _same_srf(a, b):
    for key in ('du', 'dv', 'ku', 'kv', 'su', 'sv', 'pts'):
        if a[key] != b[key]:
            return key
    return None


def _same_vol(a, b):
    for key in ('du', 'dv', 'dw', 'ku', 'kv', 'kw', 'su', 'sv', 'sw', 'pts'):
        if a[key] != b[key]:
            return key
    return None


def _translate(P, vec, rat):
    if not rat:
        return [[c + t for c, t in zip(p, vec)] for p in P]
    return [[c + t * p[-1] for c, t in zip(p[:-1], vec)] + [p[-1]] for p in P]


def _stack_expected(d, kind):
    """what the layout model claims for rational input: the stacked homogeneous nets, re-ordered; no arithmetic"""
    if kind.startswith('consurfr'):
        cs = d['crvs']; n, num = len(cs), len(cs[0]['pts'])
        flat = [p for x in cs for p in x['pts']]
        if d['dir'] == 'u':
            return flat
        return [flat[i + j * num] for i in range(num) for j in range(n)]
    ss = d['surfs']; n, a, b = len(ss), ss[0]['su'], ss[0]['sv']
    flat = [p for x in ss for p in x['pts']]
    if d['dir'] == 'w':
        return flat
    if d['dir'] == 'u':
        return [flat[w + v * b + u * a * b] for w in range(b) for u in range(n) for v in range(a)]
    return [flat[w + u * b + v * a * b] for w in range(b) for u in range(a) for v in range(n)]


def oracle_rat(c):
    """split-and-recombine = identity on homogeneous points (non-zero weights); a zero weight must raise"""
    from geomdl import construct, sweeping
    d = c.data
    k = c.kind
    if k == 'ratzero':
        try:
            impl(c)
        except Exception:
            return None
        return "a zero weight was accepted by the ctrlpts / weights split"
    if k.startswith('consurfr-') or k.startswith('convolr-'):
        if k.startswith('consurfr-'):
            cs = d['crvs']
            ok = len(cs) >= 2 and all(x['deg'] == cs[0]['deg'] and len(x['pts']) == len(cs[0]['pts']) for x in cs) and d['deg'] + 1 <= len(cs) \
                and kv_ok(d['deg'], d['kv'], len(cs))
            f = lambda: construct.construct_surface(d['dir'], *[mk_curve(x, True) for x in cs], degree=d['deg'], knotvector=qs(d['kv']))
        else:
            ss = d['surfs']
            ok = len(ss) >= 2 and all((x['du'], x['dv'], x['su'], x['sv']) == (ss[0]['du'], ss[0]['dv'], ss[0]['su'], ss[0]['sv']) for x in ss) \
                and d['deg'] + 1 <= len(ss) and kv_ok(d['deg'], d['kv'], len(ss))
            f = lambda: construct.construct_volume(d['dir'], *[mk_surf(x, True) for x in ss], degree=d['deg'], knotvector=qs(d['kv']))
        try:
            r = f()
        except Exception as e:
            return None if not ok else "%s raised %s on admissible rational input" % (k.split('-')[0][:-1], type(e).__name__)
        if not ok:
            return None          # judged by the base stream
        if plain(r.ctrlptsw) != _stack_expected(d, k):
            return "rational %s: the homogeneous net of the result is not the stacked homogeneous nets (split-and-recombine is not the identity)" % k
        return None
    if k in ('sweepcr', 'sweepsr'):
        o = mk_curve(d['crv'], True) if k == 'sweepcr' else mk_surf(d['srf'], True)
        P = (d['crv'] if k == 'sweepcr' else d['srf'])['pts']
        if k == 'sweepsr' and len(d['vec']) < 3:
            return None
        r = sweeping.sweep_vector(o, qs(d['vec']))
        if plain(r.ctrlptsw) != P + _translate(P, d['vec'], True):
            return "rational sweep: the homogeneous net is not [net, net translated in Cartesian coordinates with the weights kept]"
        return None
    return None


def oracle(c):
    from geomdl import construct, sweeping, operations, control_points, compatibility
    import copy
    d = c.data
    k = c.kind
    rat = d.get('rat', False)
    if k.endswith('-short'):
        # a vector with fewer entries than the points have spatial coordinates: sweep_vector must refuse
        o = mk_curve(d['crv'], rat) if k.startswith('sweepc') else mk_surf(d['srf'], rat)
        try:
            sweeping.sweep_vector(o, qs(d['vec']))
        except Exception:
            return None
        return "sweep_vector accepted a vector shorter than the control points"
    if k == 'ratzero' or k.endswith('r') and k in ('sweepcr', 'sweepsr') or k.startswith('consurfr-') or k.startswith('convolr-'):
        return oracle_rat(c)
    if k in ('c2d', 'set2d', 'mgrget2', 'mgrset2'):
        S = d['srf']; su, sv, P = S['su'], S['sv'], S['pts']
        o = mk_surf(S, rat)
        g = o.ctrlpts2d
        if len(g) != su or any(len(r) != sv for r in g):
            return "ctrlpts2d is not a size_u x size_v grid"
        flat = plain(net_of(o))
        for u in range(su):
            for v in range(sv):
                if plainl(g[u][v]) != flat[v + sv * u] or flat[v + sv * u] != P[v + sv * u]:
                    return "ctrlpts2d[%d][%d] is not ctrlpts[v + size_v*u]" % (u, v)
        # the evaluator reads the same layout
        for a, b in d.get('prm', []):
            if _ev(o, (a, b)) != _tensor_eval(S, rat, a, b):
                return "evaluate_single(%s,%s) differs from sum N_i(u) N_j(v) P[j + size_v*i]" % (fr(a), fr(b))
        # setter: grid -> flat
        o2 = mk_surf(S, rat)
        o2.ctrlpts2d = [[list(p) for p in r] for r in g]
        if plain(net_of(o2)) != P or (o2.ctrlpts_size_u, o2.ctrlpts_size_v) != (su, sv):
            return "ctrlpts2d setter followed by ctrlpts does not give back the flat net"
        # managers: filling by (u, v) in an arbitrary order gives the flat net; reading gives the grid
        m = control_points.SurfaceManager(su, sv)
        order = [(u, v) for u in range(su) for v in range(sv)]
        order.sort(key=lambda t: (t[0] * 7 + t[1] * 3) % 5)
        for (u, v) in order:
            m.set_ctrlpt(qs(P[v + sv * u]), u, v)
        if plain(m.ctrlpts) != P:
            return "SurfaceManager.set_ctrlpt(pt, u, v) does not write ctrlpts[v + size_v*u]"
        for (u, v) in order:
            if plainl(m.get_ctrlpt(u, v)) != plainl(g[u][v]):
                return "SurfaceManager.get_ctrlpt(%d,%d) differs from ctrlpts2d[%d][%d]" % (u, v, u, v)
        return None
    if k in ('mgrget3', 'mgrset3'):
        V = d['vol']; su, sv, sw, P = V['su'], V['sv'], V['sw'], V['pts']
        m = control_points.VolumeManager(su, sv, sw)
        order = [(u, v, w) for u in range(su) for v in range(sv) for w in range(sw)]
        order.sort(key=lambda t: (t[0] * 7 + t[1] * 3 + t[2] * 5) % 11)
        for (u, v, w) in order:
            m.set_ctrlpt(qs(P[v + sv * (u + su * w)]), u, v, w)
        if plain(m.ctrlpts) != P:
            return "VolumeManager.set_ctrlpt(pt, u, v, w) does not write ctrlpts[v + size_v*(u + size_u*w)]"
        o = mk_vol(V, rat)
        ex = construct.extract_surfaces(o)
        for (u, v, w) in order:
            want = P[v + sv * (u + su * w)]
            if plainl(m.get_ctrlpt(u, v, w)) != want:
                return "VolumeManager.get_ctrlpt(%d,%d,%d) is not ctrlpts[v + size_v*(u + size_u*w)]" % (u, v, w)
            if plainl(ex['uv'][w].ctrlpts2d[u][v]) != want or plainl(ex['uw'][v].ctrlpts2d[u][w]) != want or plainl(ex['vw'][u].ctrlpts2d[v][w]) != want:
                return "extract_surfaces and VolumeManager disagree at (%d,%d,%d)" % (u, v, w)
        for prm in [(F(0), F(1), F(0)), (F(1, 3), F(1, 2), F(3, 4)), (F(1), F(0), F(1))]:
            if _ev(o, prm) != _tensor_eval3(V, rat, *prm):
                return "volume evaluate_single%s differs from the tensor-product sum over P[v + size_v*(u + size_u*w)]" % (tuple(fr(x) for x in prm),)
        return None
    if k in ('flipu', 'flipc', 'flip2d'):
        S = d['srf']; su, sv, P = S['su'], S['sv'], S['pts']
        fu = plain(compatibility.flip_ctrlpts_u(qpts(P), su, sv))
        fc = plain(compatibility.flip_ctrlpts(qpts(P), su, sv))
        for i in range(su):
            for j in range(sv):
                if fu[j + sv * i] != P[i + su * j]:
                    return "flip_ctrlpts_u: entry j + size_v*i is not input entry i + size_u*j"
                if fc[i + su * j] != P[j + sv * i]:
                    return "flip_ctrlpts: entry i + size_u*j is not input entry j + size_v*i"
        if plain(compatibility.flip_ctrlpts(qpts(fu), su, sv)) != P:
            return "flip_ctrlpts(flip_ctrlpts_u(P)) != P"
        if plain(compatibility.flip_ctrlpts_u(qpts(fc), su, sv)) != P:
            return "flip_ctrlpts_u(flip_ctrlpts(P)) != P"
        g = [[P[v + sv * u] for v in range(sv)] for u in range(su)]
        g2 = compatibility.flip_ctrlpts2d([qpts(r) for r in g], su, sv)
        if [plainl(p) for r in g2 for p in r] != fc:
            return "flattened flip_ctrlpts2d(ctrlpts2d) differs from flip_ctrlpts(ctrlpts)"
        g3 = compatibility.flip_ctrlpts2d(g2, sv, su)
        if [plain(r) for r in g3] != g:
            return "flip_ctrlpts2d twice is not the identity"
        return None
    if k == 'transpose':
        S = d['srf']; su, sv = S['su'], S['sv']
        o = mk_surf(S, rat)
        t = operations.transpose(o)
        T = srf_data(t)
        if srf_data(o) != S:
            return "transpose (inplace=False) changed its input"
        if (T['du'], T['dv'], T['ku'], T['kv'], T['su'], T['sv']) != (S['dv'], S['du'], S['kv'], S['ku'], sv, su):
            return "transpose does not swap degrees / knot vectors / sizes"
        for u in range(su):
            for v in range(sv):
                if plainl(t.ctrlpts2d[v][u]) != S['pts'][v + sv * u]:
                    return "transposed ctrlpts2d[%d][%d] is not the original ctrlpts2d[%d][%d]" % (v, u, u, v)
        for a, b in d.get('prm', []):
            if _ev(t, (b, a)) != _ev(o, (a, b)):
                return "S^T(%s,%s) != S(%s,%s)" % (fr(b), fr(a), fr(a), fr(b))
        if srf_data(operations.transpose(t)) != S:
            return "transpose twice is not the identity"
        o2 = mk_surf(S, rat)
        operations.transpose(o2, inplace=True)
        if srf_data(o2) != T:
            return "transpose(inplace=True) differs from transpose(inplace=False)"
        return None
    if k in ('flip', 'fliploop'):
        S = d['srf']; su, sv = S['su'], S['sv']
        o = mk_surf(S, rat)
        f = operations.flip(o)
        if (f.ctrlpts_size_u, f.ctrlpts_size_v, f.degree, plain(f.knotvector)) != (su, sv, [S['du'], S['dv']], [S['ku'], S['kv']]):
            return "flip changes sizes, degrees or knot vectors"
        for u in range(su):
            for v in range(sv):
                if plainl(f.ctrlpts2d[u][v]) != S['pts'][(sv - 1 - v) + sv * (su - 1 - u)]:
                    return "flipped ctrlpts2d[%d][%d] is not ctrlpts2d[size_u-1-%d][size_v-1-%d]" % (u, v, u, v)
        if srf_data(operations.flip(f)) != S:
            return "flip twice is not the identity"
        return None
    if k.startswith('excurves-') or (k.startswith('consurf-') and 'srf' in d):
        S = d['srf']
        o = mk_surf(S, rat)
        ex = construct.extract_curves(o)
        for key in 'uv':
            if [crv_data(x) for x in ex[key]] != ex_curves_py(S, key):
                return "extract_curves['%s'] is not the family of net rows [cpts[v + size_v*u]]" % key
        # one family only (documented keyword arguments extract_u / extract_v): the requested family, the other one empty
        for kw, key, other in ((dict(extract_v=False), 'u', 'v'), (dict(extract_u=False), 'v', 'u')):
            one = construct.extract_curves(mk_surf(S, rat), **kw)
            if [crv_data(x) for x in one[key]] != ex_curves_py(S, key) or len(one[other]) != 0:
                return "extract_curves(%s) does not return exactly the '%s' family" % (", ".join("%s=%s" % kv_ for kv_ in kw.items()), key)
        # boundary rows are the boundary iso-curves (clamped knots)
        for a, _ in d.get('prm', []):
            if _ev(ex['v'][0], (a,)) != _ev(o, (F(0), a)) or _ev(ex['v'][-1], (a,)) != _ev(o, (F(1), a)):
                return "first/last curve of extract_curves['v'] is not the iso-curve u=0 / u=1"
            if _ev(ex['u'][0], (a,)) != _ev(o, (a, F(0))) or _ev(ex['u'][-1], (a,)) != _ev(o, (a, F(1))):
                return "first/last curve of extract_curves['u'] is not the iso-curve v=0 / v=1"
        for dd, key, deg, kv in (('u', 'v', S['du'], S['ku']), ('v', 'u', S['dv'], S['kv'])):
            r = construct.construct_surface(dd, *ex[key], degree=deg, knotvector=qs(kv))
            bad = _same_srf(srf_data(r), S)
            if bad:
                return "extract_curves['%s'] then construct_surface('%s') does not return the surface (%s differs)" % (key, dd, bad)
        return None
    if k.startswith('consurf-'):
        cs = d['crvs']
        ok = len(cs) >= 2 and all(x['deg'] == cs[0]['deg'] and len(x['pts']) == len(cs[0]['pts']) for x in cs) and d['deg'] + 1 <= len(cs) \
            and kv_ok(d['deg'], d['kv'], len(cs))
        try:
            r = construct.construct_surface(d['dir'], *[mk_curve(x, rat) for x in cs], degree=d['deg'], knotvector=qs(d['kv']))
        except Exception as e:
            return None if not ok else "construct_surface raised %s on admissible curves" % type(e).__name__
        if not ok:
            return "construct_surface accepted inadmissible input"
        if plainl(r.knotvector_u if d['dir'] == 'u' else r.knotvector_v) != kv_norm(d['kv']):
            return "construct_surface does not store the normalised knotvector= argument"
        ex = construct.extract_curves(r)
        back = [crv_data(x) for x in ex['v' if d['dir'] == 'u' else 'u']]
        want = [dict(x, kv=cs[0]['kv']) for x in cs]     # the first curve's knot vector is used for all
        if back != want:
            return "construct_surface('%s') then extract_curves does not return the input curves" % d['dir']
        return None
    if k.startswith('exsurfs-') or (k.startswith('convol-') and 'vol' in d):
        V = d['vol']
        o = mk_vol(V, rat)
        ex = construct.extract_surfaces(o)
        for key in ('uv', 'uw', 'vw'):
            if [srf_data(x) for x in ex[key]] != ex_surfs_py(V, key):
                return "extract_surfaces['%s'] is not the family of net slices" % key
        for a, b in d.get('prm', []):
            if _ev(ex['uv'][0], (a, b)) != _ev(o, (a, b, F(0))) or _ev(ex['uv'][-1], (a, b)) != _ev(o, (a, b, F(1))):
                return "first/last surface of extract_surfaces['uv'] is not the iso-surface w=0 / w=1"
            if _ev(ex['uw'][0], (a, b)) != _ev(o, (a, F(0), b)) or _ev(ex['vw'][-1], (a, b)) != _ev(o, (F(1), a, b)):
                return "boundary surface of extract_surfaces['uw'/'vw'] is not the iso-surface"
        for dd in 'wuv':
            r = construct.construct_volume(dd, *ex[KEY_OF_DIR[dd]], degree=V[OTHER[dd][0]], knotvector=qs(V[OTHER[dd][1]]))
            bad = _same_vol(vol_data(r), V)
            if bad:
                return "extract_surfaces['%s'] then construct_volume('%s') does not return the volume (%s differs)" % (KEY_OF_DIR[dd], dd, bad)
        return None
    if k in ('convol-kvbad', 'convol-kvnorm'):
        ss = d['surfs']
        ok = kv_ok(d['deg'], d['kv'], len(ss)) and d['deg'] + 1 <= len(ss)
        try:
            r = construct.construct_volume(d['dir'], *[mk_surf(s, rat) for s in ss], degree=d['deg'], knotvector=qs(d['kv']))
        except Exception as e:
            return None if not ok else "construct_volume raised %s on an admissible knot vector" % type(e).__name__
        if not ok:
            return "construct_volume accepted an invalid knot vector / degree 0"
        if vol_data(r)[OTHER[d['dir']][1]] != kv_norm(d['kv']):
            return "construct_volume does not store the normalised knotvector= argument"
        if [srf_data(x) for x in construct.extract_surfaces(r)[KEY_OF_DIR[d['dir']]]] != [dict(x) for x in ss]:
            return "construct_volume('%s') then extract_surfaces does not return the input surfaces" % d['dir']
        return None
    if k == 'convol-bad':
        ss = d['surfs']
        try:
            construct.construct_volume(d['dir'], *[mk_surf(s, rat) for s in ss], degree=d['deg'], knotvector=qs(d['kv']))
        except Exception:
            return None
        return "construct_volume accepted inadmissible input"
    if k == 'sweepc':
        C = d['crv']; vec = d['vec']
        o = mk_curve(C, rat)
        try:
            s = sweeping.sweep_vector(o, qs(vec))
        except Exception as e:
            return "sweep_vector(curve, vec) raised %s: %s" % (type(e).__name__, e)
        if crv_data(o) != C:
            return "sweep_vector changed its input"
        ex = construct.extract_curves(s)
        sec = [crv_data(x) for x in ex['v']]
        if len(sec) != 2 or sec[0] != C or sec[1] != dict(C, pts=_translate(C['pts'], vec, rat)):
            return "the two u-sections of the swept surface are not the input curve and its translate"
        for a, _ in d.get('prm', []):
            p0 = _ev(o, (a,))
            if _ev(s, (F(0), a)) != p0 or _ev(s, (F(1), a)) != [x + t for x, t in zip(p0, vec)]:
                return "swept surface: S(0,t) != C(t) or S(1,t) != C(t) + vec"
        return None
    if k == 'sweeps':
        S = d['srf']; vec = d['vec']
        o = mk_surf(S, rat)
        if len(vec) < 3:       # a volume needs 3-D points: documented guard of Volume.set_ctrlpts
            try:
                sweeping.sweep_vector(o, qs(vec))
            except Exception:
                return None
            return "sweep_vector built a volume from 2-D control points"
        try:
            vol = sweeping.sweep_vector(o, qs(vec))
        except Exception as e:
            return "sweep_vector(surface, vec) raised %s: %s" % (type(e).__name__, e)
        if srf_data(o) != S:
            return "sweep_vector changed its input"
        sec = [srf_data(x) for x in construct.extract_surfaces(vol)['uv']]
        if len(sec) != 2 or sec[0] != S or sec[1] != dict(S, pts=_translate(S['pts'], vec, rat)):
            return "the two w-sections of the swept volume are not the input surface and its translate"
        for a, b in d.get('prm', []):
            p0 = _ev(o, (a, b))
            if _ev(vol, (a, b, F(0))) != p0 or _ev(vol, (a, b, F(1))) != [x + t for x, t in zip(p0, vec)]:
                return "swept volume: V(u,v,0) != S(u,v) or V(u,v,1) != S(u,v) + vec"
        return None
    return None


def classify(c, why):
    """label the two recorded defects (repair planned: they are NOT open known findings, so they stay violations)"""
    if c.kind.startswith('convol-') or c.kind.startswith('exsurfs-'):
        if "construct_volume('u')" in why or "construct_volume('v')" in why:
            return 'F-13a'
    if c.kind == 'sweepc' and 'sweep_vector(curve, vec) raised' in why:
        return 'F-13b'
    return None


def witness(fid):
    from geomdl import construct, sweeping
    if fid == 'F-13a':
        V = dict(du=1, dv=2, dw=3, ku=[F(0)] * 2 + [F(1)] * 2, kv=[F(0)] * 3 + [F(1)] * 3, kw=[F(0)] * 4 + [F(1)] * 4, su=2, sv=3, sw=4,
                 pts=[[F(u), F(v), F(w)] for w in range(4) for u in range(2) for v in range(3)])
        ex = construct.extract_surfaces(mk_vol(V, False))
        bad = []
        for dd in 'uv':
            r = construct.construct_volume(dd, *ex[KEY_OF_DIR[dd]], degree=V[OTHER[dd][0]], knotvector=qs(V[OTHER[dd][1]]))
            if vol_data(r) != V:
                bad.append(dd)
        return ("2x3x4 net: extract_surfaces then construct_volume(%s) permutes the control points" % "/".join(bad)) if bad else None
    if fid == 'F-13b':
        c = dict(deg=2, kv=[F(0)] * 3 + [F(1)] * 3, pts=[[F(0), F(0)], [F(1), F(2)], [F(3), F(1)]])
        try:
            sweeping.sweep_vector(mk_curve(c, False), qs([F(1), F(1, 2)]))
        except Exception as e:
            return "sweep_vector(curve, vec) raises %s" % type(e).__name__
        return None
    return None
