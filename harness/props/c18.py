"""C18  Shapes stay inside the hull of their control points."""
import itertools, math
from fractions import Fraction as F
from core import Case, q, qs, fr, show_list, show_pts
import gen as G
import shapes as S
import knotops as KO

PID = 'C18'
FLOAT_KINDS = {'bbox'}      # float-mode companion (core.float_companion)
FLOAT_TOL = 1e-12
STATS = G.STATS
PARTIAL = [
    "length_curve: chord <= length <= control polygon ARE Lean theorems for every seminorm N (non-negative, sub-additive, positively homogeneous; the Euclidean norm over the reals IS proved to be an instance - euclid_is_seminorm, with the real-number corollaries length_curve_ge_chord_euclid / length_curve_le_control_polygon_euclid, its distance is sqrt(sum (b_i-a_i)^2) = point_distance and its radicand the normSq of C16 -, the l1 norm an instance over every ordered field), in exact arithmetic, for the model polylineLength / curveLength of operations.length_curve (sum structure tied by the 'lensum' stream) at the library's linspace sample parameters and at ANY increasing parameters; hypotheses: degree >= 1, well-formed knot vector (CurveWF), clamped at the end for the upper bound / at both ends for the chord between the end control points, at least two samples for the chord bound (with sample_size 1 evalpts is the single start point and the length 0 is below the chord). RATIONAL curves ARE covered (length_curve_rational_ge_chord / length_curve_rational_le_control_polygon, their _euclid corollaries over the reals, rational_polyline_le_control_polygon for any increasing parameters): homogeneous control points of dimension d+1 with ALL WEIGHTS POSITIVE, evalpts = the projected points (curveGrid true), and the polygon / chord are those of the CARTESIAN control points Pw_i / w_i (Pw.map project, what ctrlpts returns) - knot insertion on the homogeneous net is corner cutting on the Cartesian points with coefficient alpha*w_i / (alpha*w_i + (1-alpha)*w_(i-1)) in [0,1] (projected_insertion_is_corner_cutting, insertion_does_not_lengthen_rational_control_polygon) and keeps the weights positive; every sampled weight is positive (length_curve_rational_samples_weight_positive), so no projection divides by zero. Not covered: zero or negative weights (the bounds are false in general there). MODEL SCOPE: the end-to-end chord bound and the corollaries named length_curve_* are about the whole-domain sample linspace(U_p, U_n, num) with the current sample size (evalpts as a plain evaluate() fills it); the real length_curve reads the CACHED evalpts, and after evaluate(start=, stop=) that is a sub-interval: then only curve_samples_ge_chord (chord between the first and last cached point) and polyline_le_control_polygon (any increasing parameters) apply, the end-to-end chord bound does not (quadratic (0,0),(0,4),(3,4), evaluate(start=.4, stop=.5): length 0.517 < chord 5). NOT a theorem: that floating-point sqrt / float summation respects the inequalities (the oracle checks the float values with a relative slack of 1e-12, and the exact inequalities with the l1 and max norms, for non-rational and - on the projected points against the Cartesian control polygon - rational curves)",
    "hull / bounding box / clamped ends are assembled through the span search for every parameter of the closed domain (curvePoint / surfacePoint / volumePoint, rational and not); find_ctrlpts: the hull theorems are also stated with the OUTPUT of the model of operations.find_ctrlpts - for NON-RATIONAL shapes curve_in_hull_of_find_ctrlpts, surface_in_hull_of_find_ctrlpts (one net is both evaluated and indexed), for RATIONAL shapes rational_curve_in_hull_of_find_ctrlpts (find_ctrlpts of a NURBS curve indexes the CARTESIAN curve.ctrlpts = (separate Pw).1: projected evaluated point within the bounds on the returned points) and rational_surface_in_hull_of_find_ctrlpts (find_ctrlpts of a NURBS surface indexes the WEIGHTED ctrlpts2d: bounds on the projections of the returned points; positive weights) -, which returns exactly the active control points (C20.findCtrlpts_exact*, C18.find_ctrlpts_returns_exactly_the_active_points; strictly inside a span all p+1 coefficients are positive: curve_point_positive_combination_of_find_ctrlpts); what is NOT a Lean theorem: the object layer's dispatch (evaluate_single -> evaluator -> these model functions; for surfaces that ctrlpts2d[a][b] is entry b + size_v*a of the flat net is a hypothesis), tied by correspondence only; the clamped-end theorems need the first span non-empty (a start knot of multiplicity > p+1 moves the start point to a later control point)",
]


def gen(rng, tier):
    out = []
    n = 100 if tier == 'quick' else 1400
    for _ in range(n):
        d = KO.rand_shape(rng)
        ps = S.rand_params(rng, d)
        dirs = [[F(rng.randint(-5, 5)) for _ in range(d['dim'])] for _ in range(4)]
        out.append(Case('hull', None, dict(shape=d, params=ps, dirs=dirs)))
    for _ in range(40 if tier == 'quick' else 400):
        d = KO.rand_shape(rng)
        cart = [pt[:-1] for pt in d['P']] if d['rat'] else d['P']
        if d['rat']:
            cart = [[c / pt[-1] for c in pt[:-1]] for pt in d['P']]
        out.append(Case('bbox', "bbox %s" % show_pts(cart), dict(shape=d)))
    # read bbox, replace the control points, read again (the box must follow the net)
    for _ in range(12 if tier == 'quick' else 120):
        d = KO.rand_shape(rng)
        shift = [F(rng.randint(5, 9)) for _ in range(d['dim'])]
        out.append(Case('bbox-history', None, dict(shape=d, shift=shift)))
    for _ in range(15 if tier == 'quick' else 150):
        d = S.rand_curve(rng, rational=False, maxp=4, allow_range=False)
        out.append(Case('length', None, dict(shape=d, n=rng.randint(2, 30))))
    # the SAMPLED points (default start / stop of evaluate()) of clamped and unclamped shapes stay in the
    # hull of the whole net (all coordinate directions + random ones) and inside the reported box
    for _ in range(16 if tier == 'quick' else 160):
        cl = rng.random() < .4
        d = S.rand_curve(rng, maxp=4, clamped=cl, allow_range=False) if rng.random() < .6 else S.rand_surface(rng, maxp=3, max_interior=2, clamped=cl, allow_range=False)
        sizes = [rng.randint(2, 7) for _ in S.dirs(d)]
        dirs = [[F(rng.randint(-5, 5)) for _ in range(d['dim'])] for _ in range(4)]
        out.append(Case('sampled-hull', None, dict(shape=d, sizes=sizes, dirs=dirs)))
    # length_curve = sum of point_distance over consecutive evalpts, in order, starting from 0.0: the
    # distances (square roots: doubles, passed as exact rationals) and the evalpts are inputs of the
    # model op, which re-evaluates the grid, looks each consecutive pair up and folds
    for _ in range(25 if tier == 'quick' else 300):
        d = S.rand_curve(rng, maxp=4, allow_range=(rng.random() < .4), clamped=rng.random() < .8)   # also knot ranges other than [0,1]
        n = rng.choice([2, 2, 3, 5, 8, 13, rng.randint(2, 24)])
        delta = (d['kv'][d['n']] - d['kv'][d['p']]) / n
        if delta >= 1 or delta <= 0:
            continue
        try:
            from geomdl import linalg
            o = S.build(d)
            o.sample_size = n
            ev = [list(pt) for pt in o.evalpts]
            ds = [linalg.point_distance(a, b) for a, b in zip(ev, ev[1:])]
            evs, dss = show_pts(ev), show_list(ds)
        except Exception:
            evs, dss = '-', '-'
        out.append(Case('lensum', "clen %s %s %s %s" % (S.args(d), fr(delta), evs, dss), dict(shape=d, n=n)))
    # RATIONAL curves (positive weights, not all equal in 85% of the cases): chord <= length_curve <= length of the
    # CARTESIAN control polygon (points Pw_i / w_i) - the Lean theorems length_curve_rational_ge_chord /
    # length_curve_rational_le_control_polygon; appended last so that the streams above stay as they were
    for _ in range(15 if tier == 'quick' else 150):
        d = S.rand_curve(rng, rational=True, maxp=4, allow_range=False)
        out.append(Case('length', None, dict(shape=d, n=rng.randint(2, 30))))
    return out


def impl(c):
    o = S.build(c.data['shape'])
    if c.kind == 'lensum':
        from geomdl import operations
        o.sample_size = c.data['n']
        return fr(operations.length_curve(o))
    bb = o.bbox
    return "%s %s" % (show_list(bb[0]), show_list(bb[1]))


def oracle(c):
    d = c.data['shape']
    o = S.build(d)
    ds = S.dirs(d)
    if c.kind == 'hull':
        ps = c.data['params']
        arg = q(ps[0]) if d['kind'] == 'curve' else tuple(q(x) for x in ps)
        pt = [x.q if hasattr(x, 'q') else F(x) for x in o.evaluate_single(arg)]
        # active control points (Cartesian)
        spans = [G.span_of(kv, p, n, u) for (p, kv, n), u in zip(ds, ps)]
        rngs = [range(k - p, k + 1) for k, (p, kv, n) in zip(spans, ds)]
        act = []
        for combo in itertools.product(*rngs):
            if d['kind'] == 'curve':
                idx = combo[0]
            elif d['kind'] == 'surface':
                idx = combo[1] + d['sv'] * combo[0]
            else:
                idx = combo[1] + d['sv'] * (combo[0] + d['su'] * combo[2])
            cp = d['P'][idx]
            act.append([x / cp[-1] for x in cp[:-1]] if d['rat'] else cp)
        if d['kind'] in ('curve', 'surface'):
            from geomdl import operations
            fc = operations.find_ctrlpts(o, *[q(x) for x in ps])
            flat = [list(p_) for p_ in fc] if d['kind'] == 'curve' else [list(p_) for row in fc for p_ in row]
            got = [[x.q if hasattr(x, 'q') else F(x) for x in p_] for p_ in flat]
            act_h = []
            for combo in itertools.product(*rngs):
                idx = combo[0] if d['kind'] == 'curve' else combo[1] + d['sv'] * combo[0]
                act_h.append(d['P'][idx])
            if got != act and got != act_h:
                return "operations.find_ctrlpts at %s does not return the control points active on the span" % (tuple(map(fr, ps)),)
        axes = [[F(1) if i == j else F(0) for i in range(d['dim'])] for j in range(d['dim'])]
        for dr in axes + c.data['dirs']:
            val = sum(a * b for a, b in zip(dr, pt))
            vals = [sum(a * b for a, b in zip(dr, cp)) for cp in act]
            if not (min(vals) <= val <= max(vals)):
                return "point at %s is separated from its %d active control points by direction %s" % (tuple(map(fr, ps)), len(act), show_list(dr))
        bb = [[x.q if hasattr(x, 'q') else F(x) for x in side] for side in o.bbox]
        if any(not (lo <= x <= hi) for x, lo, hi in zip(pt, bb[0], bb[1])):
            return "point at %s lies outside the reported bounding box" % (tuple(map(fr, ps)),)
        # clamped ends
        if all(kv[0] == kv[p] and kv[n] == kv[-1] for (p, kv, n) in ds):
            first = [kv[p] for (p, kv, n) in ds]; last = [kv[n] for (p, kv, n) in ds]
            cart = (lambda cp: [x / cp[-1] for x in cp[:-1]] if d['rat'] else cp)
            if S.eval_ref(d, first) != cart(d['P'][0]):
                return "clamped shape does not start at its first control point"
            a = o.evaluate_single(q(last[0]) if d['kind'] == 'curve' else tuple(q(x) for x in last))
            if [x for x in a] != cart(d['P'][-1]):
                return "clamped shape does not end at its last control point"
        return None
    if c.kind == 'bbox-history':
        _ = o.bbox
        sh = c.data['shift']
        newP = [[x + s_ * (pt[-1] if d['rat'] else 1) for x, s_ in zip(pt, sh)] + ([pt[-1]] if d['rat'] else []) for pt in d['P']]
        from core import qpts
        if d['kind'] == 'curve':
            o.set_ctrlpts(qpts(newP))
        elif d['kind'] == 'surface':
            o.set_ctrlpts(qpts(newP), d['su'], d['sv'])
        else:
            o.set_ctrlpts(qpts(newP), d['su'], d['sv'], d['sw'])
        bb = [[x.q if hasattr(x, 'q') else F(x) for x in side] for side in o.bbox]
        d2 = dict(d, P=newP)
        ps = [kv[p] for (p, kv, n) in S.dirs(d2)]
        pt = S.eval_ref(d2, ps)
        if any(not (lo <= x <= hi) for x, lo, hi in zip(pt, bb[0], bb[1])):
            return "after replacing the control points the start point %s lies outside the reported bounding box %s .. %s" % (show_list(pt), show_list(bb[0]), show_list(bb[1]))
        return None
    if c.kind == 'bbox':
        cart = [[x / pt[-1] for x in pt[:-1]] for pt in d['P']] if d['rat'] else d['P']
        bb = [[x.q if hasattr(x, 'q') else F(x) for x in side] for side in o.bbox]
        lo = [min(pt[i] for pt in cart) for i in range(d['dim'])]
        hi = [max(pt[i] for pt in cart) for i in range(d['dim'])]
        if list(bb[0]) != lo or list(bb[1]) != hi:
            return "bbox is not the coordinatewise min / max of the control points"
        return None
    if c.kind == 'sampled-hull':
        if d['kind'] == 'curve':
            o.sample_size = c.data['sizes'][0]
        else:
            o.sample_size_u, o.sample_size_v = c.data['sizes']
        cart = [[x / cp[-1] for x in cp[:-1]] for cp in d['P']] if d['rat'] else d['P']
        dim = len(cart[0])
        fun = [[F(1) if i == j else F(0) for i in range(dim)] for j in range(dim)] + c.data['dirs']
        pts = [[x.q if hasattr(x, 'q') else F(x) for x in pt] for pt in o.evalpts]
        bb = o.bbox
        for k_, pt in enumerate(pts):
            for a in fun:
                vals = [sum(ai * ci for ai, ci in zip(a, cp)) for cp in cart]
                v = sum(ai * ci for ai, ci in zip(a, pt))
                if v < min(vals) or v > max(vals):
                    return "sampled point %d of %d leaves the convex hull of the control net (direction %s)" % (k_, len(pts), show_list(a))
            for j in range(dim):
                if pt[j] < F(fr(bb[0][j])) or pt[j] > F(fr(bb[1][j])):
                    return "sampled point %d lies outside the reported bounding box" % k_
        return None
    if c.kind == 'length':
        from geomdl import operations
        o.sample_size = c.data['n']
        ln = float(operations.length_curve(o))
        # the control polygon the bounds refer to: the control points themselves / for a rational curve the
        # Cartesian points Pw_i / w_i (exact projection of the homogeneous input, all weights positive)
        Pq = [[F(x) / F(pt[-1]) for x in pt[:-1]] for pt in d['P']] if d['rat'] else [[F(x) for x in pt] for pt in d['P']]
        if d['rat']:
            if any(F(pt[-1]) <= 0 for pt in d['P']):
                return None      # outside the hypotheses of the theorems (never generated)
            if [[x.q if hasattr(x, 'q') else F(x) for x in pt] for pt in o.ctrlpts] != Pq:
                return "ctrlpts of the rational curve are not the homogeneous points divided by their weights"
        P = [[float(x) for x in pt] for pt in Pq]
        chord = math.dist(P[0], P[-1])
        poly = sum(math.dist(a, b) for a, b in zip(P, P[1:]))
        clamped = d['kv'][0] == d['kv'][d['p']] and d['kv'][d['n']] == d['kv'][-1]
        if clamped and ln < chord * (1 - 1e-12) - 1e-12:
            return "length %r is less than the chord %r" % (ln, chord)
        if ln > poly * (1 + 1e-12) + 1e-12:
            return "length %r exceeds the control polygon length %r" % (ln, poly)
        # the same two bounds in EXACT arithmetic for two norms that need no square root (l1, max):
        # what the Lean theorems length_curve_ge_chord / length_curve_le_control_polygon (rational curves:
        # length_curve_rational_ge_chord / length_curve_rational_le_control_polygon, evalpts = projected points) state
        ev = [[x.q if hasattr(x, 'q') else F(x) for x in pt] for pt in o.evalpts]
        for name, nrm in (('l1', lambda v: sum(abs(x) for x in v)), ('max', lambda v: max(abs(x) for x in v))):
            dist = lambda a, b: nrm([y - x for x, y in zip(a, b)])
            ln_n = sum((dist(a, b) for a, b in zip(ev, ev[1:])), F(0))
            poly_n = sum((dist(a, b) for a, b in zip(Pq, Pq[1:])), F(0))
            if clamped and len(ev) >= 2 and ln_n < dist(Pq[0], Pq[-1]):
                return "%s-length %s of the sampled polyline is less than the %s-chord %s" % (name, fr(ln_n), name, fr(dist(Pq[0], Pq[-1])))
            if d['kv'][d['n']] == d['kv'][-1] and ln_n > poly_n:
                return "%s-length %s of the sampled polyline exceeds the %s-length %s of the control polygon" % (name, fr(ln_n), name, fr(poly_n))
        return None
    if c.kind == 'lensum':
        from geomdl import operations, linalg
        o.sample_size = c.data['n']
        ev = o.evalpts
        tot = F(0)
        for a, b in zip(ev, ev[1:]):
            x = linalg.point_distance(a, b)
            tot += x.q if hasattr(x, 'q') else F(x)
        ln = operations.length_curve(o)
        if (ln.q if hasattr(ln, 'q') else F(ln)) != tot:
            return "length_curve %s is not the sum %s of the distances of consecutive evaluated points" % (fr(ln), fr(tot))
        return None
    return None
