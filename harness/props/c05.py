"""C05  Knot refinement never changes the shape."""
from fractions import Fraction as F
from core import Case, q, qs, fr, show_list, show_pts
import gen as G
import shapes as S
import knotops as KO
import rowsops as RO

PID = 'C05'
FLOAT_KINDS = {'refine-op', 'refine-helper'}      # float-mode companion (core.float_companion)
FLOAT_TOL = 1e-8
STATS = G.STATS
PARTIAL = [
    "A5.4 as coded is now MODELLED (refineA54 / knotRefinementA54: literal transcription of the loops of helpers.knot_refinement, run against the real function by the streams refa54 / refa54h) and PROVED equal to the specification-level model (fold of single A5.1 insertions: knot vector and control points) - for CURVE-level calls with a knot vector clamped at the start in which no value occurs more than p+1 times (general form: every basis function of the refined curve has support, SuppOk); the list-of-rows branch of the helper (`else` branch of isinstance(ctrlpts[0][0], float), what operations.refine_knotvector feeds for VOLUMES) is now MODELLED literally too (refineA54Rows / knotRefinementRows / refineVolRows, streams refine-rows / refine-vol-rows against the real helper called with rows and against operations.refine_knotvector) and PROVED: every iso-curve of A5.4 on rows is A5.4 of that iso-curve with the same knot vector (refineA54Rows_isocurve, knotRefinementRows_isocurve: only c < len(ctrlpts[0])), and one direction of refine_knotvector on a volume computed through the rows IS refineDir (refineVolRows_is_refineDir, refineVolRows_preserves_volume; hypotheses: VolWF with point dimension > 0, DirHyp, knot vector of the direction clamped at the start, no value more than p+1 times). OBJECT LEVEL: refineDirCoded / refineKnotvectorCoded (Model/KnotOpsCoded.lean: refineA54 on every iso-curve of a curve / surface with the new_kv of the LAST helper call, refineA54Rows on the gathered rows of a volume; stream refine-coded against operations.refine_knotvector) are PROVED equal to the specification-level refineDir / refineKnotvector (refineDir_as_coded_eq_model_surface / _volume, refineKnotvector_as_coded_eq_model_curve / _surface / _volume; hypotheses on the ORIGINAL object, for the selected directions only: well-formed object, DirHyp, and DirHypA54 = knot vector of the direction clamped at the start, no value more than p+1 times), hence refine_knotvector through the loops as coded preserves every point (refine_as_coded_preserves_curve / _surface / _volume; refineKnotvector_preserves_curve is the new model-level theorem for curve OBJECTS). In the rows branch the helper writes into the rows of its INPUT (new_ctrlpts[j] = ctrlpts[j] then new_ctrlpts[idx-1][idx2] = ...): the mutated input rows are never read again, so the model is value-semantic; the mutation of the caller's rows is not modelled (operations.refine_knotvector builds fresh rows)",
    "the theorems about refineA54 need: X non-empty, sorted, inside [U_p, U_n), old knots and X tolerance separated, final multiplicities <= p (all satisfied by the list X the code computes: genX_hyps); for other X (e.g. a knot raised above multiplicity p) nothing is proved",
    "curves, surfaces and volumes (helper level; refineDir in every direction of a surface / volume; refine_knotvector on any subset of the two / three directions: refineKnotvector_preserves_surface, refineDir_preserves_volume, refineKnotvector_preserves_volume) are proved end-to-end under explicit hypotheses: well-formed object (CurveWF / SurfWF / VolWF), knot vector clamped at the END of each refined direction, 0 <= tol and tolerance separation of the old knots and the bisection knots of each refined direction (equal or further apart than tol), all stated on the ORIGINAL object",
    "rational objects: the theorems are about the homogeneous net (coordinatewise); the projection step is C01/C09's",
    "guards stated as hypotheses (not used by the proofs, mirroring the code / driver): refineA54Rows_isocurve / knotRefinementRows_isocurve require rectangular rows (ragged: IndexError in the code, [] padding in the model) and refineA54Rows_isocurve a non-empty X (the helper raises 'Cannot refine' before A5.4); refinement_net_unique needs AllActive of the refined knot vector (necessary)",
    "which span search the object-level models use (statement audit 5, I3): insertKnotDir / insertKnotDirCoded / removeKnotDir / a54Init(Rows) and the volume-rows wrappers call findSpanLinear, the search WITHOUT the step back of the F-01b repair (the code's find_span_linear = findSpanLinearR); they differ only at u = U_n of a knot vector with an empty last domain span (U_{n-1} = U_n), which every theorem excludes (KvWF.last, DirReqOk.hi) - there the models are NOT the code (real insert_knot(c,[5],[1]) on U = [0,1,2,3,4,5,5,6,7,8], degree 3, uses span 4, the model span 5: different nets) and the driver ops ins / insm / insc / ops I,R / rowsvol I,R answer OUT: the model line is not compared (core.py, evidence correspondence.outside_model), the oracle alone judges; refinement needs no OUT (a, b of A5.4 only bound the reworked window: refc = refine_knotvector on 240 random unclamped knot vectors with an empty last span)",
]


def gen(rng, tier):
    out = []
    n = 90 if tier == 'quick' else 1200
    for _ in range(n):
        d = KO.rand_shape(rng)
        nd = len(S.dirs(d))
        maxd = 2 if d['kind'] == 'curve' else 1
        dens = [rng.choice([0, 1, 1, maxd]) for _ in range(nd)]
        if all(x == 0 for x in dens):
            dens[rng.randrange(nd)] = 1
        G.count('density', dens)
        line = "ops %s %s F %s" % (KO.KIND[d['kind']], S.args(d), ",".join(map(str, dens)))
        out.append(Case('refine-op', line, dict(shape=d, dens=dens)))
        # the same call against the object-level model built from A5.4 AS CODED (`refineKnotvectorCoded`: refineA54 on
        # every iso-curve of a curve / surface, new_kv of the last helper call; refineA54Rows on cpt2d for a volume)
        G.count('refine_coded', d['kind'])
        out.append(Case('refine-coded', "refc %s %s %s" % (KO.KIND[d['kind']], S.args(d), ",".join(map(str, dens))),
                        dict(shape=d, dens=dens)))
    # helper level: explicit knot_list / add_knot_list (single element, last span only, duplicates of
    # existing knots, values repeated in both lists)
    for _ in range(30 if tier == 'quick' else 400):
        d = S.rand_curve(rng, maxp=4, max_interior=3, allow_range=False)
        p, kv, n_ = d['p'], d['kv'], d['n']
        dom = sorted(set(kv[p:n_ + 1]))
        def pick():
            r_ = rng.random()
            if r_ < .3:
                return rng.choice(dom)                                    # an existing knot (or a domain end)
            if r_ < .55:
                a_, b_ = dom[-2], dom[-1]                                 # inside the LAST span
                return a_ + (b_ - a_) * F(rng.randint(1, 9), 10)
            return kv[p] + (kv[n_] - kv[p]) * F(rng.randint(1, 99), 100)
        mode = rng.random()
        kl, add = None, []
        if mode < .5:
            kl = sorted(set(pick() for _ in range(rng.randint(1, 3))))
        if mode > .3:
            add = [pick() for _ in range(rng.randint(1, 2))]
            if kl and rng.random() < .4:
                add.append(rng.choice(kl))                                # the same value in both lists
        dens = rng.choice([1, 1, 2])
        G.count('helper_lists', (len(kl) if kl is not None else 'default', len(add)))
        line = "refh %d %s %s %s %s %d" % (p, show_list(kv), show_pts(d['P']), 'default' if kl is None else show_list(kl), show_list(add), dens)
        out.append(Case('refine-helper', line, dict(shape=d, kl=kl, add=add, dens=dens)))
        # the same call against the LITERAL transcription of A5.4 (`refineA54`): once with the list X
        # computed by the model (`refineXOf`), once with X computed here in exact arithmetic
        out.append(Case('refine-a54', "refa54h" + line[4:], dict(shape=d, kl=kl, add=add, dens=dens)))
        X = _xlist(p, kv, kl, add, dens)
        if X:
            G.count('a54_X', (len(X), len(set(X))))
            out.append(Case('refine-a54', "refa54 %d %s %s %s" % (p, show_list(kv), show_pts(d['P']), show_list(X)),
                            dict(shape=d, kl=kl, add=add, dens=dens)))
    # A5.4 as coded on the default knot list (all interior knots raised to multiplicity p, densities 1..3:
    # long lists X, every copy count 1..p)
    for _ in range(25 if tier == 'quick' else 300):
        d = S.rand_curve(rng, maxp=4, max_interior=3, allow_range=False)
        p, kv = d['p'], d['kv']
        dens = rng.choice([1, 1, 2, 3])
        X = _xlist(p, kv, None, [], dens)
        G.count('a54_X', (len(X), len(set(X))))
        out.append(Case('refine-a54', "refa54h %d %s %s default - %d" % (p, show_list(kv), show_pts(d['P']), dens),
                        dict(shape=d, kl=None, add=[], dens=dens)))
        if X:
            out.append(Case('refine-a54', "refa54 %d %s %s %s" % (p, show_list(kv), show_pts(d['P']), show_list(X)),
                            dict(shape=d, kl=None, add=[], dens=dens)))
    # A5.4's own zero test `abs(alpha) < tol` off the exact-zero case: a listed knot closer to an existing
    # interior knot than the tolerance (5e-8: taken for a copy, weight branch `copy`) or just further (2e-7)
    for _ in range(8 if tier == 'quick' else 60):
        d = S.rand_curve(rng, maxp=4, max_interior=2, allow_range=False)
        p, kv, n_ = d['p'], d['kv'], d['n']
        interior = sorted(set(kv[p + 1:n_]))
        if not interior:
            continue
        t = rng.choice(interior)
        eps = rng.choice([F(5, 10 ** 8), F(2, 10 ** 7), -F(5, 10 ** 8), -F(2, 10 ** 7)])
        kl = [t + eps]
        G.count('a54_X', 'tol-probe')
        out.append(Case('refine-a54', "refa54h %d %s %s %s - 1" % (p, show_list(kv), show_pts(d['P']), show_list(kl)),
                        dict(shape=d, kl=kl, add=[], dens=1), tags=('tol-probe',)))
    # tolerance probes: two interior knots closer together than 1e-3 but further apart than the 1e-7 of
    # the refinement's own zero test (a loosened tolerance would copy instead of blend)
    for _ in range(8 if tier == 'quick' else 60):
        d = S.rand_curve(rng, maxp=4, max_interior=0, allow_range=False)
        p = d['p']
        t = F(rng.randint(2, 8), 10)
        eps = rng.choice([F(1, 2000), F(1, 50000), F(3, 10 ** 6)])
        kv = [F(0)] * (p + 1) + [t, t + eps] + [F(1)] * (p + 1)
        n = len(kv) - p - 1
        P = G.points(rng, n, d['dim'])
        if d['rat']:
            P = G.homogeneous(P, G.weights(rng, n))
        d = dict(d, kv=kv, n=n, P=P)
        G.count('density', 'tol-probe')
        line = "ops c %s F 1" % S.args(d)
        out.append(Case('refine-op', line, dict(shape=d, dens=[1]), tags=('tol-probe',)))
    # the LIST-OF-ROWS branch of helpers.knot_refinement (what operations.refine_knotvector feeds for volumes),
    # helper level, against `knotRefinementRows` / `refineA54Rows` (A5.4 as coded on rows)
    for _ in range(30 if tier == 'quick' else 400):
        if rng.random() < .4:
            d = S.rand_volume(rng, maxp=3, max_interior=2, allow_range=False)
            i = rng.randrange(3)
            p, kv, n_ = S.dirs(d)[i]
            R = RO.gather(d, i)
        else:
            p = rng.randint(1, 4)
            kv, n_, R = RO.rand_rows(rng, p)
        dom = sorted(set(kv[p:n_ + 1]))
        mode = rng.random()
        kl, add = None, []
        if mode < .45:
            kl = sorted(set(rng.choice(dom) if rng.random() < .3 else kv[p] + (kv[n_] - kv[p]) * F(rng.randint(1, 99), 100)
                            for _ in range(rng.randint(1, 3))))
        elif mode < .6:
            add = [kv[p] + (kv[n_] - kv[p]) * F(rng.randint(1, 99), 100) for _ in range(rng.randint(1, 2))]
        dens = rng.choice([1, 1, 2])
        G.count('rows_refine', ('default' if kl is None else len(kl), len(add), dens))
        data = dict(p=p, kv=kv, R=R, kl=kl, add=add, dens=dens)
        out.append(Case('refine-rows', RO.rows_line('rowsrefh', p, kv, R, 'default' if kl is None else show_list(kl), show_list(add), dens), data))
        X = _xlist(p, kv, kl, add, dens)
        if X:
            out.append(Case('refine-rows', RO.rows_line('rowsref', p, kv, R, show_list(X)), data))
    # one direction of operations.refine_knotvector on a volume against the gather / A5.4-on-rows / scatter model
    for _ in range(20 if tier == 'quick' else 240):
        d = S.rand_volume(rng, maxp=3, max_interior=2)
        i = rng.randrange(3)
        reqs = [[i, 1]]
        if rng.random() < .3:
            reqs.append([rng.choice([x for x in range(3) if x != i]), 1])
        G.count('rows_vol_refine', len(reqs))
        line = "rowsvol v %s %s" % (S.args(d), " ".join("F %d %d" % (a, b) for a, b in reqs))
        out.append(Case('refine-vol-rows', line, dict(shape=d, reqs=reqs)))
    return out


def _xlist(p, kv, kl, add, dens):
    """the list X of knots `helpers.knot_refinement` inserts (exact multiplicities)"""
    base = list(kl) if kl is not None else kv[p:len(kv) - p]
    ks = sorted(set(base + list(add)))
    for _ in range(dens):
        ks = sorted(set(ks + [a + (b - a) / 2 for a, b in zip(ks, ks[1:])]))
    return [x for x in ks for _ in range(max(0, p - sum(1 for y in kv if y == x)))]


def _helper(c):
    from geomdl import helpers
    from core import qpts
    d = c.data['shape']
    kw = dict(density=c.data['dens'])
    if c.data['kl'] is not None:
        kw['knot_list'] = qs(c.data['kl'])
    if c.data['add']:
        kw['add_knot_list'] = qs(c.data['add'])
    return helpers.knot_refinement(d['p'], qs(d['kv']), qpts(d['P']), **kw)


def _rows_call(c, R=None):
    from geomdl import helpers
    x = c.data
    kw = dict(density=x['dens'])
    if x['kl'] is not None:
        kw['knot_list'] = qs(x['kl'])
    if x['add']:
        kw['add_knot_list'] = qs(x['add'])
    Q, kv2 = helpers.knot_refinement(x['p'], qs(x['kv']), RO.qrows(x['R']) if R is None else R, **kw)
    return Q, [v.q if hasattr(v, 'q') else F(v) for v in kv2]


def _vol_rows(c):
    from geomdl import operations
    o = S.build(c.data['shape'])
    for i, dd in c.data['reqs']:
        dens = [0] * 3; dens[i] = dd
        operations.refine_knotvector(o, dens)
    return o


def impl(c):
    from geomdl import operations
    if c.kind == 'refine-rows':
        from core import show_pts2
        Q, kv2 = _rows_call(c)
        return "%s %s" % (show_list(kv2), show_pts2(RO.unq(Q)))
    if c.kind == 'refine-vol-rows':
        return KO.show_shape(S.from_obj(_vol_rows(c)))
    d = c.data['shape']
    if c.kind in ('refine-helper', 'refine-a54'):
        Q, kv2 = _helper(c)
        return "%s %s" % (show_list(kv2), show_pts(Q))
    o = S.build(d)
    operations.refine_knotvector(o, list(c.data['dens']))
    return KO.show_shape(S.from_obj(o))


def _oracle_rows(c):
    """the rows branch must return, iso-curve by iso-curve, what the point branch returns"""
    x = c.data
    X = _xlist(x['p'], x['kv'], x['kl'], x['add'], x['dens'])
    try:
        Q, kv2 = _rows_call(c)
    except Exception as e:
        return None if not X else "knot_refinement on rows raised %s: %s" % (type(e).__name__, e)
    Q = RO.unq(Q)
    cols = []
    for j in range(len(x['R'][0])):
        col = [[q(v) for v in pt] for pt in RO.column(x['R'], j)]
        Qc, kvc = _rows_call(c, col)
        if kvc != kv2:
            return "knot vector returned for rows differs from the one returned for an iso-curve"
        cols.append(RO.unq([Qc])[0])
    if Q != RO.from_columns(cols):
        return "knot_refinement on a list of rows differs from knot_refinement applied to every iso-curve"
    return None


def oracle(c):
    from geomdl import operations
    if c.kind == 'refine-rows':
        return _oracle_rows(c)
    if c.kind == 'refine-vol-rows':
        d = c.data['shape']
        try:
            o = _vol_rows(c)
        except Exception as e:
            return "refine_knotvector raised %s: %s" % (type(e).__name__, e)
        after = S.from_obj(o)
        return KO.same_points(d, after, KO.probe_params(after))
    d = c.data['shape']
    dens = c.data['dens']
    if c.kind == 'refine-a54':
        return None          # the oracle runs on the twin 'refine-helper' case
    if c.kind == 'refine-coded':
        return None          # the oracle runs on the twin 'refine-op' case
    if c.kind == 'refine-helper':
        p, kv, n_ = d['p'], d['kv'], d['n']
        base = list(c.data['kl']) if c.data['kl'] is not None else kv[p:len(kv) - p]
        ks = sorted(set(base + list(c.data['add'])))
        for _ in range(dens):
            ks = sorted(set(ks + [a + (b - a) / 2 for a, b in zip(ks, ks[1:])]))
        X = [x for x in ks for _ in range(max(0, p - sum(1 for y in kv if y == x)))]
        try:
            Q, kv2 = _helper(c)
        except Exception as e:
            if not X:
                return None          # nothing to refine: the documented "Cannot refine" error
            return "helpers.knot_refinement raised %s: %s" % (type(e).__name__, e)
        kv2 = [x.q if hasattr(x, 'q') else F(x) for x in kv2]
        Q = [[x.q if hasattr(x, 'q') else F(x) for x in pt] for pt in Q]
        if kv2 != sorted(kv + X):
            return "helper-level refinement: the new knot vector is not the old one plus the listed knots raised to multiplicity %d" % p
        if len(Q) != len(kv2) - p - 1:
            return "helper-level refinement: %d control points for %d knots" % (len(Q), len(kv2))
        after = dict(d, kv=kv2, P=Q, n=len(Q))
        return KO.same_points(d, after, KO.probe_params(after))
    o = S.build(d)
    before = S.from_obj(o)
    can = []
    for (p, kv, n), dd in zip(S.dirs(d), dens):
        interior = sorted(set(kv[p:n + 1]))
        # refinable iff some listed knot (after bisection there always is a new midpoint) has multiplicity < p
        can.append(dd > 0)
    try:
        operations.refine_knotvector(o, list(dens))
    except Exception as e:
        return "refine_knotvector raised %s: %s" % (type(e).__name__, e)
    after = S.from_obj(o)
    for i, ((p, kv, n), (p2, kv2, n2)) in enumerate(zip(S.dirs(before), S.dirs(after))):
        dd = dens[i]
        if dd == 0:
            if kv2 != kv or n2 != n:
                return "direction %d was not selected but changed" % i
            continue
        ks = sorted(set(kv[p:n + 1]))
        for _ in range(dd):
            ks = sorted(set(ks + [(a + b) / 2 for a, b in zip(ks, ks[1:])]))
        want = sorted([x for x in kv if x not in ks[1:-1]] + [x for x in ks[1:-1] for _ in range(p)])
        if kv2 != want:
            return "direction %d: refined knot vector is not the %d-fold bisection with interior multiplicity %d" % (i, dd, p)
        if n2 != len(kv2) - p - 1:
            return "direction %d: size %d does not match the refined knot vector" % (i, n2)
    return KO.same_points(before, after, KO.probe_params(after))
