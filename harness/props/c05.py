"""C05  Knot refinement never changes the shape."""
from fractions import Fraction as F
from core import Case, q, qs, fr, show_list, show_pts
import gen as G
import shapes as S
import knotops as KO

PID = 'C05'
STATS = G.STATS
PARTIAL = [
    "the model of helpers.knot_refinement is specification-level (the knots X inserted one at a time with the proved A5.1 model); that A5.4 as coded returns the same control points is checked by the exact correspondence, not proved",
    "refine_preserves_curve is proved for curves under the per-knot admissibility predicate RefineOk; discharging RefineOk for the generated list X (from sortedness and tolerance separation) and the lifting to surfaces / volumes are not proved",
]


def gen(rng, tier):
    out = []
    n = 90 if tier == 'quick' else 1200
    for _ in range(n):
        d = KO.rand_shape(rng)
        nd = len(S.dirs(d))
        maxd = 2 if d['kind'] == 'curve' else 1
        dens = [rng.choice([0, 1, 1, maxd]) for _ in range(nd)]
        if all(x == 0 for x in dens):
            dens[rng.randrange(nd)] = 1
        G.count('density', dens)
        line = "ops %s %s F %s" % (KO.KIND[d['kind']], S.args(d), ",".join(map(str, dens)))
        out.append(Case('refine-op', line, dict(shape=d, dens=dens)))
    # tolerance probes: two interior knots closer together than 1e-3 but further apart than the 1e-7 of
    # the refinement's own zero test (a loosened tolerance would copy instead of blend)
    for _ in range(8 if tier == 'quick' else 60):
        d = S.rand_curve(rng, maxp=4, max_interior=0, allow_range=False)
        p = d['p']
        t = F(rng.randint(2, 8), 10)
        eps = rng.choice([F(1, 2000), F(1, 50000), F(3, 10 ** 6)])
        kv = [F(0)] * (p + 1) + [t, t + eps] + [F(1)] * (p + 1)
        n = len(kv) - p - 1
        P = G.points(rng, n, d['dim'])
        if d['rat']:
            P = G.homogeneous(P, G.weights(rng, n))
        d = dict(d, kv=kv, n=n, P=P)
        G.count('density', 'tol-probe')
        line = "ops c %s F 1" % S.args(d)
        out.append(Case('refine-op', line, dict(shape=d, dens=[1]), tags=('tol-probe',)))
    return out


def impl(c):
    from geomdl import operations
    d = c.data['shape']
    o = S.build(d)
    operations.refine_knotvector(o, list(c.data['dens']))
    return KO.show_shape(S.from_obj(o))


def oracle(c):
    from geomdl import operations
    d = c.data['shape']
    dens = c.data['dens']
    o = S.build(d)
    before = S.from_obj(o)
    can = []
    for (p, kv, n), dd in zip(S.dirs(d), dens):
        interior = sorted(set(kv[p:n + 1]))
        # refinable iff some listed knot (after bisection there always is a new midpoint) has multiplicity < p
        can.append(dd > 0)
    try:
        operations.refine_knotvector(o, list(dens))
    except Exception as e:
        return "refine_knotvector raised %s: %s" % (type(e).__name__, e)
    after = S.from_obj(o)
    for i, ((p, kv, n), (p2, kv2, n2)) in enumerate(zip(S.dirs(before), S.dirs(after))):
        dd = dens[i]
        if dd == 0:
            if kv2 != kv or n2 != n:
                return "direction %d was not selected but changed" % i
            continue
        ks = sorted(set(kv[p:n + 1]))
        for _ in range(dd):
            ks = sorted(set(ks + [(a + b) / 2 for a, b in zip(ks, ks[1:])]))
        want = sorted([x for x in kv if x not in ks[1:-1]] + [x for x in ks[1:-1] for _ in range(p)])
        if kv2 != want:
            return "direction %d: refined knot vector is not the %d-fold bisection with interior multiplicity %d" % (i, dd, p)
        if n2 != len(kv2) - p - 1:
            return "direction %d: size %d does not match the refined knot vector" % (i, n2)
    return KO.same_points(before, after, KO.probe_params(after))
