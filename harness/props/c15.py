"""C15  Tessellation is a valid triangulation lying on the surface.

Everything below runs the real geomdl in EXACT rational arithmetic (the tessellation code uses
round()/int()/float() only on integer-valued quantities, which the exact number type supports), except
the binary STL writer, whose float32 packing is compared with the float32 rounding of the exact values.
Trimmed tessellation: `_tessellate.surface_trim_tessellate` and the cell loop of `make_triangle_mesh` that calls it are
modelled literally (lean/NurbsVerif/Model/TrimMesh.lean).  The streams `trimcell` (single calls with free corners, flags
and numbering) and `trimgrid` (tessellate.TrimTessellate, directly and through Surface.trims / Surface.tessellate; every
call of the trimming function is recorded, then the mesh after fix_numbering) compare with the model in exact arithmetic
(harness/trimops.py: polygonal trims in general position, trims through / next to grid vertices within and just outside
the tolerances, trims inside one cell, on grid lines, reversed, several, self-intersecting, open, B-spline trims).  The
older `trim` stream stays as a labelled oracle-only TEST on axis-aligned rectangular holes."""
import random
import struct, math
from fractions import Fraction as F
from core import Case, q, qs, qpts, fr, show_list, show_pts, load_known
import gen as G
import trimops as T

PID = 'C15'
STATS = G.STATS
PARTIAL = [
    "trimmed tessellation: surface_trim_tessellate and the cell loop of make_triangle_mesh that calls it ARE modelled literally "
    "(Model/TrimMesh.lean trimCell / trimCells / makeTrimMesh; streams 'trimcell', 'trimgrid' compare every call - returned vertices (id, uv), "
    "triangles (id, vertex ids), corner flags - and the mesh after fix_numbering with tessellate.TrimTessellate in exact arithmetic; polygonal "
    "and B-spline trims, reversed trims included).  PROVED (C15.trim_*): a cell whose four corners are classified inside is omitted; a cell "
    "away from the trims is emitted as exactly the two untrimmed triangles, and if all cells are away (e.g. no trims) the mesh IS the untrimmed "
    "mesh; every kept triangle has its centre outside every non-reversed trim; vertex ids / new vertices within tol of a cell edge / counts; and "
    "'the omitted region matches the trimmed region to within one sampling cell' for NON-reversed closed polyline trims in this form "
    "(trim_cell_no_trim_enters_is_whole): a grid cell such that no point of any trim edge lies in the cell enlarged by tol^2 is omitted "
    "if it lies in a trim and emitted exactly as the two untrimmed triangles if it lies in none - so the trimmed mesh differs from 'the untrimmed "
    "triangles of the cells outside the trims' only in cells a trim polyline enters (via winding_constant_on_box_polygon_avoids: wn_poly is "
    "constant on a box a closed polyline stays out of, any polyline shape; crossing_is_common_point).  NOT proved: "
    "(a) nothing beyond the vertex / triangle shape theorems is proved about a cell "
    "that a trim polyline DOES enter (a trim wholly inside one cell, or cutting one edge twice, leaves both triangles unless a centre falls inside; new vertices "
    "on a shared edge are created once per cell, i.e. twice); (b) for reversed trims only the cell-level theorems hold (the flags kept on shared "
    "corner vertices make the grid-level outcome depend on the order of the trims and cells; checked by correspondence only); (c) the rounded "
    "square root inside ray.intersect is an input of the model (function sq, the harness passes the table of doubles): the theorems hold for "
    "every sq, and nothing is claimed about the distance between the computed and the true intersection point; (d) wn_poly = geometric inside "
    "for non-convex trims is C20's open item",
    "'the triangles tile the rectangle exactly once' is now a point-set theorem for the whole rectangle (C15.tiling_covers, "
    "tiling_inside, tiling_exactly_once, tiling_interiors_disjoint, tiling_unit_square: every point of the rectangle spanned by the grid "
    "lines - [0,1]^2 when the spacing divides size-1 - lies in a closed face, no face leaves it, a point interior to a face lies in no "
    "other face); when the spacing does NOT divide size-1 the grid (hence the mesh) ends before parameter 1: the theorems then speak "
    "about [0,(nu-1)u_jump]x[0,(nv-1)v_jump], as the code does; the quad mesh has vertex parameters (C15.quad_vertex_parameters*, "
    "for sizes >= 2 in both directions: with a size of 1 the repaired make_quad_mesh raises ZeroDivisionError, driver ops quad / quaduv answer ERR) but "
    "no point-set tiling theorem of its own (its cells are the grid cells)",
    "vertex positions: C15.vertex_is_surface_point states for the model functions makeTriangleMesh, surfaceGrid (evalpts on linspace(0,1,.)) and surfacePoint together that "
    "the evaluated point a vertex copies (index src) IS the surface point at the parameters (uv) the vertex stores - domain [0,1]^2 only; that Surface.tessellate re-evaluates "
    "instead of copying is tied by the 'pos' stream, not by a theorem",
    "file syntax of OBJ/OFF/STL (keywords, number printing, float32 packing of binary STL) is checked by the oracle only; the "
    "model covers index offsets, counts and the facet normal",
]
ASSUMPTIONS = [
    "surfaces have normalised knot vectors (domain [0,1]^2); un-normalised surfaces are finding F-01",
    "vertex_spacing < 5*10^6 (the model of the pinned size expression ignores the 1e-7 offset except for ties)",
    "trimmed tessellation: inside ray.intersect the squared distance of the two evaluated points is not within relative 2^-50 of tol^2 "
    "(the model compares squares, as for C20; verified per case by the oracle of the trimcell / trimgrid streams)",
]
TRUSTED = ["OBJ/OFF/STL text parsing in harness/props/c15.py"]


# ------------------------------------------------------------------ inputs
def _divisors(n):
    return [d for d in range(1, n + 1) if n % d == 0] if n > 0 else [1]


def _surface_data(rng, small=False):
    pu = rng.randint(1, 3)
    pv = rng.randint(1, 3)
    if pv == pu:
        pv = pv % 3 + 1
    Uu, cu = G.knots(rng, pu, max_interior=2 if small else 3, allow_range=False)
    Uv, cv = G.knots(rng, pv, max_interior=2 if small else 3, allow_range=False)
    if cu == cv:
        # sizes pairwise different per direction: add one interior knot on v
        Uv = Uv[:pv + 1] + [F(1, 97)] + Uv[pv + 1:]
        cv += 1
    P = G.points(rng, cu * cv, 3)
    rat = rng.random() < .5
    w = G.weights(rng, cu * cv) if rat else None
    return dict(rat=rat, pu=pu, pv=pv, Uu=Uu, Uv=Uv, cu=cu, cv=cv, P=P, w=w)


def _build(d, su=None, sv=None, normalize=True):
    from geomdl import BSpline, NURBS
    if d['rat']:
        s = NURBS.Surface(normalize_kv=normalize)
    else:
        s = BSpline.Surface(normalize_kv=normalize)
    s.degree_u = d['pu']
    s.degree_v = d['pv']
    if d['rat']:
        s.set_ctrlpts(qpts(G.homogeneous(d['P'], d['w'])), d['cu'], d['cv'])
    else:
        s.set_ctrlpts(qpts(d['P']), d['cu'], d['cv'])
    s.knotvector_u = qs(d['Uu'])
    s.knotvector_v = qs(d['Uv'])
    if su is not None:
        s.sample_size_u = su
        s.sample_size_v = sv
    return s


def _surf_line(d):
    P = G.homogeneous(d['P'], d['w']) if d['rat'] else d['P']
    return "%d %d %d %s %s %d %d %s" % (1 if d['rat'] else 0, d['pu'], d['pv'], show_list(d['Uu']), show_list(d['Uv']),
                                         d['cu'], d['cv'], show_pts(P))


def _sizes(rng, hi):
    """(su, sv, s): sizes 2..hi, different per direction; spacing mostly a common divisor of su-1, sv-1"""
    r = rng.random()
    if r < .65:
        s = rng.choice([1, 1, 2, 2, 3, 3, 4, 5, 6])
        ku = rng.randint(1, max(1, (hi - 1) // s))
        kv = rng.randint(1, max(1, (hi - 1) // s))
        if ku == kv:
            kv = kv + 1 if (kv + 1) * s + 1 <= hi else max(1, kv - 1)
        su, sv = ku * s + 1, kv * s + 1
        G.count('spacing', 'divides:%d' % s)
    else:
        su = rng.randint(2, hi)
        sv = rng.randint(2, hi)
        if su == sv:
            sv = sv + 1 if sv < hi else sv - 1
        s = rng.randint(1, 5)
        G.count('spacing', 'any:%d' % s)
    return su, sv, s


def _listed(fid):
    """is the finding recorded as open for this property (then its failure pattern may be generated)"""
    return any(k['id'] == fid and k['status'] == 'open' and PID in k['property'].split(',') for k in load_known())


def _div(su, sv, s):
    return (su - 1) % s == 0 and (sv - 1) % s == 0


def gen(rng, tier):
    quick = tier == 'quick'
    hi = 12 if quick else 40
    out = []
    # the smallest spacings >= 3 first (shrunk witnesses of F-15 come out of here)
    for (su, sv, s) in [(4, 7, 3), (7, 4, 3), (5, 9, 4), (13, 7, 3), (11, 6, 5)]:
        if su <= hi and sv <= hi:
            out.append(Case('tri', "mesh tri %d %d %d" % (su, sv, s), dict(su=su, sv=sv, s=s)))
    # 1. the tessellator classes on synthetic points: ids, uv, source index, faces, edge count
    for _ in range(70 if quick else 700):
        su, sv, s = _sizes(rng, hi)
        out.append(Case('tri', "mesh tri %d %d %d" % (su, sv, s), dict(su=su, sv=sv, s=s)))
    for _ in range(25 if quick else 200):
        su, sv, _s = _sizes(rng, hi)
        out.append(Case('quad', "mesh quad %d %d" % (su, sv), dict(su=su, sv=sv)))
    # 2. surfaces: Surface.tessellate / .vertices / .faces, positions
    for _ in range(60 if quick else 420):
        d = _surface_data(rng, small=True)
        big = rng.random() < (.0 if quick else .12)
        su, sv, s = _sizes(rng, hi if big or quick else 16)
        d.update(su=su, sv=sv, s=s)
        out.append(Case('pos', "mesh pos %s %d %d %d" % (_surf_line(d), su, sv, s), d))
    # 3. containers and exporters
    # the first rounds are fixed probes (every writer with THREE surfaces; the container mesh with / without delta, even first
    # size = rebuilt after reset(), component set through the container), the rest is random
    fixed = [('obj', 3, False, 0), ('off', 3, False, 0), ('stl', 3, False, 0), ('stlb', 3, False, 0), ('cont', 3, False, 0),
             ('cont', 3, True, 0), ('cont', 2, True, 1), ('cont', 2, False, 1), ('off', 2, False, 0), ('obj', 2, True, 0)]
    for rnd in range(45 if quick else 400):
        fx = fixed[rnd] if rnd < len(fixed) else None
        n = rng.randint(1, 3)
        s = rng.choice([1, 1, 2, 3])
        if fx:
            n = fx[1]
        sizes = []
        for k in range(n):
            a = rng.randint(1, 3 if quick else 6) * s + 1
            b = rng.randint(1, 3 if quick else 6) * s + 1
            if a == b:
                b += s
            sizes.append([a, b])
        surfs = [_surface_data(rng, small=True) for _ in range(n)]
        what = rng.choice(['obj', 'off', 'cont', 'stl', 'stlb'])
        d = dict(what=what, s=s, sizes=sizes, surfs=surfs, single=(n == 1 and rng.random() < .5),
                 update=(rng.random() < .3))
        if fx:
            what = fx[0]; d['what'] = what; d['update'] = fx[2]
            if (sizes[0][0] % 2 == 0) != (fx[3] == 0):
                sizes[0][0] += s if s % 2 else 1          # parity of the first size selects the rebuild / own-component paths
                if sizes[0][0] == sizes[0][1]:
                    sizes[0][1] += s
        if d['update']:
            d['sizes'] = [sizes[0] for _ in sizes]
        if what == 'obj' and rng.random() < .4:
            d['extras'] = True        # OBJ with parametric vertices (vp) and vertex normals (vn)
        base = 1 if what == 'obj' else 0
        line = "mesh exp %d %d %s" % (base, s, ";".join("%d,%d" % tuple(x) for x in d['sizes']))
        if what == 'cont' and d['update']:
            # SurfaceContainer.tessellate(delta=True) hands its *delta* to the elements, whose sample size then
            # reads back differently (semantics of delta, F-01 family): no model line, spacing 1, sizes read back
            line = ''
            d['s'] = 1
            if min(d['sizes'][0]) < 3 and not _listed('F-15b'):
                # container sample size 2 -> delta 1.0, which the elements reject (reported as F-15b)
                a, b = [max(3, x) for x in d['sizes'][0]]
                d['sizes'] = [[a, b + 1 if a == b else b] for _ in sizes]
        out.append(Case('exp-' + what, line, d))
    # 4. facet normals
    for _ in range(30 if quick else 300):
        pts = G.points(rng, 3, 3)
        if rng.random() < .15:
            pts[2] = [a + 2 * (b - a) for a, b in zip(pts[0], pts[1])]      # degenerate (collinear) facet
        out.append(Case('nrm', "mesh nrm %s %s %s" % tuple(show_list(p) for p in pts), dict(pts=pts)))
    # 5. TEST (not modelled): axis-aligned rectangular trims, oracle only
    for _ in range(6 if quick else 60):
        d = _surface_data(rng, small=True)
        su = rng.randint(5, 9 if quick else 14)
        sv = rng.randint(5, 9 if quick else 14)
        # rectangle strictly inside the domain, corners off the sampling grid
        a = F(rng.randint(1, 4), 11); b = a + F(rng.randint(2, 5), 11)
        c = F(rng.randint(1, 4), 13); e = c + F(rng.randint(3, 7), 13)
        d.update(su=su, sv=sv, rect=[a, b, c, e])
        out.append(Case('trim', '', d, tags=('test-only',)))
    # 7. float-mode companion (separate interpreter, ordinary doubles): oracle only
    for _ in range(2 if quick else 8):
        d = _surface_data(rng, small=True)
        su, sv, s = _sizes(rng, hi)
        while not _div(su, sv, s):
            su, sv, s = _sizes(rng, hi)
        d.update(su=su, sv=sv, s=s)
        out.append(Case('float', '', d, tags=('float-mode',)))
    # 8. vertex parameters of make_quad_mesh (repair F-15c): uv of every quad vertex against the model's quadVertexUV
    #    (own generator so that the streams above are unchanged)
    rq = random.Random(rng.randint(0, 2 ** 30))
    for (su, sv) in [(2, 3), (3, 2), (1, 3), (3, 1)]:
        out.append(Case('quaduv', "mesh quaduv %d %d" % (su, sv), dict(su=su, sv=sv)))
    for _ in range(25 if quick else 200):
        su, sv, _s = _sizes(rq, hi)
        out.append(Case('quaduv', "mesh quaduv %d %d" % (su, sv), dict(su=su, sv=sv)))
    # 6. recorded finding F-01 (un-normalised knot vectors): only generated when it is listed for C15
    if _listed('F-01'):
        for _ in range(2):
            d = _surface_data(rng, small=True)
            d['Uu'] = [3 * x + 1 for x in d['Uu']]
            d.update(su=5, sv=4, s=1, unnorm=True)
            out.append(Case('pos-unnorm', '', d, tags=('F-01',)))
    # 9. trimmed tessellation against the model (Model/TrimMesh.lean): single calls of surface_trim_tessellate with free
    #    corners / flags / numbering, and whole grids through tessellate.TrimTessellate (own generator, see harness/trimops.py)
    rt = random.Random(rng.randint(0, 2 ** 30))
    out += T.gen_cell(rt, quick, 60 if quick else 600)
    out += T.gen_grid(rt, quick, 40 if quick else 400)
    return out


# ------------------------------------------------------------------ implementation side
def _synthetic(su, sv):
    return [[q(i), q(0), q(0)] for i in range(su * sv)]


def _show_faces(fs):
    return ";".join(",".join(str(i) for i in f) for f in fs) if fs else "-"


def _edges(faces):
    e = set()
    for f in faces:
        for a, b in zip(f, f[1:] + f[:1]):
            e.add((min(a, b), max(a, b)))
    return e


def _tri_direct(su, sv, s):
    from geomdl import tessellate
    t = tessellate.TriangularTessellate()
    t.tessellate(_synthetic(su, sv), size_u=su, size_v=sv, vertex_spacing=s)
    return t.vertices, t.faces


def _f(x):
    """exact value of a number coming out of the library (Fraction(Q) would go through the double)"""
    return x.q if hasattr(x, 'q') else F(x)


def _parse_num(tok):
    """number printed by str(): `Q(n/d)` in exact mode"""
    if tok.startswith('Q(') and tok.endswith(')'):
        return F(tok[2:-1])
    return F(tok)


def _containerize(d):
    from geomdl import multi
    surfs = [_build(sd, sz[0], sz[1]) for sd, sz in zip(d['surfs'], d['sizes'])]
    if d['single']:
        return surfs[0], surfs
    c = multi.SurfaceContainer(*surfs)
    if d['update']:
        c.sample_size_u = d['sizes'][0][0]
        c.sample_size_v = d['sizes'][0][1]
    return c, surfs


def _via_file(d):
    """half of the export cases (chosen by the case data) go through the file-writing entry points
    export_obj / export_off / export_stl and read the file back, the other half through the *_str ones"""
    return (len(d['surfs']) + d['s'] + d['sizes'][0][0]) % 2 == 0


def _file_export(fname, obj, binary=None, **kw):
    import tempfile, shutil, os
    from geomdl import exchange
    tmp = tempfile.mkdtemp(prefix='verif_c15_')
    try:
        path = os.path.join(tmp, 'mesh.out')
        if binary is not None:
            kw['binary'] = binary
        getattr(exchange, fname)(obj, path, **kw)
        with open(path, 'rb' if binary else 'r') as f:
            return f.read()
    finally:
        shutil.rmtree(tmp, ignore_errors=True)


def _export(d):
    """-> (vertex records, faces (index lists as written), extra)"""
    from geomdl import exchange
    what = d['what']
    obj, surfs = _containerize(d)
    kw = dict(vertex_spacing=d['s'], update_delta=d['update'])
    if _via_file(d) and what in ('obj', 'off', 'stl', 'stlb'):
        real = exchange
        class _Shim(object):
            export_obj_str = staticmethod(lambda o, **k: _file_export('export_obj', o, **k))
            export_off_str = staticmethod(lambda o, **k: _file_export('export_off', o, **k))
            export_stl_str = staticmethod(lambda o, binary=False, **k: _file_export('export_stl', o, binary=binary, **k))
        exchange = _Shim
    if what == 'obj':
        if d.get('extras'):
            kw.update(vertex_normals=True, parametric_vertices=True)
        txt = exchange.export_obj_str(obj, **kw)
        V = []; Fs = []; VP = []; VN = []
        for l in txt.splitlines():
            t = l.split()
            if not t or t[0] == '#':
                continue
            if t[0] == 'v':
                V.append([_parse_num(x) for x in t[1:]])
            elif t[0] == 'f':
                Fs.append([int(x) for x in t[1:]])
            elif t[0] == 'vp' and d.get('extras'):
                VP.append([_parse_num(x) for x in t[1:]])
            elif t[0] == 'vn' and d.get('extras'):
                VN.append([_parse_num(x) for x in t[1:]])
            else:
                raise ValueError("unexpected OBJ record " + l)
        return V, Fs, dict(obj=obj, surfs=surfs, vp=VP, vn=VN)
    if what == 'off':
        txt = exchange.export_off_str(obj, **kw)
        ls = txt.splitlines()
        if ls[0] != 'OFF':
            raise ValueError("no OFF header")
        nv, nf, ne = [int(x) for x in ls[1].split()]
        V = [[_parse_num(x) for x in l.split()] for l in ls[2:2 + nv]]
        Fs = []
        for l in ls[2 + nv:]:
            t = l.split()
            if t[0] != '3' or len(t) != 4:
                raise ValueError("bad OFF face " + l)
            Fs.append([int(x) for x in t[1:]])
        return V, Fs, dict(obj=obj, surfs=surfs, header=(nv, nf, ne))
    if what == 'cont':
        if d['single']:
            obj.tessellate(vertex_spacing=d['s'])
        else:
            from geomdl import tessellate as _tsl
            if len(surfs) >= 2 and (d['s'] + d['sizes'][0][1]) % 2 == 0:
                # the tessellation component set THROUGH the container: every element needs its own instance
                obj.tessellator = _tsl.TriangularTessellate()
            obj.tessellate(vertex_spacing=d['s'], delta=d['update'])
            if not d['update']:
                # a second, forced tessellation of the unchanged container (render(force=True) does this): the same mesh again
                obj.tessellate(vertex_spacing=d['s'], delta=False, force=True)
            if d['update'] and d['sizes'][0][0] % 2 == 0:
                # the container mesh rebuilt with unchanged sampling (reset, tessellate again): ids start afresh
                obj.vertices
                obj.reset()
                obj.tessellate(vertex_spacing=d['s'], delta=True)
        V = [[_f(x) for x in v.data] for v in obj.vertices]
        Fs = [list(f.data) for f in obj.faces]
        return V, Fs, dict(obj=obj, surfs=surfs, ids=[v.id for v in obj.vertices])
    if what == 'stl':
        txt = exchange.export_stl_str(obj, binary=False, **kw)
        ls = [l.strip() for l in txt.splitlines()]
        if ls[0] != 'solid Surface' or ls[-1] != 'endsolid Surface':
            raise ValueError("bad STL frame")
        facets = []
        body = ls[1:-1]
        if len(body) % 7:
            raise ValueError("STL body is not a sequence of 7-line facets")
        for k in range(0, len(body), 7):
            blk = body[k:k + 7]
            if not (blk[0].startswith('facet normal ') and blk[1] == 'outer loop' and blk[5] == 'endloop' and blk[6] == 'endfacet'):
                raise ValueError("bad STL facet")
            n = [_parse_num(x) for x in blk[0].split()[2:]]
            vs = []
            for l in blk[2:5]:
                t = l.split()
                if t[0] != 'vertex':
                    raise ValueError("bad STL vertex")
                vs.append([_parse_num(x) for x in t[1:]])
            facets.append((n, vs))
        return None, None, dict(obj=obj, surfs=surfs, facets=facets)
    if what == 'stlb':
        raw = exchange.export_stl_str(obj, binary=True, **kw)
        return None, None, dict(obj=obj, surfs=surfs, raw=raw)
    raise ValueError(what)


def _mesh_of_surfs(surfs):
    """reference: concatenation of the individual surface meshes (after the export / container call)"""
    V = []; Fs = []; off = 0; ranges = []
    for s in surfs:
        vs = s.tessellator.vertices
        fs = s.tessellator.faces
        ids = [v.id for v in vs]
        base = ids[0] if ids else 0     # the container adds its offset to the ids in place
        V += [[_f(x) for x in v.data] for v in vs]
        Fs += [[i - base + off for i in f.data] for f in fs]
        ranges.append((off, off + len(vs), len(fs)))
        off += len(vs)
    return V, Fs, ranges


def impl(c):
    d = c.data
    k = c.kind
    if k == 'tri':
        vs, fs = _tri_direct(d['su'], d['sv'], d['s'])
        faces = [list(f.data) for f in fs]
        return "V=%d uv=%s src=%s F=%s E=%d" % (
            len(vs), show_pts([list(v.uv) for v in vs]), ",".join(fr(v.data[0]) for v in vs) if vs else "-",
            _show_faces(faces), len(_edges(faces)))
    if k == 'quad':
        from geomdl import tessellate
        t = tessellate.QuadTessellate()
        t.tessellate(_synthetic(d['su'], d['sv']), size_u=d['su'], size_v=d['sv'])
        if [v.data[0] for v in t.vertices] != list(range(d['su'] * d['sv'])) or [v.id for v in t.vertices] != list(range(d['su'] * d['sv'])):
            return "vertex ids are not the point indices"
        return "V=%d F=%s" % (len(t.vertices), _show_faces([list(f.data) for f in t.faces]))
    if k == 'quaduv':
        from geomdl import tessellate
        t = tessellate.QuadTessellate()
        t.tessellate(_synthetic(d['su'], d['sv']), size_u=d['su'], size_v=d['sv'])
        return "V=%d uv=%s" % (len(t.vertices), show_pts([list(v.uv) for v in t.vertices]))
    if k == 'pos':
        s = _build(d, d['su'], d['sv'])
        s.tessellate(vertex_spacing=d['s'])
        # (the `vertices` property would silently re-tessellate with spacing 1 when the mesh is empty)
        return show_pts([list(v.data) for v in s.tessellator.vertices])
    if k.startswith('exp-'):
        V, Fs, ex = _export(d)
        if d['what'] in ('stl', 'stlb'):
            # STL has no indices: print the reference mesh of the surfaces (the oracle compares the facets)
            V, Fs, _ = _mesh_of_surfs(ex['surfs'])
        return "V=%d F=%s" % (len(V), _show_faces(Fs))
    if k == 'nrm':
        from geomdl import linalg, elements
        vs = [elements.Vertex(*[q(x) for x in p], id=i) for i, p in enumerate(d['pts'])]
        return show_list(linalg.triangle_normal(elements.Triangle(*vs)))
    if k in ('trimcell', 'trimgrid'):
        return T.impl(c)
    raise ValueError(k)


# ------------------------------------------------------------------ the property, on the implementation
def _area2(a, b, c):
    return (b[0] - a[0]) * (c[1] - a[1]) - (c[0] - a[0]) * (b[1] - a[1])


def _check_mesh(ids, uvs, faces, su, sv, s, what):
    """ids / ranges always; full disc-triangulation checks when the spacing divides both sizes - 1"""
    V = len(ids)
    if ids != list(range(V)):
        return "%s: vertex ids are not 0..%d consecutively: %s" % (what, V - 1, ids[:12])
    for f in faces:
        if len(f) != 3:
            return "%s: face with %d indices" % (what, len(f))
        if any((not isinstance(i, int)) or i < 0 or i >= V for i in f):
            return "%s: face %s references a vertex outside 0..%d" % (what, f, V - 1)
        if len(set(f)) != 3:
            return "%s: degenerate face %s" % (what, f)
    if not _div(su, sv, s):
        return None
    nu, nv = (su - 1) // s + 1, (sv - 1) // s + 1
    if V != nu * nv:
        return "%s: %d vertices, expected %d x %d" % (what, V, nu, nv)
    if len(faces) != 2 * (nu - 1) * (nv - 1):
        return "%s: %d triangles, expected %d" % (what, len(faces), 2 * (nu - 1) * (nv - 1))
    want = {(F(i * s, su - 1), F(j * s, sv - 1)) for i in range(nu) for j in range(nv)}
    got = [(_f(u), _f(v)) for u, v in uvs]
    if set(got) != want or len(set(got)) != V:
        return "%s: vertex parameters are not the %d x %d grid on [0,1]^2" % (what, nu, nv)
    # orientation and area
    tot = F(0)
    for f in faces:
        a2 = _area2(got[f[0]], got[f[1]], got[f[2]])
        if a2 <= 0:
            return "%s: triangle %s has signed parametric area %s (orientation not consistently positive)" % (what, f, fr(a2 / 2))
        tot += a2
    if tot != 2:
        return "%s: triangle areas sum to %s, the parametric rectangle has area 1" % (what, fr(tot / 2))
    # edge incidences
    dire = {}
    for f in faces:
        for a, b in zip(f, f[1:] + f[:1]):
            dire[(a, b)] = dire.get((a, b), 0) + 1
    if any(n > 1 for n in dire.values()):
        return "%s: a directed edge is used by two triangles (inconsistent orientation)" % what
    und = {}
    for (a, b) in dire:
        und.setdefault((min(a, b), max(a, b)), []).append((a, b))
    for e, l in und.items():
        (u0, v0), (u1, v1) = got[e[0]], got[e[1]]
        on_boundary = (u0 == u1 and u0 in (0, 1)) or (v0 == v1 and v0 in (0, 1))
        if on_boundary and len(l) != 1:
            return "%s: boundary edge %s belongs to %d triangles" % (what, e, len(l))
        if not on_boundary and len(l) != 2:
            return "%s: interior edge %s belongs to %d triangle(s)" % (what, e, len(l))
    E = len(und)
    if E != (nu - 1) * nv + nu * (nv - 1) + (nu - 1) * (nv - 1):
        return "%s: %d edges, expected %d" % (what, E, (nu - 1) * nv + nu * (nv - 1) + (nu - 1) * (nv - 1))
    if V - E + len(faces) != 1:
        return "%s: Euler characteristic %d, a disc has 1" % (what, V - E + len(faces))
    # exactly-once cover at points off every grid line and diagonal
    for (x, y) in [(F(337, 1009), F(550, 1013)), (F(1, 1009), F(1012, 1013)), (F(1008, 1009), F(3, 1013)), (F(505, 1009), F(506, 1013))]:
        n = 0
        for f in faces:
            A, B, C = got[f[0]], got[f[1]], got[f[2]]
            if _area2(A, B, (x, y)) > 0 and _area2(B, C, (x, y)) > 0 and _area2(C, A, (x, y)) > 0:
                n += 1
        if n != 1:
            return "%s: the point (%s,%s) lies in %d triangles" % (what, fr(x), fr(y), n)
    return None


def _check_quads(faces, su, sv):
    V = su * sv
    for f in faces:
        if len(f) != 4 or any(i < 0 or i >= V for i in f) or len(set(f)) != 4:
            return "quad %s is not four distinct indices below %d" % (f, V)
    if len(faces) != (su - 1) * (sv - 1):
        return "%d quads, expected %d" % (len(faces), (su - 1) * (sv - 1))
    dire = {}
    for f in faces:
        for a, b in zip(f, f[1:] + f[:1]):
            dire[(a, b)] = dire.get((a, b), 0) + 1
            # every quad edge joins grid neighbours
            ia, ja, ib, jb = a // sv, a % sv, b // sv, b % sv
            if abs(ia - ib) + abs(ja - jb) != 1:
                return "quad %s has an edge between non-neighbouring grid points" % f
        # orientation in index space (u = row index, v = column index): positive shoelace area
        P = [(i // sv, i % sv) for i in f]
        if sum(P[k][0] * P[(k + 1) % 4][1] - P[(k + 1) % 4][0] * P[k][1] for k in range(4)) != 2:
            return "quad %s is not a positively oriented unit cell" % f
    if any(n > 1 for n in dire.values()):
        return "a directed quad edge is used twice"
    E = len({(min(a, b), max(a, b)) for (a, b) in dire})
    if V - E + len(faces) != 1:
        return "quad mesh Euler characteristic %d" % (V - E + len(faces))
    return None


def oracle(c):
    d = c.data
    k = c.kind
    if k == 'tri':
        try:
            vs, fs = _tri_direct(d['su'], d['sv'], d['s'])
        except Exception as e:
            return "TriangularTessellate.tessellate(size_u=%d, size_v=%d, vertex_spacing=%d) raises %s" % (
                d['su'], d['sv'], d['s'], type(e).__name__)
        why = _check_mesh([v.id for v in vs], [v.uv for v in vs], [list(f.data) for f in fs], d['su'], d['sv'], d['s'], 'TriangularTessellate')
        if why:
            return why
        # each vertex copies the evaluated point that belongs to its parameters
        for v in vs:
            i, j = v.uv[0] * (d['su'] - 1), v.uv[1] * (d['sv'] - 1)
            if _f(i).denominator != 1 or _f(j).denominator != 1 or v.data[0] != int(j) + int(i) * d['sv']:
                return "vertex %d with uv=(%s,%s) copies point %s" % (v.id, fr(v.uv[0]), fr(v.uv[1]), fr(v.data[0]))
        return None
    if k == 'quad':
        from geomdl import tessellate
        t = tessellate.QuadTessellate()
        t.tessellate(_synthetic(d['su'], d['sv']), size_u=d['su'], size_v=d['sv'])
        if [v.id for v in t.vertices] != list(range(d['su'] * d['sv'])):
            return "QuadTessellate: vertex ids not consecutive"
        why = _check_quads([list(f.data) for f in t.faces], d['su'], d['sv'])
        if why:
            return why
        # the same tessellation as a user obtains it: through the surface's tessellation component
        from geomdl import BSpline
        s = BSpline.Surface()
        s.degree_u = 1; s.degree_v = 2
        s.set_ctrlpts(qpts([[F(0), F(0), F(0)], [F(0), F(1), F(2)], [F(0), F(3), F(1)], [F(2), F(0), F(1)], [F(2), F(1), F(-1)], [F(3), F(3), F(0)]]), 2, 3)
        s.knotvector_u = qs([0, 0, 1, 1]); s.knotvector_v = qs([0, 0, 0, 1, 1, 1])
        s.sample_size_u = d['su']; s.sample_size_v = d['sv']
        s.tessellator = tessellate.QuadTessellate()
        try:
            s.tessellate()
        except Exception as e:
            return "Surface.tessellate() with a QuadTessellate component (sample size %dx%d) raises %s: %s" % (d['su'], d['sv'], type(e).__name__, str(e)[:80])
        vs, fs = s.tessellator.vertices, s.tessellator.faces
        if [list(f.data) for f in fs] != [list(f.data) for f in t.faces]:
            return "quad mesh obtained through the surface differs from the direct one"
        ev = s.evalpts
        for i, v in enumerate(vs):
            if [_f(x) for x in v.data] != [_f(x) for x in ev[i]]:
                return "quad mesh through the surface: vertex %d is not the evaluated grid point %d" % (i, i)
        return None
    if k == 'quaduv':
        su, sv = d['su'], d['sv']
        if su < 2 or sv < 2:
            return None          # one grid line: the parameter step is undefined, the code raises (compared as ERR)
        from geomdl import tessellate
        t = tessellate.QuadTessellate()
        t.tessellate(_synthetic(su, sv), size_u=su, size_v=sv)
        if len(t.vertices) != su * sv:
            return "QuadTessellate: %d vertices for %d points" % (len(t.vertices), su * sv)
        tv, _tf = _tri_direct(su, sv, 1)
        for k_, v in enumerate(t.vertices):
            uv = getattr(v, 'uv', None)
            if uv is None or len(uv) != 2:
                return "QuadTessellate: vertex %d has no parameter pair" % k_
            want = [F(k_ // sv, su - 1), F(k_ % sv, sv - 1)]
            if [_f(x) for x in uv] != want:
                return "QuadTessellate: vertex %d has uv=(%s,%s), its grid parameters are (%s,%s)" % (
                    k_, fr(uv[0]), fr(uv[1]), fr(want[0]), fr(want[1]))
            if [_f(x) for x in tv[k_].uv] != want or tv[k_].data[0] != v.data[0]:
                return "vertex %d: the quad and the triangle tessellation (spacing 1) disagree on its parameters" % k_
        return None
    if k in ('pos', 'pos-unnorm'):
        s = _build(d, d['su'], d['sv'], normalize=not d.get('unnorm'))
        try:
            s.tessellate(vertex_spacing=d['s'])
            vs, fs = s.tessellator.vertices, s.tessellator.faces
            if _div(d['su'], d['sv'], d['s']) and ([(v.id, list(v.data)) for v in s.vertices] != [(v.id, list(v.data)) for v in vs]
                                                   or [list(f.data) for f in s.faces] != [list(f.data) for f in fs]):
                return "Surface.vertices / .faces differ from the tessellation component's vertices / faces"
        except Exception as e:
            return "Surface.tessellate(vertex_spacing=%d) with sample size %dx%d raises %s" % (d['s'], d['su'], d['sv'], type(e).__name__)
        su, sv = s.sample_size_u, s.sample_size_v
        if not d.get('unnorm'):
            if (su, sv) != (d['su'], d['sv']):
                return "sample size reads back %dx%d" % (su, sv)
            why = _check_mesh([v.id for v in vs], [v.uv for v in vs], [list(f.data) for f in fs], su, sv, d['s'], 'Surface.tessellate')
            if why:
                return why
        ev = s.evalpts
        lo_u, hi_u = s.knotvector_u[s.degree_u], s.knotvector_u[-(s.degree_u + 1)]
        lo_v, hi_v = s.knotvector_v[s.degree_v], s.knotvector_v[-(s.degree_v + 1)]
        for v in vs:
            u_, v_ = v.uv
            if not (lo_u <= u_ <= hi_u and lo_v <= v_ <= hi_v):
                return "vertex %d stores parameters (%s,%s) outside the surface domain [%s,%s]x[%s,%s]" % (
                    v.id, fr(u_), fr(v_), fr(lo_u), fr(hi_u), fr(lo_v), fr(hi_v))
            pt = s.evaluate_single((u_, v_))
            if list(v.data) != list(pt):
                return "vertex %d at uv=(%s,%s): position %s, surface there %s" % (v.id, fr(u_), fr(v_), show_list(v.data), show_list(pt))
        if _div(su, sv, d['s']) and not d.get('unnorm'):
            # the mesh interpolates the sampled points it was built from
            for v in vs:
                i, j = int(v.uv[0] * (su - 1)), int(v.uv[1] * (sv - 1))
                if list(v.data) != list(ev[j + i * sv]):
                    return "vertex %d differs from evaluated point (%d,%d)" % (v.id, i, j)
        # tessellating again (force=True: no reset in between; also what render(force=True) / the container do) gives the same mesh
        first = ([(v.id, list(v.data), list(v.uv)) for v in vs], [list(f.data) for f in fs])
        try:
            s.tessellate(vertex_spacing=d['s'], force=True)
        except Exception as e:
            return "a second Surface.tessellate(force=True) raises %s: %s" % (type(e).__name__, e)
        vs2, fs2 = s.tessellator.vertices, s.tessellator.faces
        if ([(v.id, list(v.data), list(v.uv)) for v in vs2], [list(f.data) for f in fs2]) != first:
            return "tessellating the unchanged surface a second time (force=True) gives another mesh: %d vertices / %d faces, first time %d / %d" % (
                len(vs2), len(fs2), len(first[0]), len(first[1]))
        return None
    if k.startswith('exp-'):
        what = d['what']
        try:
            V, Fs, ex = _export(d)
        except Exception as e:
            return "%s of %d surface(s) with vertex_spacing=%d raises %s: %s" % (what, len(d['surfs']), d['s'], type(e).__name__, e)
        rV, rF, ranges = _mesh_of_surfs(ex['surfs'])
        # the surfaces' own meshes must be valid (sizes as they are after the call)
        for n, s in enumerate(ex['surfs']):
            vs = s.tessellator.vertices
            base = vs[0].id if vs else 0
            why = _check_mesh([v.id - base for v in vs], [v.uv for v in vs], [[i - base for i in f.data] for f in s.tessellator.faces],
                              s.sample_size_u, s.sample_size_v, d['s'], 'surface %d of %s' % (n, what))
            if why:
                return why
            if base != ranges[n][0] and what == 'cont':
                return "container: ids of surface %d start at %d, %d vertices precede it" % (n, base, ranges[n][0])
        if what in ('obj', 'off', 'cont'):
            base = 1 if what == 'obj' else 0
            if what == 'off' and ex['header'] != (len(V), len(Fs), 0):
                return "OFF header %s, file has %d vertices and %d faces" % (ex['header'], len(V), len(Fs))
            if what == 'cont' and ex['ids'] != list(range(len(V))):
                return "container vertex ids are not consecutive"
            if len(V) != len(rV) or len(Fs) != len(rF):
                return "%s: %d vertices / %d faces written, the surfaces have %d / %d" % (what, len(V), len(Fs), len(rV), len(rF))
            if V != rV:
                return "%s: vertex records differ from the surface vertices" % what
            pos = 0
            for n, (lo, hi, nf) in enumerate(ranges):
                for f in Fs[pos:pos + nf]:
                    if any(i - base < lo or i - base >= hi for i in f):
                        return "%s: face %s of surface %d leaves its vertex block %d..%d" % (what, f, n, lo + base, hi - 1 + base)
                pos += nf
            if [[i - base for i in f] for f in Fs] != rF:
                return "%s: faces differ from the surface faces shifted by the vertex offsets" % what
            if what == 'obj' and d.get('extras'):
                uvs = [[_f(x) for x in v.uv] for s_ in ex['surfs'] for v in s_.tessellator.vertices]
                if [[_f(x) for x in r] for r in ex['vp']] != uvs:
                    return "obj: the vp records are not the parameters of the vertices, one per vertex, in vertex order"
                if len(ex['vn']) != len(V) or any(len(r) != 3 for r in ex['vn']):
                    return "obj: %d vn records for %d vertices" % (len(ex['vn']), len(V))
                for r in ex['vn']:
                    ln = sum(float(x) ** 2 for x in r)
                    if abs(ln - 1.0) > 1e-9:
                        return "obj: a vertex normal has squared length %r" % ln
            return None
        if what == 'stl':
            facets = ex['facets']
            if len(facets) != len(rF):
                return "STL: %d facets, the surfaces have %d triangles" % (len(facets), len(rF))
            for (n, vs), f in zip(facets, rF):
                P = [rV[i] for i in f]
                if vs != P:
                    return "STL facet vertices differ from triangle %s" % f
                e1 = [b - a for a, b in zip(P[0], P[1])]
                e2 = [b - a for a, b in zip(P[0], P[2])]
                want = [e1[1] * e2[2] - e1[2] * e2[1], e1[2] * e2[0] - e1[0] * e2[2], e1[0] * e2[1] - e1[1] * e2[0]]
                if [_f(x) for x in n] != [_f(x) for x in want]:
                    return "STL facet normal %s is not the cross product of the facet edges %s" % (show_list(n), show_list(want))
            return None
        if what == 'stlb':
            raw = ex['raw']
            if len(raw) != 84 + 50 * len(rF):
                return "binary STL has %d bytes for %d triangles" % (len(raw), len(rF))
            if raw[:80] != b'\0' * 80 or struct.unpack('<i', raw[80:84])[0] != len(rF):
                return "binary STL header / count wrong"
            for n, f in enumerate(rF):
                rec = struct.unpack('<12f', raw[84 + 50 * n:84 + 50 * n + 48])
                P = [rV[i] for i in f]
                e1 = [b - a for a, b in zip(P[0], P[1])]
                e2 = [b - a for a, b in zip(P[0], P[2])]
                nrm = [e1[1] * e2[2] - e1[2] * e2[1], e1[2] * e2[0] - e1[0] * e2[2], e1[0] * e2[1] - e1[1] * e2[0]]
                want = struct.unpack('<12f', struct.pack('<12f', *[float(_f(x)) for x in nrm + P[0] + P[1] + P[2]]))
                if rec != want or raw[84 + 50 * n + 48:84 + 50 * n + 50] != b'\0\0':
                    return "binary STL record %d differs from the float32 values of triangle %s" % (n, f)
            return None
    if k == 'nrm':
        from geomdl import linalg, elements
        P = d['pts']
        vs = [elements.Vertex(*[q(x) for x in p], id=i) for i, p in enumerate(P)]
        n = linalg.triangle_normal(elements.Triangle(*vs))
        e1 = [b - a for a, b in zip(P[0], P[1])]
        e2 = [b - a for a, b in zip(P[0], P[2])]
        want = [e1[1] * e2[2] - e1[2] * e2[1], e1[2] * e2[0] - e1[0] * e2[2], e1[0] * e2[1] - e1[1] * e2[0]]
        if [_f(x) for x in n] != want:
            return "triangle_normal %s, cross product of the edges from the first vertex %s" % (show_list(n), show_list(want))
        return None
    if k == 'trim':
        return _trim_test(d)
    if k == 'float':
        return _float_companion(d)
    if k in ('trimcell', 'trimgrid'):
        return T.oracle(c)
    return None


def _trim_test(d):
    """TEST (labelled, not a proof obligation): rectangular hole, corners off the grid.  Every triangle
    the trimmed tessellation keeps must avoid the interior of the hole shrunk by one sampling cell, and
    every point further than one sampling cell outside the hole must still be covered."""
    from geomdl import tessellate
    import geomdl.freeform as freeform
    s = _build(d, d['su'], d['sv'])
    a, b, c, e = d['rect']
    corners = qpts([[a, c], [b, c], [b, e], [a, e], [a, c]])
    if hasattr(freeform, 'Freeform'):
        trim = freeform.Freeform()
        trim.evaluate(points=corners)
    else:   # closed polygon as a degree-1 B-spline sampled at its corners
        from geomdl import BSpline
        trim = BSpline.Curve()
        trim.degree = 1
        trim.ctrlpts = corners
        trim.knotvector = qs([0, 0, F(1, 4), F(1, 2), F(3, 4), 1, 1])
        trim.sample_size = 5
    try:
        s.trims = [trim]
        s.tessellator = tessellate.TrimTessellate()
        s.tessellate()
        vs, fs = s.vertices, s.faces
    except Exception as ex:
        return "trimmed tessellation of a rectangular hole raises %s: %s" % (type(ex).__name__, ex)
    ids = [v.id for v in vs]
    if ids != list(range(len(vs))):
        return "trimmed mesh: vertex ids are not consecutive"
    uv = [(_f(v.uv[0]), _f(v.uv[1])) for v in vs]
    faces = [list(f.data) for f in fs]
    for f in faces:
        if any(i < 0 or i >= len(vs) for i in f):
            return "trimmed mesh: face %s out of range" % f
    du, dv = F(1, d['su'] - 1), F(1, d['sv'] - 1)

    def covered(x, y):
        n = 0
        for f in faces:
            A, B, C = uv[f[0]], uv[f[1]], uv[f[2]]
            s1, s2, s3 = _area2(A, B, (x, y)), _area2(B, C, (x, y)), _area2(C, A, (x, y))
            if (s1 > 0 and s2 > 0 and s3 > 0) or (s1 < 0 and s2 < 0 and s3 < 0):
                n += 1
        return n
    # kept area: between the rectangle minus the hole grown / shrunk by one sampling cell
    area = sum(abs(_area2(uv[f[0]], uv[f[1]], uv[f[2]])) for f in faces) / 2
    lo = 1 - (b - a + 2 * du) * (e - c + 2 * dv)
    hi = 1 - max(F(0), b - a - 2 * du) * max(F(0), e - c - 2 * dv)
    if not lo <= area <= hi:
        return "trimmed mesh keeps parametric area %s, outside [%s, %s] (hole grown / shrunk by one sampling cell)" % (
            fr(area), fr(lo), fr(hi))
    for v in vs:
        if 0 <= v.uv[0] <= 1 and 0 <= v.uv[1] <= 1 and list(v.data) != list(s.evaluate_single(v.uv)):
            return "trimmed mesh: vertex %d is not the surface point at its parameters" % v.id
    # deep inside the hole (more than one cell from its border): nothing may remain
    if b - a > 2 * du and e - c > 2 * dv:
        x, y = (a + b) / 2 + du / 1009, (c + e) / 2 + dv / 1013
        if a + du < x < b - du and c + dv < y < e - dv and covered(x, y):
            return "trimmed mesh still covers (%s,%s), more than one sampling cell inside the hole" % (fr(x), fr(y))
    # well outside the hole: must be covered exactly once
    for (x, y) in [(a - du - du / 7, (c + e) / 2 + dv / 1013), (b + du + du / 7, (c + e) / 2 + dv / 1013),
                   ((a + b) / 2 + du / 1009, c - dv - dv / 7), ((a + b) / 2 + du / 1009, e + dv + dv / 7)]:
        if 0 < x < 1 and 0 < y < 1:
            n = covered(x, y)
            if n != 1:
                return "trimmed mesh covers (%s,%s), more than one sampling cell outside the hole, %d times" % (fr(x), fr(y), n)
    return None


_FLOAT_SCRIPT = r"""
import sys, json
sys.path.insert(0, sys.argv[1])
d = json.loads(sys.stdin.read())
from geomdl import BSpline, NURBS
s = NURBS.Surface() if d['rat'] else BSpline.Surface()
s.degree_u = d['pu']; s.degree_v = d['pv']
s.set_ctrlpts(d['P'], d['cu'], d['cv'])
s.knotvector_u = d['Uu']; s.knotvector_v = d['Uv']
s.sample_size_u = d['su']; s.sample_size_v = d['sv']
s.tessellate(vertex_spacing=d['s'])
vs = s.vertices
print(json.dumps(dict(ids=[v.id for v in vs], uv=[list(v.uv) for v in vs], pos=[list(v.data) for v in vs],
                      faces=[list(f.data) for f in s.faces])))
"""


def _float_companion(d):
    """the same public calls with ordinary doubles in a separate interpreter; compared with the exact run"""
    import subprocess, json, core
    P = G.homogeneous(d['P'], d['w']) if d['rat'] else d['P']
    inp = dict(rat=d['rat'], pu=d['pu'], pv=d['pv'], cu=d['cu'], cv=d['cv'], su=d['su'], sv=d['sv'], s=d['s'],
               P=[[float(x) for x in p] for p in P], Uu=[float(x) for x in d['Uu']], Uv=[float(x) for x in d['Uv']])
    r = subprocess.run([sys_executable(), '-c', _FLOAT_SCRIPT, core.REPO], input=json.dumps(inp), capture_output=True, text=True, timeout=600)
    if r.returncode != 0:
        return "float mode: Surface.tessellate(vertex_spacing=%d) with sample size %dx%d fails: %s" % (
            d['s'], d['su'], d['sv'], r.stderr.strip().splitlines()[-1] if r.stderr.strip() else r.returncode)
    o = json.loads(r.stdout)
    ex = _build(d, d['su'], d['sv'])
    ex.tessellate(vertex_spacing=d['s'])
    evs = ex.tessellator.vertices
    if o['ids'] != [v.id for v in evs] or o['faces'] != [list(f.data) for f in ex.tessellator.faces]:
        return "float mode: ids / faces differ from the exact run"
    scale = 1 + max(abs(float(x)) for p in d['P'] for x in p)
    ulp = 2.0 ** -52
    for v, uv, pos in zip(evs, o['uv'], o['pos']):
        for a, b in zip(uv, v.uv):
            if abs(a - float(b)) > 64 * ulp:
                return "float mode: vertex %d stores parameter %r, exact %s" % (v.id, a, fr(b))
            if a > 1.0 or a < 0.0:
                G.count('float_uv_outside_domain', 'by<=%dulp' % max(1, int(round((a - 1.0) / ulp))))
        if max(abs(a - float(b)) for a, b in zip(pos, v.data)) > 1e-9 * scale * 50:
            return "float mode: vertex %d position %r, exact %s" % (v.id, pos, show_list(v.data))
    G.count('float_companion', 'agree')
    return None


def sys_executable():
    import sys
    return sys.executable


# ------------------------------------------------------------------ recorded findings
def classify(c, why):
    d = c.data
    if c.kind == 'pos-unnorm' and ('outside the surface domain' in why or 'surface there' in why or 'raises' in why
                                   or 'reads back' in why):
        return 'F-01'
    if c.kind == 'exp-cont' and d.get('update') and min(d['sizes'][0]) == 2 and 'evaluation delta' in why:
        return 'F-15b'
    return None


def witness(fid):
    if fid == 'F-15b':
        from geomdl import multi
        sd = dict(rat=False, pu=1, pv=2, Uu=[F(0), F(0), F(1), F(1)], Uv=[F(0), F(0), F(0), F(1), F(1), F(1)], cu=2, cv=3,
                  P=[[F(i), F(j), F(i * j)] for i in range(2) for j in range(3)], w=None)
        c = multi.SurfaceContainer(_build(sd, 4, 4))
        c.sample_size_u = 2
        c.sample_size_v = 3
        try:
            c.tessellate()
        except Exception as e:
            return "SurfaceContainer.sample_size_u = 2; tessellate() raises %s: %s" % (type(e).__name__, e)
        return None
    if fid == 'F-01':
        d = dict(rat=False, pu=1, pv=2, Uu=[F(1), F(1), F(4), F(4)], Uv=[F(0), F(0), F(0), F(1), F(1), F(1)], cu=2, cv=3,
                 P=[[F(i), F(j), F(i * j)] for i in range(2) for j in range(3)], w=None, su=5, sv=4, s=1, unnorm=True)
        return oracle(Case('pos-unnorm', '', d))
    return None
