"""C12  No stale derived state after any sequence of edits.

model side   : the abstract cache-effect table `Gen.effects`, REGENERATED from /repo's source by
               harness/effects.py before every `lake build` (pre_build) and re-checked by the Lean kernel
               (Props/C12.lean: all_paths_ok + the lift to all histories + soundness for a concrete model)
static_checks: translator obligations + dynamic validation of the translator (real objects are traced
               while random histories execute; every logged event sequence of an op must be one of the
               extracted paths of that op)
gen/oracle   : random histories (mutators and readers interleaved, deep copies mid-history, containers);
               after every step every derived view of every touched object - read through the public
               getters on a cache-preserving clone - is compared, in exact rational arithmetic, with what
               a FRESHLY BUILT object with the same definition reports; objects not touched by a step must
               not change at all (deep-copy independence).  `line` is None: there is no value-level model
               for C12, the model side is the table.
"""
import copy, os, sys, json, random
from fractions import Fraction as F
import core
from core import Case, q, fr
import effects as E

PID = 'C12'
EXTRA_TARGETS = ['NurbsVerif.Props.C12Pinned']
STATS = {}
PARTIAL = [
    "cross-object staleness (a container is not told when one of its elements is edited, F-12b) is outside the per-object "
    "effect table; it is observed by the history oracle only and recorded as an open finding",
    "aliasing of returned lists (reset empties in place a list handed to the caller, F-12c) is not expressible in the table; "
    "history oracle only, recorded as an open finding",
    "deep-copy independence is checked by the history oracle (state fingerprint of every untouched object after every step); "
    "the Lean side only proves that a copy (same fields, empty caches) satisfies the invariant",
    "exceptions raised inside callee helpers in the middle of a mutator are not modelled (only explicit `raise` statements of "
    "the analysed files end a path); the dynamic validation accepts a prefix of an extracted path for an operation that raised",
]
ASSUMPTIONS = [
    "vocabulary of harness/effects.py: which private attribute is which definition field / cache (a write to an attribute "
    "outside the vocabulary makes the translation fail)",
    "a cache is filled only from the current fields and a fresh value depends only on the fields listed in `deps` "
    "(Model/Effects.lean); validated per step by the history oracle, not proved about the Python code",
    "self._insert_knot_func / _remove_knot_func are the defaults operations.insert_knot / remove_knot",
    "evaluate()/tessellate() are called without start/stop/force keywords (with them evalpts is by design not the full-range sampling)",
    "trim curves, the tessellator/evaluator/vis components and the expert setters cpsize / ctrlpts_size_* are outside the edits the property lists",
]
TRUSTED = ["harness/effects.py (translator; validated dynamically on every run against traced objects)"]

_TABLE = {'entries': None, 'meta': None, 'error': None}
GEOM = ('BC', 'NC', 'BS', 'NS', 'BV', 'NV')
CONT = ('CC', 'SC', 'VC')
CLSNAME = {'BC': 'BSpline.Curve', 'NC': 'NURBS.Curve', 'BS': 'BSpline.Surface', 'NS': 'NURBS.Surface',
           'BV': 'BSpline.Volume', 'NV': 'NURBS.Volume', 'CC': 'multi.CurveContainer',
           'SC': 'multi.SurfaceContainer', 'VC': 'multi.VolumeContainer'}
DIRS = ['u', 'v', 'w']


# ------------------------------------------------------------------ pre-build: regenerate the table
def pre_build(tier):
    probs = []
    try:
        entries, meta = E.generate(core.REPO, core.LEAN)
        _TABLE.update(entries=entries, meta=meta, error=None)
    except E.TranslatorError as e:
        _TABLE.update(entries=None, meta=None, error=str(e))
        # make the Lean obligation fail loudly instead of checking a stale table
        path = os.path.join(core.LEAN, 'NurbsVerif', 'Gen', 'Effects.lean')
        os.makedirs(os.path.dirname(path), exist_ok=True)
        with open(path, 'w') as f:
            f.write("import NurbsVerif.Model.Effects\n/-! GENERATED: the translator FAILED: %s -/\nnamespace Gen\nopen Eff\n"
                    "def effects : List OpSummary :=\n  [{ cls := \"TRANSLATOR FAILED\", op := \"\", caches := [.evalpts],\n"
                    "     paths := [[.fill .evalpts, .write .net]], raising := [] }]\nend Gen\n" % str(e).replace('-/', '- /'))
        probs.append(dict(kind='translator', detail=str(e)))
    return dict(problems=probs)


# ------------------------------------------------------------------ classes, construction, definitions
def classes():
    from geomdl import BSpline, NURBS, multi
    return {'BC': BSpline.Curve, 'NC': NURBS.Curve, 'BS': BSpline.Surface, 'NS': NURBS.Surface,
            'BV': BSpline.Volume, 'NV': NURBS.Volume, 'CC': multi.CurveContainer, 'SC': multi.SurfaceContainer,
            'VC': multi.VolumeContainer}


def kind_of(o):
    for k, c in classes().items():
        if isinstance(o, c) and (k[0] != 'B' or not getattr(o, 'rational', False)) and (k[0] != 'N' or getattr(o, 'rational', True)):
            if k in CONT or o.pdimension == {'C': 1, 'S': 2, 'V': 3}[k[1]]:
                return k
    raise ValueError("unknown object %r" % (o,))


def cv(x):
    """JSON-level data -> values for the exact-mode implementation"""
    if isinstance(x, F):
        return q(x)
    if isinstance(x, bool) or x is None or isinstance(x, (int, str)):
        return x
    if isinstance(x, dict):
        return {k: cv(v) for k, v in x.items()}
    if isinstance(x, (list, tuple)):
        return [cv(v) for v in x]
    return x


def norm(x):
    """exact canonical form of a view (nested tuples of Fractions)"""
    from qnum import Q
    if isinstance(x, Q):
        return x.q
    if isinstance(x, bool) or x is None or isinstance(x, (str, F)):
        return x
    if isinstance(x, int):
        return F(x)
    if isinstance(x, float):
        return F(x) if x == x and abs(x) != float('inf') else str(x)
    if isinstance(x, (list, tuple)):
        return tuple(norm(v) for v in x)
    return repr(x)


def pdim_of(kind):
    return {'C': 1, 'S': 2, 'V': 3}[kind[0] if kind in CONT else kind[1]]


def defn(o, kind=None):
    """the definition of a live geometry, read through pure public getters"""
    kind = kind or kind_of(o)
    pd = pdim_of(kind)
    if pd == 1:
        deg = [o.degree]; kv = [list(o.knotvector)]; sizes = [len(o.ctrlptsw if kind[0] == 'N' else o.ctrlpts)]
        delta = [o.delta]
    else:
        deg = list(o.degree); kv = [list(k) for k in o.knotvector]
        sizes = [getattr(o, 'ctrlpts_size_' + d) for d in DIRS[:pd]]; delta = list(o.delta)
    net = o.ctrlptsw if kind[0] == 'N' else o.ctrlpts
    return dict(kind=kind, deg=norm(deg), kv=norm(kv), sizes=norm(sizes), net=norm(net), delta=norm(delta))


def build(d, cls=None):
    """a freshly built object with the given definition, through the public API in the documented order"""
    kind = d['kind']
    o = (cls or classes()[kind])()
    pd = pdim_of(kind)
    deg = [int(x) for x in d['deg']]
    sizes = [int(x) for x in d['sizes']]
    net = cv([list(p) for p in d['net']])
    if pd == 1:
        o.degree = deg[0]
        o.set_ctrlpts(net)
        o.knotvector = cv(list(d['kv'][0]))
        o.delta = cv(d['delta'][0])
    else:
        for i in range(pd):
            setattr(o, 'degree_' + DIRS[i], deg[i])
        o.set_ctrlpts(net, *sizes)
        for i in range(pd):
            setattr(o, 'knotvector_' + DIRS[i], cv(list(d['kv'][i])))
        o.delta = cv(list(d['delta']))
    return o


def consistent(d):
    """can the definition be evaluated (every direction: #knots = n + p + 1, n >= p + 1, net complete)?"""
    n = 1
    for p, s, kv in zip(d['deg'], d['sizes'], d['kv']):
        if p < 1 or s < p + 1 or len(kv) != s + p + 1:
            return False
        n *= s
    return len(d['net']) == n and n > 0


GEOM_VIEWS = {'C': ['ctrlpts', 'bbox', 'evalpts'], 'S': ['ctrlpts', 'ctrlpts2d', 'bbox', 'evalpts', 'vertices'],
              'V': ['ctrlpts', 'bbox', 'evalpts']}
NEEDS_EVAL = {'evalpts', 'vertices'}


def views_of(kind):
    if kind in CONT:
        return ['evalpts', 'bbox'] + (['vertices'] if kind == 'SC' else [])
    v = list(GEOM_VIEWS[kind[1]])
    if kind[0] == 'N':
        v = ['ctrlpts', 'weights', 'ctrlptsw'] + v[1:]
    return v


def read_view(o, v):
    if v == 'vertices':
        vs = o.vertices
        return norm(([list(x.data) for x in vs], len(o.faces)))
    return norm(getattr(o, v))


# ------------------------------------------------------------------ cache-preserving clone, fingerprint
ATOM = (int, float, str, bool, type(None), F, bytes)


def fclone(x, memo):
    """deep clone that KEEPS caches (copy.deepcopy of a geomdl object drops them by design)"""
    if isinstance(x, ATOM):
        return x
    i = id(x)
    if i in memo:
        return memo[i]
    if isinstance(x, list):
        r = []; memo[i] = r
        r.extend(fclone(v, memo) for v in x)
        return r
    if isinstance(x, tuple):
        r = tuple(fclone(v, memo) for v in x); memo[i] = r
        return r
    if isinstance(x, dict):
        r = {}; memo[i] = r
        for k, v in x.items():
            r[k] = fclone(v, memo)
        return r
    if isinstance(x, type) or callable(x) and not hasattr(x, '__dict__'):
        return x
    if type(x).__module__.split('.')[0] == 'geomdl' and hasattr(x, '__dict__'):
        cls = getattr(type(x), '_c12base', type(x))          # probes are never traced
        r = cls.__new__(cls); memo[i] = r
        for k, v in vars(x).items():
            object.__setattr__(r, k, fclone(v, memo))
        return r
    if callable(x):
        return x
    try:
        return copy.deepcopy(x)
    except Exception:
        return x


def fingerprint(x, memo=None, depth=0):
    """exact canonical text of the whole state of an object (fields and caches)"""
    if memo is None:
        memo = {}
    if isinstance(x, ATOM):
        n = norm(x)
        return fr(n) if isinstance(n, F) else repr(n)
    i = id(x)
    if i in memo or depth > 12:
        return '<>'
    memo[i] = 1
    if isinstance(x, (list, tuple)):
        return '[' + ','.join(fingerprint(v, memo, depth + 1) for v in x) + ']'
    if isinstance(x, dict):
        return '{' + ','.join("%s:%s" % (k, fingerprint(v, memo, depth + 1)) for k, v in sorted(x.items(), key=lambda kv: str(kv[0]))) + '}'
    if type(x).__module__.split('.')[0] == 'geomdl' and hasattr(x, '__dict__'):
        return type(x).__name__ + fingerprint({k: v for k, v in vars(x).items() if k not in ('_iter_index',)}, memo, depth + 1)
    return '?'


# ------------------------------------------------------------------ executing one op
def table_name(op):
    k = op['k']
    if k == 'set':
        return 'set:' + op['a']
    if k == 'get':
        return 'get:' + op['a']
    if k == 'call':
        return op['a']
    if k == 'ops':
        return 'operations.' + op['a']
    if k == 'add':
        return 'add'
    return None


MUTATING = ('set', 'ops', 'add')
READER_CALLS = ('evaluate', 'tessellate')


def is_mutator(op):
    return op['k'] in MUTATING or (op['k'] == 'call' and op['a'] not in READER_CALLS)


def run_op(store, op, mk=None):
    """execute one op on the store; returns None or the exception"""
    from geomdl import operations
    k = op['k']
    try:
        if k == 'new':
            store.append(build(op['d'], mk(op['d']['kind']) if mk else None))
        elif k == 'newc':
            store.append((mk(op['kind']) if mk else classes()[op['kind']])())
        elif k == 'copy':
            store.append(copy.deepcopy(store[op['t']]))
        elif k == 'set':
            val = cv(op['v'])
            if op.get('via') == 'getter' and mk is None:      # (on TRACED objects the caller's own edit of a cached list would be logged as an event of the setter)
                # the idiom `pts = obj.ctrlpts; pts[i][k] = x; obj.ctrlpts = pts`: the list the getter handed out, edited in place
                # to the new values, is assigned back (falls back to a plain assignment when the shapes of the lists differ)
                cur = getattr(store[op['t']], op['a'])
                same = isinstance(cur, list) and len(cur) == len(val) and all(
                    (isinstance(a, list) and isinstance(b, (list, tuple)) and len(a) == len(b)) or not isinstance(b, (list, tuple)) and not isinstance(a, list)
                    for a, b in zip(cur, val))
                if same:
                    for i_, b in enumerate(val):
                        if isinstance(b, (list, tuple)):
                            for j_, x_ in enumerate(b):
                                cur[i_][j_] = x_
                        else:
                            cur[i_] = b
                    val = cur
            setattr(store[op['t']], op['a'], val)
        elif k == 'get':
            getattr(store[op['t']], op['a'])
        elif k == 'call':
            getattr(store[op['t']], op['a'])(*cv(op.get('args', [])), **cv(op.get('kw', {})))
        elif k == 'ops':
            getattr(operations, op['a'])(store[op['t']], *cv(op.get('args', [])), **cv(op.get('kw', {})))
        elif k == 'add':
            store[op['t']].add(store[op['e']])
        else:
            raise ValueError(k)
    except Exception as e:
        return e
    return None


def show_op(op):
    k = op['k']
    t = "o%d" % op['t'] if 't' in op else ''

    def sv(x):
        x = norm(x) if not isinstance(x, dict) else {a: norm(b) for a, b in x.items()}
        s = json.dumps(core.enc(x) if not isinstance(x, tuple) else core.enc(list(x)), default=str)
        return s.replace('{"$q": ', '').replace('}', '').replace('"', '') if len(s) < 160 else s[:150].replace('{"$q": ', '').replace('}', '').replace('"', '') + '…'
    if k == 'new':
        return "o? = new %s deg=%s sizes=%s" % (op['d']['kind'], sv(op['d']['deg']), sv(op['d']['sizes']))
    if k == 'newc':
        return "o? = %s()" % op['kind']
    if k == 'copy':
        return "o? = deepcopy(%s)" % t
    if k == 'set':
        return "%s.%s = %s%s" % (t, op['a'], sv(op['v']), " (the getter's list edited in place and assigned back)" if op.get('via') == 'getter' else '')
    if k == 'get':
        return "read %s.%s" % (t, op['a'])
    if k == 'call':
        return "%s.%s(%s)" % (t, op['a'], sv(op.get('args', [])) + (' ' + sv(op['kw']) if op.get('kw') else ''))
    if k == 'ops':
        return "operations.%s(%s, %s)" % (op['a'], t, sv(op.get('args', [])) + (' ' + sv(op['kw']) if op.get('kw') else ''))
    if k == 'add':
        return "%s.add(o%d)" % (t, op['e'])
    return str(op)


# ------------------------------------------------------------------ the oracle
_FRESH = {}


def fresh_views(d):
    key = (d['kind'], d['deg'], d['kv'], d['sizes'], d['net'], d['delta'])
    if key in _FRESH:
        return _FRESH[key]
    res = {}
    kind = d['kind']
    ok_eval = consistent(d)
    try:
        base = build(d) if ok_eval else None
        if base is None:
            # definition in transit (e.g. degree changed, knot vector not yet): only the net views
            base = classes()[kind]()
            pd = pdim_of(kind)
            for i in range(pd):
                setattr(base, 'degree' if pd == 1 else 'degree_' + DIRS[i], int(d['deg'][i]))
            if pd == 1:
                base.set_ctrlpts(cv([list(p) for p in d['net']]))
            else:
                base.set_ctrlpts(cv([list(p) for p in d['net']]), *[int(s) for s in d['sizes']])
    except Exception as e:
        _FRESH[key] = None
        return None
    for v in views_of(kind):
        if v in NEEDS_EVAL and not ok_eval:
            continue
        try:
            res[v] = read_view(fclone(base, {}), v)
        except Exception as e:
            res[v] = ('ERR', type(e).__name__)
    if len(_FRESH) > 4000:
        _FRESH.clear()
    _FRESH[key] = res
    return res


def check_geom(o, kind, label):
    """every derived view of a live geometry against a freshly built one; returns failure text or None"""
    try:
        d = defn(o, kind)
    except Exception as e:
        return None
    want = fresh_views(d)
    if want is None:
        return None           # not buildable through the public API (definition in transit)
    for v, w in want.items():
        try:
            got = read_view(fclone(o, {}), v)
        except Exception as e:
            got = ('ERR', type(e).__name__)
        if got != w:
            return "%s %s.%s differs from a freshly built %s with the same definition: %s" % (kind, label, v, kind, diff_text(got, w))
    return None


def diff_text(got, want):
    def flat(x):
        out = []
        st = [x]
        while st:
            y = st.pop()
            if isinstance(y, tuple):
                st.extend(reversed(y))
            else:
                out.append(y)
        return out
    g, w = flat(got), flat(want)
    if len(g) != len(w):
        return "%d values, fresh has %d" % (len(g), len(w))
    for i, (a, b) in enumerate(zip(g, w)):
        if a != b:
            return "value #%d is %s, fresh %s" % (i, fr(a) if isinstance(a, F) else a, fr(b) if isinstance(b, F) else b)
    return "shape differs"


def container_fresh(c, kind, store):
    """a freshly built container: deep copies of the same elements in order, the same delta"""
    new = classes()[kind]()
    for e in c:
        new.add(copy.deepcopy(e))
    new.delta = c.delta
    return new


def check_container(c, kind, label):
    try:
        new = container_fresh(c, kind, None)
    except Exception:
        return None
    for v in views_of(kind):
        try:
            want = read_view(fclone(new, {}), v)
        except Exception as e:
            want = ('ERR', type(e).__name__)
        try:
            got = read_view(fclone(c, {}), v)
        except Exception as e:
            got = ('ERR', type(e).__name__)
        if got != want:
            return "%s %s.%s differs from a freshly built container with the same elements and delta: %s" % (kind, label, v, diff_text(got, want))
    return None


def related(store, i):
    """indices whose state an op on object i may legitimately change: i itself, containers holding it, its elements"""
    out = {i}
    o = store[i]
    for j, x in enumerate(store):
        if hasattr(x, '_elements'):
            if any(e is o for e in x._elements):
                out.add(j)
            if x is o:
                for e in x._elements:
                    out |= {m for m, y in enumerate(store) if y is e}
    return out


def run_history(ops, upto=None, mk=None, on_step=None):
    """execute a history with the oracle after every step; returns (failure text or None, index of failing step, info)"""
    store = []
    kinds = []
    returned = []          # (label, live reference, snapshot) of lists handed to the caller by readers
    info = dict(errors=0, steps=0, elem_edit_since={}, cont_fail=None, known=[])
    tainted = set()       # containers whose caches are known to be stale through F-12b (until their next own edit)
    for n, op in enumerate(ops if upto is None else ops[:upto]):
        before = None
        tgt = op.get('t')
        if tgt is not None and tgt < len(store):
            before = {j: fingerprint(x) for j, x in enumerate(store) if j not in related(store, tgt)}
        nstore = len(store)
        if on_step:
            on_step('pre', n, op, store)
        exc = run_op(store, op, mk)
        if on_step:
            on_step('post', n, op, store, exc)
        info['steps'] += 1
        if exc is not None:
            info['errors'] += 1
        if len(store) > nstore:
            kinds.append(op['d']['kind'] if op['k'] == 'new' else (op['kind'] if op['k'] == 'newc' else kinds[op['t']]))
        # reader results handed to the caller (aliasing, F-12c)
        if op['k'] == 'get' and exc is None and tgt is not None:
            try:
                val = getattr(store[tgt], op['a'])
                if isinstance(val, list) and len(val) > 0:
                    returned.append(("o%d.%s" % (tgt, op['a']), val, norm(val), n))
            except Exception:
                pass
        # bookkeeping for the classification of container staleness (F-12b)
        if tgt is not None and tgt < len(store) and is_mutator(op):
            for j in related(store, tgt):
                if kinds[j] in CONT and j != tgt:
                    info['elem_edit_since'][j] = n
            if kinds[tgt] in CONT:
                info['elem_edit_since'].pop(tgt, None)
                tainted.discard(tgt)
        # 1. independence: nothing else changed
        if before is not None:
            for j, fp in before.items():
                if fingerprint(store[j]) != fp:
                    return ("step %d (%s) changed the state of the unrelated object o%d (%s)" % (n, show_op(op), j, kinds[j]), n, info)
        # 2. every view of the touched objects equals the fresh one
        touched = related(store, tgt) if (tgt is not None and tgt < len(store)) else set()
        if len(store) > nstore:
            touched.add(len(store) - 1)
        for j in sorted(touched):
            if j in tainted:
                continue
            why = check_geom(store[j], kinds[j], "o%d" % j) if kinds[j] in GEOM else check_container(store[j], kinds[j], "o%d" % j)
            if why:
                text = "after step %d (%s): %s" % (n, show_op(op), why)
                if kinds[j] in CONT and info['elem_edit_since'].get(j) is not None:
                    # recorded finding F-12b: an element was edited after the container filled its cache and the
                    # container itself has not been edited since; note it and go on with the rest of the history
                    info['known'].append(('F-12b', text, n))
                    tainted.add(j)
                    continue
                return (text, n, info)
        # 3. lists handed out earlier were not emptied behind the caller's back
        for ent in list(returned):
            lab, ref, snap, at = ent
            if len(snap) > 0 and len(ref) == 0:
                # recorded finding F-12c; note it and go on
                info['known'].append(('F-12c', "after step %d (%s): the list returned by reading %s at step %d was emptied in place"
                                      % (n, show_op(op), lab, at), n))
                returned.remove(ent)
    return (None, None, info)


def shrink(ops, why_key):
    """greedy removal of ops (keeping indices consistent) while the same kind of failure remains"""
    def fails(cand):
        try:
            w, at, info = run_history(cand)
        except Exception:
            return False
        return w is not None and key_of(w) == why_key
    cur = list(ops)
    w, at, info = run_history(cur)
    if at is not None:
        cur = cur[:at + 1]
    changed = True
    while changed and len(cur) > 1:
        changed = False
        for i in range(len(cur) - 1, -1, -1):
            cand = drop(cur, i)
            if cand is not None and fails(cand):
                cur = cand; changed = True
    return cur


def key_of(why):
    # failure class: which view of which kind / independence / aliasing
    for tag in ('unrelated object',):
        if tag in why:
            return tag
    i = why.find(': ')
    rest = why[i + 2:] if i >= 0 else why
    parts = rest.split(' ')
    return parts[0] + ' ' + parts[1].split('.')[-1] if len(parts) > 1 else rest


def drop(ops, i):
    """remove op i; ops creating an object can only be removed when nothing refers to the object"""
    op = ops[i]
    creates = op['k'] in ('new', 'newc', 'copy')
    if creates:
        idx = sum(1 for o in ops[:i] if o['k'] in ('new', 'newc', 'copy'))
        for o in ops[i + 1:]:
            if o.get('t') == idx or o.get('e') == idx:
                return None
        out = []
        for j, o in enumerate(ops):
            if j == i:
                continue
            o = dict(o)
            if j > i:
                if o.get('t') is not None and o['t'] > idx:
                    o['t'] -= 1
                if o.get('e') is not None and o['e'] > idx:
                    o['e'] -= 1
            out.append(o)
        return out
    return ops[:i] + ops[i + 1:]


def oracle(c):
    if c.kind.startswith('abs-replay'):
        return None          # the same history is already an oracle case
    ops = c.data['ops']
    why, at, info = run_history(ops)
    STATS['steps'] = STATS.get('steps', 0) + info['steps']
    STATS['error_steps'] = STATS.get('error_steps', 0) + info['errors']
    if why is None:
        if info['known']:
            fid, text, at = info['known'][0]
            c.data['known'] = fid
            STATS.setdefault('known_hits', {})
            for k_ in info['known']:
                STATS['known_hits'][k_[0]] = STATS['known_hits'].get(k_[0], 0) + 1
            return "[%s] %s" % (fid, text)
        return None
    c.data.pop('known', None)
    try:
        small = shrink(ops, key_of(why))
        w2, at2, info2 = run_history(small)
        if w2 is not None:
            c.data['ops'] = small
            c.data['replay'] = [show_op(o) for o in small]
            return "%d-op replay: %s || %s" % (len(small), ' ; '.join(show_op(o) for o in small), w2)
    except Exception:
        if os.environ.get('VERIF_DEBUG'):
            import traceback; traceback.print_exc()
    return why


# ------------------------------------------------------------------ value-free abstract replay (driver op c12hist)
CACHE_VIEW = {'evalpts': 'evalpts', 'bbox': 'bbox', 'cp2d': 'ctrlpts2d', 'cpCache': 'ctrlpts', 'wCache': 'weights', 'tess': 'vertices'}
EVCODE = {'write': 'w', 'clear': 'c', 'fill': 'f'}


def cache_content(o, c):
    """white-box content of one cache of a live geometry (diagnostic correspondence only)"""
    if c == 'evalpts':
        return o._eval_points
    if c == 'bbox':
        return o._bounding_box
    if c == 'cp2d':
        return o._control_points2D
    if c == 'cpCache':
        return o._cache['ctrlpts']
    if c == 'wCache':
        return o._cache['weights']
    if c == 'tess':
        return [list(v.data) for v in o._tsl_component.vertices]
    raise ValueError(c)


def observe(o, kind, caches):
    """e / f / s per cache: empty, holding what a fresh object reports, holding something else"""
    out = ''
    want = None
    for c in caches:
        x = cache_content(o, c)
        if x is None or len(x) == 0:
            out += 'e'; continue
        if want is None:
            want = fresh_views(defn(o, kind)) or {}
        w = want.get(CACHE_VIEW[c])
        if w is None:
            out += '?'; continue
        if c == 'tess':
            w = w[0]
        out += 'f' if norm(x) == w else 's'
    return out


def abs_replay_case(ops, kind, caches, tr):
    """run the history on traced objects; line = logged events of every op on object 0"""
    cl = classes()
    mk = lambda k: tr.traced(cl[k])
    store = []
    evs = []
    start = None
    for op in ops:
        del tr.log[:]
        run_op(store, op, mk)
        if start is None:
            start = observe(store[0], kind, caches)
            continue
        if op.get('t') != 0 or op['k'] == 'copy':
            continue
        e = tr.events_of(store[0], 0)
        evs.append(','.join("%s:%s" % (EVCODE[k], x) for k, x in e) if e else '-')
    if not evs:
        return None
    line = "c12hist %s %s %s" % (','.join(caches), start, ';'.join(evs))
    return Case('abs-replay-' + kind, line, dict(ops=ops, kind=kind, caches=caches))


def impl(c):
    """observed e/f/s classification of every cache of object 0 after every op on it (real, untraced classes)"""
    d = c.data
    store = []
    out = []
    for n, op in enumerate(d['ops']):
        run_op(store, op)
        if n == 0 or op.get('t') != 0 or op['k'] == 'copy':
            continue
        out.append(observe(store[0], d['kind'], d['caches']))
    return ';'.join(out)


# ------------------------------------------------------------------ findings
def classify(c, why):
    """F-12b: a container view is stale, one of its elements was edited after the container last filled its
    cache and the container itself was not edited since.  F-12c: a non-empty list handed to the caller by a
    reader is found emptied in place after a later edit.  (Both are decided inside run_history, where the
    history is known; every other failure is unclassified = a violation.)"""
    k = c.data.get('known')
    if k == 'F-12b' and why.startswith('[F-12b]') and 'freshly built container' in why:
        return 'F-12b'
    if k == 'F-12c' and why.startswith('[F-12c]') and 'emptied in place' in why:
        return 'F-12c'
    return None


def witness(fid):
    from geomdl import NURBS, BSpline, multi
    if fid == 'F-12b':
        s = build(dict(kind='BC', deg=(F(2),), kv=((F(0), F(0), F(0), F(1), F(1), F(1)),), sizes=(F(3),),
                       net=((F(0), F(0)), (F(1), F(2)), (F(3), F(0))), delta=(F(1, 4),)))
        cont = multi.CurveContainer()
        cont.add(s)
        cont.delta = q(F(1, 4))
        a = norm(cont.evalpts)
        s.ctrlpts = cv([[F(0), F(0)], [F(1), F(5)], [F(3), F(0)]])
        b = norm(cont.evalpts)
        fresh = multi.CurveContainer(); fresh.add(copy.deepcopy(s)); fresh.delta = q(F(1, 4))
        w = norm(fresh.evalpts)
        return "container.evalpts after editing its element still the old sampling" if b != w and b == a else None
    if fid == 'F-12c':
        cu = build(dict(kind='NC', deg=(F(2),), kv=((F(0), F(0), F(0), F(1), F(1), F(1)),), sizes=(F(3),),
                        net=((F(0), F(0), F(1)), (F(2), F(4), F(2)), (F(3), F(0), F(1))), delta=(F(1, 4),)))
        w = cu.weights
        n0 = len(w)
        cu.ctrlptsw = cv([[F(0), F(0), F(1)], [F(2), F(2), F(2)], [F(3), F(0), F(1)]])
        return "weights list handed to the caller had %d entries, now %d" % (n0, len(w)) if n0 and not len(w) else None
    return None


# ------------------------------------------------------------------ generator
def rq(rng, lo=-5, hi=5, dens=(1, 1, 2, 3, 4)):
    return F(rng.randint(lo * 4, hi * 4), rng.choice(dens) * 4)


def rpoint(rng, dim):
    return [rq(rng) for _ in range(dim)]


def rweights(rng, n):
    return [rng.choice([F(1), F(1), F(2), F(1, 2), F(3), F(3, 2), F(1, 3)]) for _ in range(n)]


def rknots(rng, p, n):
    """clamped knot vector for degree p and n control points with random interior knots (multiplicity <= p)"""
    m = n - p - 1
    interior = []
    while len(interior) < m:
        t = F(rng.randint(1, 11), 12) if rng.random() < .7 else F(rng.randint(1, 6), 7)
        if interior.count(t) < p:
            interior.append(t)
            if rng.random() < .25 and len(interior) < m and interior.count(t) < p:
                interior.append(t)
    return [F(0)] * (p + 1) + sorted(interior) + [F(1)] * (p + 1)


def rdelta(rng, small):
    if small:
        return rng.choice([F(1, 2), F(1, 2), F(1, 3), F(2, 5), F(3, 7)])
    k = rng.randint(2, 6)
    return rng.choice([F(1, k), F(1, k), F(3, 10), F(2, 5), F(1, 3)])


def new_defn(rng, kind):
    pd = pdim_of(kind)
    if pd == 1:
        deg = [rng.randint(1, 3)]; sizes = [rng.randint(deg[0] + 1, deg[0] + 3)]
    elif pd == 2:
        deg = [rng.randint(1, 2), rng.randint(1, 3)]
        sizes = [deg[0] + rng.randint(1, 2), deg[1] + rng.randint(1, 2)]
        if sizes[0] == sizes[1]:
            sizes[1] += 1
    else:
        deg = [1, rng.randint(1, 2), 1]; sizes = [2, deg[1] + 1 + rng.randint(0, 1), 2 + rng.randint(0, 1)]
    dim = 2 if (pd == 1 and rng.random() < .5) else 3
    n = 1
    for s in sizes:
        n *= s
    pts = [rpoint(rng, dim) for _ in range(n)]
    if kind[0] == 'N':
        w = rweights(rng, n)
        pts = [[c * wi for c in p] + [wi] for p, wi in zip(pts, w)]
    kv = [rknots(rng, p, s) for p, s in zip(deg, sizes)]
    delta = [rdelta(rng, pd > 1) for _ in range(pd)]
    return dict(kind=kind, deg=norm(deg), kv=norm(kv), sizes=norm(sizes), net=norm(pts), delta=norm(delta))


class Gen(object):
    """stateful history generator: executes the ops it emits on real objects so that parameters are
    valid for the current state (knots to insert / remove, sizes for new nets)"""

    def __init__(self, rng, tier):
        self.rng = rng; self.ops = []; self.store = []; self.kinds = []; self.pending = {}

    def emit(self, op):
        n = len(self.store)
        exc = run_op(self.store, op)
        if len(self.store) > n:
            self.kinds.append(op['d']['kind'] if op['k'] == 'new' else (op['kind'] if op['k'] == 'newc' else self.kinds[op['t']]))
        self.ops.append(op)
        STATS.setdefault('ops', {})
        key = table_name(op) or op['k']
        STATS['ops'][key] = STATS['ops'].get(key, 0) + 1
        return exc

    # ---- readers
    def reader(self, t):
        kind = self.kinds[t]; rng = self.rng
        if kind in CONT:
            v = rng.choice(['evalpts', 'evalpts', 'bbox'] + (['vertices', 'faces'] if kind == 'SC' else []))
            return dict(k='get', t=t, a=v)
        ok = consistent(defn(self.store[t], kind))
        vs = ['ctrlpts', 'bbox'] + (['weights', 'ctrlptsw', 'weights', 'ctrlpts'] if kind[0] == 'N' else []) + (['ctrlpts2d'] if kind[1] == 'S' else [])
        if ok:
            vs += ['evalpts', 'evalpts'] + (['vertices', 'faces'] if kind[1] == 'S' else [])
        v = rng.choice(vs)
        if ok and rng.random() < .12:
            return dict(k='call', t=t, a=rng.choice(['evaluate'] + (['tessellate'] if kind[1] == 'S' else [])))
        return dict(k='get', t=t, a=v)

    # ---- mutators of geometries
    def mutator(self, t):
        rng = self.rng; kind = self.kinds[t]; o = self.store[t]
        d = defn(o, kind); pd = pdim_of(kind)
        deg = [int(x) for x in d['deg']]; sizes = [int(x) for x in d['sizes']]
        dim = len(d['net'][0]) - (1 if kind[0] == 'N' else 0) if d['net'] else 3
        ntot = len(d['net'])
        sfx = (lambda i: '' if pd == 1 else '_' + DIRS[i])
        if t in self.pending and self.pending[t]:
            i = self.pending[t].pop(0)
            return [dict(k='set', t=t, a='knotvector' + sfx(i), v=rknots(rng, deg[i], sizes[i]))]
        if not consistent(d):
            # repair whatever is inconsistent
            for i in range(pd):
                if len(d['kv'][i]) != sizes[i] + deg[i] + 1 and sizes[i] >= deg[i] + 1:
                    return [dict(k='set', t=t, a='knotvector' + sfx(i), v=rknots(rng, deg[i], sizes[i]))]
            return [dict(k='set', t=t, a='degree' + sfx(0), v=1)]
        i = rng.randrange(pd)
        kv = list(d['kv'][i])
        interior = sorted(set(kv[deg[i] + 1:len(kv) - deg[i] - 1]))
        choices = ['degree', 'knotvector', 'ctrlpts', 'set_ctrlpts', 'delta', 'delta', 'sample_size', 'insert', 'insert', 'remove',
                   'refine', 'translate', 'scale', 'rotate', 'ctrlpts_n']
        if kind[0] == 'N':
            choices += ['weights', 'weights', 'ctrlptsw', 'ctrlpts']
        if rng.random() < .07:
            # a rejected edit (the setter / operation raises): the object must stay coherent
            bad = rng.choice(['degree', 'knotvector', 'delta', 'sample_size', 'insert', 'insert_param'])
            STATS.setdefault('rejected_edits', {}); STATS['rejected_edits'][bad] = STATS['rejected_edits'].get(bad, 0) + 1
            if bad == 'degree':
                return [dict(k='set', t=t, a='degree' + sfx(i), v=-1)]
            if bad == 'knotvector':
                wrong = rknots(rng, deg[i], sizes[i])
                wrong = wrong[:-1] if rng.random() < .5 else wrong[:deg[i] + 1] + [F(-1)] + wrong[deg[i] + 2:]
                return [dict(k='set', t=t, a='knotvector' + sfx(i), v=wrong)]
            if bad == 'delta':
                return [dict(k='set', t=t, a='delta' + (sfx(i) if rng.random() < .5 else ''), v=rng.choice([0, F(3, 2), -F(1, 4)]))]
            if bad == 'sample_size':
                return [dict(k='set', t=t, a='sample_size' + (sfx(i) if rng.random() < .5 else ''), v=F(5, 2))]
            if bad == 'insert':
                par = [None] * pd; nums = [0] * pd; par[i] = F(1, 2); nums[i] = deg[i] + 1
                return [dict(k='ops', t=t, a='insert_knot', args=[par, nums])]
            par = [None] * pd; nums = [0] * pd; par[i] = F(3, 2); nums[i] = 1
            return [dict(k='call', t=t, a='insert_knot', args=[par[0]] if pd == 1 else [], kw=(dict(num=1) if pd == 1 else {DIRS[i]: F(3, 2), 'num_' + DIRS[i]: 1}))]
        if pd == 1:
            choices += ['reverse', 'reverse', 'reverse']
        if pd == 2:
            choices += ['transpose', 'transpose', 'optranspose', 'flip', 'ctrlpts2d', 'ctrlpts2d']
        if pd > 1:
            choices += ['delta_d', 'sample_size_d', 'degree_all', 'knotvector_all']
        ch = rng.choice(choices)
        if ch == 'degree':
            cand = [p for p in range(1, sizes[i]) if p != deg[i] and p <= 4]
            if not cand:
                ch = 'delta'
            else:
                self.pending.setdefault(t, []).append(i)
                return [dict(k='set', t=t, a='degree' + sfx(i), v=rng.choice(cand))]
        if ch == 'degree_all':
            return [dict(k='set', t=t, a='degree', v=list(deg))]
        if ch == 'knotvector':
            return [dict(k='set', t=t, a='knotvector' + sfx(i), v=rknots(rng, deg[i], sizes[i]))]
        if ch == 'knotvector_all':
            return [dict(k='set', t=t, a='knotvector', v=[rknots(rng, deg[j], sizes[j]) for j in range(pd)])]
        if ch == 'ctrlpts':
            if rng.random() < .4:      # read, edit the list in place, assign it back (the read is its own step: it may fill a cache)
                return [dict(k='get', t=t, a='ctrlpts'), dict(k='set', t=t, a='ctrlpts', v=[rpoint(rng, dim) for _ in range(ntot)], via='getter')]
            return [dict(k='set', t=t, a='ctrlpts', v=[rpoint(rng, dim) for _ in range(ntot)])]
        if ch == 'ctrlpts_n' and pd == 1:
            n2 = rng.randint(deg[0] + 1, deg[0] + 3)
            if n2 != sizes[0]:
                self.pending.setdefault(t, []).append(0)
            pts = [rpoint(rng, dim) for _ in range(n2)]
            if kind[0] == 'N':
                w = rweights(rng, n2); pts = [[c * wi for c in p] + [wi] for p, wi in zip(pts, w)]
                return [dict(k='set', t=t, a='ctrlptsw', v=pts)]
            return [dict(k='set', t=t, a='ctrlpts', v=pts)]
        if ch in ('ctrlptsw', 'set_ctrlpts', 'ctrlpts_n'):
            pts = [rpoint(rng, dim) for _ in range(ntot)]
            if kind[0] == 'N':
                w = rweights(rng, ntot); pts = [[c * wi for c in p] + [wi] for p, wi in zip(pts, w)]
            if ch == 'ctrlptsw':
                return [dict(k='set', t=t, a='ctrlptsw', v=pts)]
            return [dict(k='call', t=t, a='set_ctrlpts', args=[pts] + (sizes if pd > 1 else []))]
        if ch == 'weights':
            if rng.random() < .4:
                return [dict(k='get', t=t, a='weights'), dict(k='set', t=t, a='weights', v=rweights(rng, ntot), via='getter')]
            return [dict(k='set', t=t, a='weights', v=rweights(rng, ntot))]
        if ch == 'ctrlpts2d':
            pts = [rpoint(rng, dim + (1 if kind[0] == 'N' else 0)) for _ in range(ntot)]
            if kind[0] == 'N':
                pts = [p[:-1] + [abs(p[-1]) + 1] for p in pts]
            grid = [pts[a * sizes[1]:(a + 1) * sizes[1]] for a in range(sizes[0])]
            return [dict(k='set', t=t, a='ctrlpts2d', v=grid)]
        if ch == 'delta':
            if pd == 1 or rng.random() < .5:
                return [dict(k='set', t=t, a='delta', v=rdelta(rng, pd > 1))]
            return [dict(k='set', t=t, a='delta', v=[rdelta(rng, True) for _ in range(pd)])]
        if ch == 'delta_d':
            return [dict(k='set', t=t, a='delta' + sfx(i), v=rdelta(rng, True))]
        if ch == 'sample_size':
            return [dict(k='set', t=t, a='sample_size', v=rng.randint(2, 6 if pd == 1 else 3))]
        if ch == 'sample_size_d':
            return [dict(k='set', t=t, a='sample_size' + sfx(i), v=rng.randint(2, 3))]
        if ch == 'reverse':
            return [dict(k='call', t=t, a='reverse')]
        if ch == 'transpose':
            return [dict(k='call', t=t, a='transpose')]
        if ch == 'optranspose':
            return [dict(k='ops', t=t, a='transpose', kw=dict(inplace=True))]
        if ch == 'flip':
            return [dict(k='ops', t=t, a='flip', kw=dict(inplace=True))]
        if ch == 'translate':
            return [dict(k='ops', t=t, a='translate', args=[[rq(rng) for _ in range(dim)]], kw=dict(inplace=True))]
        if ch == 'scale':
            return [dict(k='ops', t=t, a='scale', args=[rng.choice([F(2), F(1, 2), F(3, 2), 3])], kw=dict(inplace=True))]
        if ch == 'rotate':
            kw = dict(inplace=True)
            if dim == 3:
                kw['axis'] = rng.randint(0, 2)
            return [dict(k='ops', t=t, a='rotate', args=[rng.choice([90, 180, 30, -45])], kw=kw)]
        if ch in ('insert', 'remove', 'refine') and ntot > 40:
            ch = 'delta'
            return [dict(k='set', t=t, a='delta', v=rdelta(rng, pd > 1))]
        if ch == 'insert':
            u = rng.choice(interior) if (interior and rng.random() < .4) else F(rng.randint(1, 9), 10)
            s = kv.count(u)
            if s >= deg[i]:
                u = F(rng.randint(1, 12), 13); s = kv.count(u)
            num = rng.randint(1, max(1, min(2, deg[i] - s)))
            if rng.random() < .5:
                if pd == 1:
                    return [dict(k='call', t=t, a='insert_knot', args=[u], kw=dict(num=num))]
                return [dict(k='call', t=t, a='insert_knot', kw={DIRS[i]: u, 'num_' + DIRS[i]: num})]
            par = [None] * pd; nums = [0] * pd; par[i] = u; nums[i] = num
            return [dict(k='ops', t=t, a='insert_knot', args=[par, nums])]
        if ch == 'remove':
            if not interior:
                return [dict(k='set', t=t, a='delta', v=rdelta(rng, pd > 1))]
            u = rng.choice(interior)
            if rng.random() < .5:
                if pd == 1:
                    return [dict(k='call', t=t, a='remove_knot', args=[u], kw=dict(num=1))]
                return [dict(k='call', t=t, a='remove_knot', kw={DIRS[i]: u, 'num_' + DIRS[i]: 1})]
            par = [None] * pd; nums = [0] * pd; par[i] = u; nums[i] = 1
            return [dict(k='ops', t=t, a='remove_knot', args=[par, nums])]
        if ch == 'refine':
            if sizes[i] > 5 or ntot > 24:
                return [dict(k='set', t=t, a='delta', v=rdelta(rng, pd > 1))]
            par = [0] * pd; par[i] = 1
            return [dict(k='ops', t=t, a='refine_knotvector', args=[par])]
        return [dict(k='set', t=t, a='delta', v=rdelta(rng, pd > 1))]

    def container_mutator(self, t):
        rng = self.rng; kind = self.kinds[t]; pd = pdim_of(kind)
        ch = rng.choice(['delta', 'delta', 'sample_size', 'delta_d', 'sample_size_d', 'add'])
        if ch == 'add':
            # add a deep copy of an element (a new object of the same shape)
            src = [j for j, k in enumerate(self.kinds) if k in GEOM and pdim_of(k) == pd and consistent(defn(self.store[j], k))
                   and self.store[t].dimension in (0, self.store[j].dimension)]
            if src:
                j = rng.choice(src)
                return [dict(k='copy', t=j), dict(k='add', t=t, e=len(self.store))]
            ch = 'delta'
        if pd == 1 and ch in ('delta_d', 'sample_size_d'):
            ch = ch[:-2]
        if ch == 'delta':
            return [dict(k='set', t=t, a='delta', v=rdelta(rng, pd > 1) if (pd == 1 or rng.random() < .5) else [rdelta(rng, True) for _ in range(pd)])]
        if ch == 'sample_size':
            return [dict(k='set', t=t, a='sample_size', v=rng.randint(2, 6 if pd == 1 else 3))]
        d_ = DIRS[rng.randrange(pd)]
        if ch == 'delta_d':
            return [dict(k='set', t=t, a='delta_' + d_, v=rdelta(rng, True))]
        return [dict(k='set', t=t, a='sample_size_' + d_, v=rng.randint(2, 4))]


def gen_history(rng, tier, scenario):
    g = Gen(rng, tier)
    L = rng.randint(5, 60) if rng.random() < .8 else rng.randint(5, 25)
    if scenario in ('BV', 'NV'):
        L = min(L, 35)
    if scenario == 'container':
        ck = rng.choice(['CC', 'SC', 'SC', 'VC'] if tier == 'thorough' else ['CC', 'SC', 'SC'])
        pd = pdim_of(ck)
        ek = [k for k in GEOM if pdim_of(k) == pd]
        dim = None
        n_el = rng.randint(1, 3 if pd < 3 else 2)
        for _ in range(n_el):
            d = new_defn(rng, rng.choice(ek))
            while dim is not None and len(d['net'][0]) - (1 if d['kind'][0] == 'N' else 0) != dim:
                d = new_defn(rng, rng.choice(ek))
            dim = len(d['net'][0]) - (1 if d['kind'][0] == 'N' else 0)
            g.emit(dict(k='new', d=d))
        g.emit(dict(k='newc', kind=ck))
        ci = len(g.store) - 1
        g.emit(dict(k='set', t=ci, a='delta', v=rdelta(rng, pd > 1)))     # the default 0.05 would sample 21 x 21 points
        for j in range(n_el):
            g.emit(dict(k='add', t=ci, e=j))
        L = min(L, 30)
        edit_elems = rng.random() < .25       # histories that edit elements hit the recorded finding F-12b
        conts = [ci]
        if rng.random() < .35:                # a deep copy of the container must be a working, independent container
            if rng.random() < .5:
                g.emit(g.reader(ci))
            g.emit(dict(k='copy', t=ci))
            conts.append(len(g.store) - 1)
        while len(g.ops) < L:
            r = rng.random()
            ci = rng.choice(conts)
            if r < .40:
                g.emit(g.reader(ci))
            elif r < .75:
                v = g.reader(ci)
                g.emit(v)
                for op in g.container_mutator(ci):
                    g.emit(op)
                g.emit(v)
            elif r < .85 or not edit_elems:
                j = rng.randrange(n_el)
                g.emit(g.reader(j))
            else:
                j = rng.randrange(n_el)
                for op in g.mutator(j):
                    g.emit(op)
                while g.pending.get(j):
                    for op in g.mutator(j):
                        g.emit(op)
        return g.ops
    kind = scenario
    g.emit(dict(k='new', d=new_defn(rng, kind)))
    while len(g.ops) < L:
        geoms = [j for j, k in enumerate(g.kinds) if k in GEOM]
        t = rng.choice(geoms)
        r = rng.random()
        if g.pending.get(t):
            if r < .3:
                op = g.reader(t)
                if op['a'] in ('ctrlpts', 'weights', 'ctrlptsw', 'bbox', 'ctrlpts2d'):
                    g.emit(op)
            for op in g.mutator(t):
                g.emit(op)
        elif r < .22:
            g.emit(g.reader(t))
        elif r < .72:
            v = g.reader(t)             # read - mutate - read of the same view
            g.emit(v)
            for op in g.mutator(t):
                g.emit(op)
            if not g.pending.get(t) or v.get('a') in ('ctrlpts', 'weights', 'ctrlptsw', 'bbox', 'ctrlpts2d'):
                g.emit(v)
        elif r < .92:
            for op in g.mutator(t):
                g.emit(op)
        elif len(g.store) < 4:
            g.emit(dict(k='copy', t=t))
        else:
            g.emit(g.reader(t))
    return g.ops


SCENARIOS = ['NC', 'BS', 'container', 'NS', 'BC', 'NV', 'container', 'NC', 'NS', 'BV']


def gen(rng, tier):
    n = 90 if tier == 'quick' else 1500
    out = []
    for i in range(n):
        sc = SCENARIOS[i % len(SCENARIOS)]
        sub = random.Random(rng.random())
        try:
            ops = gen_history(sub, tier, sc)
        except Exception as e:
            if os.environ.get('VERIF_DEBUG'):
                import traceback; traceback.print_exc()
            STATS['gen_failures'] = STATS.get('gen_failures', 0) + 1
            continue
        STATS.setdefault('scenarios', {})
        STATS['scenarios'][sc] = STATS['scenarios'].get(sc, 0) + 1
        STATS.setdefault('_hl', []).append(len(ops))
        out.append(Case('history-' + sc, None, dict(ops=ops)))
    out.sort(key=lambda c: len(c.data['ops']))
    # value-free abstract replay through the Lean driver (only if the handler is registered in Driver/All.lean)
    try:
        have = core.run_driver(['c12hist evalpts e -'])[0] == 'e'
    except Exception:
        have = False
    STATS['abstract_replay'] = 'driver op c12hist available' if have else 'driver op c12hist NOT registered: abstract replay skipped'
    if have and _TABLE['entries']:
        tr = Tracer()
        caches = {e['cls']: e['caches'] for e in _TABLE['entries']}
        k = 0
        for cse in list(out):
            kind = cse.kind.split('-')[1]
            if kind not in GEOM or k >= (30 if tier == 'quick' else 300):
                continue
            try:
                ac = abs_replay_case(cse.data['ops'], kind, caches[CLSNAME[kind]], tr)
            except Exception:
                if os.environ.get('VERIF_DEBUG'):
                    import traceback; traceback.print_exc()
                ac = None
            if ac is not None:
                out.append(ac); k += 1
    hl = STATS.get('_hl', [])
    if hl:
        STATS['history_lengths'] = dict(min=min(hl), max=max(hl), mean=round(sum(hl) / len(hl), 1), n=len(hl))
    return out


# ------------------------------------------------------------------ dynamic validation of the translator
class Tracer(object):
    """real objects whose attribute writes, cache clears and cache fills are logged"""

    def __init__(self):
        self.log = []
        self.cache = {}
        self.benign_checked = 0
        self.benign_failed = []
        tr = self

        class LogList(list):
            __slots__ = ('_own', '_what')

            def _l(self, ev=None):
                if ev is None:
                    ev = self._what if self._what[0] == 'write' else (('fill', self._what[1]) if len(self) else ('clear', self._what[1]))
                tr.log.append((self._own, ev))

            def __setitem__(self, i, v):
                list.__setitem__(self, i, v); self._l()

            def __delitem__(self, i):
                list.__delitem__(self, i); self._l()

            def __iadd__(self, o):
                r = list.__iadd__(self, o); self._l(); return r

            def append(self, v):
                list.append(self, v); self._l()

            def extend(self, v):
                list.extend(self, v); self._l()

            def insert(self, i, v):
                list.insert(self, i, v); self._l()

            def pop(self, *a):
                r = list.pop(self, *a); self._l(); return r

            def remove(self, v):
                list.remove(self, v); self._l()

            def clear(self):
                list.clear(self); self._l()

            def sort(self, *a, **k):
                list.sort(self, *a, **k); self._l()

            def reverse(self):
                list.reverse(self); self._l()

            def __deepcopy__(self, memo):
                return [copy.deepcopy(x, memo) for x in self]

            def __reduce_ex__(self, proto):
                return (list, (list(self),))

        class LogDict(dict):
            __slots__ = ('_own', '_kind')

            def __setitem__(self, k, v):
                c = E.CACHE_KEYS[self._kind].get(k)
                if c is not None and isinstance(v, list):
                    w = LogList(v); w._own = self._own; w._what = ('cache', c)
                    v = w
                    tr.log.append((self._own, ('fill', c) if len(v) else ('clear', c)))
                dict.__setitem__(self, k, v)

            def __deepcopy__(self, memo):
                return {k: copy.deepcopy(v, memo) for k, v in self.items()}

        self.LogList = LogList; self.LogDict = LogDict

    def wrap_list(self, own, what, v):
        w = self.LogList(v); w._own = own; w._what = what
        return w

    def traced(self, cls):
        if cls in self.cache:
            return self.cache[cls]
        tr = self
        kind = 'container' if hasattr(cls, 'add') and hasattr(cls, '_delta_setter_common') else 'geom'
        cname = "%s.%s" % (cls.__module__.split('.')[-1], cls.__name__)

        def __setattr__(self, name, value):
            own = id(self)
            if name in E.FIELD_ATTRS:
                benign = any(k[0] == cname and k[2] == name for k in E.BENIGN_WRITES)
                old = self.__dict__.get(name)
                same = benign and isinstance(old, list) and isinstance(value, list) and len(old) == len(value) and all(a is b for a, b in zip(old, value))
                if benign:
                    tr.benign_checked += 1
                if not same:
                    tr.log.append((own, ('write', E.FIELD_ATTRS[name])))
                if isinstance(value, list) and not isinstance(value, tr.LogList) and name != '_control_points':
                    value = tr.wrap_list(own, ('write', E.FIELD_ATTRS[name]), value)
            elif name in E.CACHE_ATTRS:
                empty = value is None or (hasattr(value, '__len__') and len(value) == 0)
                tr.log.append((own, ('clear' if empty else 'fill', E.CACHE_ATTRS[name])))
            elif name == '_cache' and isinstance(value, dict) and not isinstance(value, tr.LogDict):
                d = tr.LogDict(); d._own = own; d._kind = kind
                for k, v in value.items():
                    dict.__setitem__(d, k, v)
                value = d
            elif name in E.SUBOBJ and value is not None:
                value.__class__ = tr.traced_sub(value.__class__)
            object.__setattr__(self, name, value)

        t = type(cls.__name__, (cls,), {'__setattr__': __setattr__, '_c12base': cls, '_c12name': cname,
                                        '__module__': cls.__module__})
        self.cache[cls] = t
        return t

    def traced_sub(self, cls):
        if getattr(cls, '_c12sub', False):
            return cls
        key = ('sub', cls)
        if key in self.cache:
            return self.cache[key]
        tr = self

        def reset(self):
            tr.log.append((id(self), ('clear', 'tess')))
            return cls.reset(self)

        def tessellate(self, points, **kw):
            tr.log.append((id(self), ('fill', 'tess')))
            return cls.tessellate(self, points, **kw)

        t = type(cls.__name__, (cls,), {'reset': reset, 'tessellate': tessellate, '_c12sub': True, '_c12base': cls,
                                        '__module__': cls.__module__})
        self.cache[key] = t
        return t

    def events_of(self, o, start):
        ids = {id(o)}
        sub = getattr(o, '_tsl_component', None)
        if sub is not None:
            ids.add(id(sub))
        out = []
        for own, ev in self.log[start:]:
            if own in ids and (not out or out[-1] != ev):
                out.append(ev)
        return tuple(out)


def ev_match(logged, path):
    """a logged sequence is an instance of an extracted path: same events in the same order; a logged
    `clear c` also matches an extracted `fill c` (the value stored was empty, e.g. an empty container)"""
    return len(logged) == len(path) and all(a == b or (a[0] == 'clear' and b[0] == 'fill' and a[1] == b[1])
                                            for a, b in zip(logged, path))


def validate_translator(rng, tier, entries):
    """run histories on traced objects; every op's logged event sequence must be an extracted path of that op"""
    table = {}
    for e in entries:
        table[(e['cls'], e['op'])] = (set(tuple(tuple(x) for x in p) for p in e['paths']),
                                      set(tuple(tuple(x) for x in p) for p in e['raising']))
    tr = Tracer()
    cl = classes()
    mk = lambda kind: tr.traced(cl[kind])
    stats = dict(ops_checked=0, matched=0, raised_matched_raising=0, raised_prefix=0, not_in_table=0, distinct_paths_seen=0,
                 histories=0)
    mism = []
    seen = set()
    n_hist = 40 if tier == 'quick' else 300
    for i in range(n_hist):
        sc = SCENARIOS[i % len(SCENARIOS)]
        try:
            ops = gen_history(random.Random(rng.random()), tier, sc)
        except Exception:
            continue
        stats['histories'] += 1
        store = []
        kinds = []
        for op in ops:
            start = len(tr.log)
            n0 = len(store)
            exc = run_op(store, op, mk)
            if len(store) > n0:
                kinds.append(op['d']['kind'] if op['k'] == 'new' else (op['kind'] if op['k'] == 'newc' else kinds[op['t']]))
            name = table_name(op)
            if name is None or op.get('t') is None or op['k'] == 'copy':
                del tr.log[:]
                continue
            o = store[op['t']]
            key = (CLSNAME[kinds[op['t']]], name)
            if key not in table:
                stats['not_in_table'] += 1
                del tr.log[:]
                continue
            evs = tr.events_of(o, start)
            normal, raising = table[key]
            stats['ops_checked'] += 1
            seen.add((key, evs))
            if exc is None:
                if evs in normal or any(ev_match(evs, p) for p in normal):
                    stats['matched'] += 1
                elif len(mism) < 10:
                    mism.append(dict(cls=key[0], op=key[1], logged=["%s %s" % e for e in evs], text=show_op(op)))
            else:
                if evs in raising:
                    stats['raised_matched_raising'] += 1
                elif any(ev_match(evs, p[:len(evs)]) for p in normal | raising):
                    stats['raised_prefix'] += 1
                elif len(mism) < 10:
                    mism.append(dict(cls=key[0], op=key[1], logged=["%s %s" % e for e in evs], raised=type(exc).__name__, text=show_op(op)))
            del tr.log[:]
    stats['distinct_paths_seen'] = len(seen)
    stats['benign_writes_checked'] = tr.benign_checked
    return stats, mism


def static_checks(tier, rng):
    obligations = []
    problems = []
    if _TABLE['entries'] is None:
        if _TABLE['error'] is None:      # pre_build hook was not called (old core.py): run the translator now
            pre = pre_build(tier)
            problems += pre['problems']
        if _TABLE['entries'] is None:
            obligations.append(dict(name='translator: source follows the idiom the extractor understands', ok=False,
                                    detail=_TABLE['error']))
            return dict(obligations=obligations, problems=problems)
    entries, meta = _TABLE['entries'], _TABLE['meta']
    obligations.append(dict(name='translator: source follows the idiom the extractor understands (%d operations, %d paths)'
                                 % (meta['n_entries'], meta['n_paths']), ok=True))
    bad = E.bad_paths(entries)
    obligations.append(dict(name='table: every extracted path passes pathOk/eagerOk (Python mirror of the Lean check; names the offending operation)',
                            ok=not bad))
    if bad:
        seen = set()
        for b in bad:
            k = (b['cls'], b['op'])
            if k in seen:
                continue
            seen.add(k)
            problems.append(dict(kind='effects-table', detail="%s %s: path [%s] leaves %s" % (
                b['cls'], b['op'], ', '.join(b['path']), 'stale: ' + ','.join(b['stale']) if 'stale' in b else b.get('eager'))))
    try:
        stats, mism = validate_translator(random.Random(rng.random()), tier, entries)
        ok = not mism and stats['ops_checked'] > 0
        obligations.append(dict(name='translator validated dynamically: every traced event sequence is an extracted path', ok=ok))
        for m in mism:
            problems.append(dict(kind='translator-validation', detail=m))
    except Exception as e:
        import traceback
        stats = dict(error=traceback.format_exc()[-600:])
        obligations.append(dict(name='translator validated dynamically', ok=False))
        problems.append(dict(kind='translator-validation', detail=stats['error']))
    return dict(obligations=obligations, problems=problems, translator=dict(meta=dict(notes=meta['notes'], excluded=meta['excluded'][:40],
                excluded_note=meta['excluded_note'], operations=meta['n_entries'], paths=meta['n_paths']), dynamic=stats))
