"""C20  Planar predicates and spatial queries agree with exact arithmetic.

Observation points: ray.intersect, linalg.is_left / wn_poly / convex_hull, voxelize.voxelize
(num_procs=1), operations.find_ctrlpts; helper level (diagnostic): linalg.frange,
_voxelize.generate_voxel_grid, _voxelize.is_point_inside_voxel.

Square roots in ray._intersect3d (exact mode): `vector_magnitude` goes through the shadowed `math`,
i.e. it is the correctly rounded double sqrt of the (exactly computed, then rounded to double) sum of
squares, wrapped as an exact number; the code then *squares* it.  Choice made here (both options of
the design are used):
  * the model takes that value `m` as an input; the harness recomputes it independently of geomdl as
    `Fraction(math.sqrt(float(|d1 x d2|^2)))` and writes it into the op line; the Lean theorems assume
    `m*m = |d1 x d2|^2` where they need it;
  * about two thirds of the generated ray pairs have a cross product of rational length (all 2-D
    pairs with dyadic coordinates, 3-D pairs selected by rejection), so that the sqrt is exact and the
    oracle demands *exact* coincidence of the two points; for the remaining pairs the oracle demands
    coincidence within the tolerance of the routine and parameters within 2^-50 relative of the exact
    ones.
The second sqrt (`point_distance(...) < tol`) only feeds a comparison; the model compares squares.  The
oracle verifies for every case that the squared distance is not within 2^-50 relative of tol^2 (the
only region where the two formulations could differ)."""
import sys, math
from fractions import Fraction as F
from core import Case, q, qs, qpts, fr, show_list, show_pts, show_pts2
import gen as G

PID = 'C20'
FLOAT_KINDS = {'isleft', 'wn', 'hull', 'fcpc', 'fcps'}      # float-mode companion; frange / voxgrid are left out: how many values frange yields when stop = start + n*step exactly is decided by rounding in doubles
FLOAT_TOL = 1e-9


def FLOAT_FILTER(c):
    """discrete answers are compared in doubles only where the exact margin is not zero: a point exactly ON the
    polygon boundary (the property says 'off the boundary'), three exactly collinear points for is_left / the hull"""
    d = c.data
    if c.kind == 'wn':
        return bool(d.get('poly')) and not on_boundary(d['poly'], d['pt'])
    if c.kind == 'isleft':
        a, b, p_ = d['a'], d['b'], d['c']
        return (b[0] - a[0]) * (p_[1] - a[1]) - (p_[0] - a[0]) * (b[1] - a[1]) != 0
    if c.kind == 'hull':
        pts = d['pts']
        return all(F(x).denominator in (1, 2, 4, 8) for pt in pts for x in pt)     # dyadic: every cross product exact in doubles
    return True
STATS = G.STATS
TOL_RAY = F((1 << 8) * sys.float_info.epsilon)      # default of ray.intersect = 2^-44
TOL_VOX = F(10e-8)                                   # default padding of the voxel in/out test
BAND = F(1, 2 ** 50)

PARTIAL = [
    "convex hull: PROVED for every finite point list (duplicates and collinear points included): hull vertices are input points, pairwise distinct, every input point is left-of-or-on every edge of the closed hull polygon, and with >= 3 vertices all cyclically consecutive triples turn strictly left (convexHull_correct; Andrew's invariant of one scan: halfHull_invariant / ScanInv.step); not stated separately: minimality as 'no proper sub-polygon contains the points' (it follows from subset + strict convexity + distinctness)",
    "wn_poly: PROVED: counter >= 1 for a point strictly left of every edge of any closed polygon (wnNum_inside_ge_one), counter = 0 when a line separates the point from all vertices (wnNum_separated_zero), hence for a strictly convex ccw polygon and a point off the boundary wn_poly is True iff the point is strictly left of every edge (wnPoly_convex), also on the output of convex_hull (wnPoly_convexHull). the counter is exactly 1 / 0 there (wnNum_convex_value, wnNum_convexHull_interior). NOT proved: 'wn_poly = inside' for arbitrary simple (non-convex) polygons; it is checked against an independent crossing-number test by the oracle",
    "find_ctrlpts: PROVED exact (findCtrlpts_exact / _surface_exact, list forms _exact_list): for a parameter of [U_p, U_n) strictly inside its span (e.g. not a knot) the returned control points are exactly those whose Cox-de Boor function is non-zero (strict positivity of A2.2: basisFuns_positive_inside); on a knot the exact zero pattern is proved (basisFuns_zero_pattern, findCtrlpts_active_at_any_parameter: the returned set is then a superset, the last m returned points of a knot of multiplicity m <= p have a vanishing function); closed right end u = U_n: last p+1 indices, left-limit functions characterised, end-clamped vector: only the last is non-zero, = 1 (findCtrlpts_right_end_*; needs the last span [U_{n-1}, U_n] non-empty). Not covered: volumes (find_ctrlpts has no volume branch), the object layer (which knot vector / ctrlpts2d the routine reads) is tied by correspondence only",
    "find_ctrlpts on RATIONAL shapes, observation (audit 4, H6; a library inconsistency, not a violation of a property): find_ctrlpts(NURBS.Curve, u) reads curve.ctrlpts = the CARTESIAN control points, find_ctrlpts(NURBS.Surface, u, v) reads surf.ctrlpts2d = the WEIGHTED control points (x*w, y*w, z*w, w); the correspondence covers both with the view the real routine indexes (op fcpc gets the Cartesian points of a rational curve, op fcps the weighted net of a rational surface; 30 % resp. the surf_data share of the cases are rational), the oracle compares with the matching view; the hull theorems for these outputs are C18 rational_curve_in_hull_of_find_ctrlpts (Cartesian entries) and rational_surface_in_hull_of_find_ctrlpts (returned entries projected); findCtrlpts_exact* speak about indices / Cox-de Boor functions and hold for either view",
    "find_ctrlpts has NO domain check: outside [U_p, U_n] the span search returns the first / last span and the control points of that span are returned; the driver ops fcpc / fcps do the same (driver = code, diagnostic streams fcpc-out / fcps-out: correspondence only, no property applies there; findCtrlpts_curve_indices needs no domain hypothesis); the ops answer ERR only where the repaired span search steps back from an empty last span (F-01b: outside the model, all theorems assume KnotsOk)",
    "ray: the status / coincidence theorems assume the exact square root (m*m = |d1 x d2|^2) and compare squared distances; the effect of the rounded sqrt (points differ by rounding, hence the tolerance) is only observed by the correspondence / oracle",
    "voxelize: the model takes the bounding box and the evaluated points of the object as inputs (surface evaluation is C01, bounding box C18); termination of frange is proved under an explicit bound N with stop - start <= N*step + step/2 (and for Archimedean fields); the exact value list of frange for an arbitrary stop value is frange_values",
    "F-20a: generate_voxel_grid(use_cubes=True) on a flat bounding box does not terminate (voxelGrid_cubes_flat_refutes_termination); coverage theorems therefore assume the grid was returned",
    "the span-index-free support characterisation of the Cox-de Boor functions that the find_ctrlpts work left open is now C03 coxDeBoor_support (every u, every index: non-zero iff U_i <= u < U_{i+p+1} and (U_i < u or U_{i+p} <= u)); no find_ctrlpts corollary in span-free form was added here (findCtrlpts_active_at_any_parameter remains the statement at knots)",
]
ASSUMPTIONS = [
    "ray: squared distance of the two evaluated points is not within relative 2^-50 of tol^2 (verified per case by the oracle)",
    "convex_hull / wn_poly / is_left read only the first two coordinates of a point; rays and voxels exactly three",
    "voxelize is run with num_procs=1 (the multiprocessing path maps the same function over the grid)",
]
TRUSTED = ["independent Python oracles in harness/props/c20.py (crossing number, segment intersection, tensor-product Cox-de Boor evaluation)"]


def cnt(key, sub):
    G.count('c20_' + key, sub)


# ------------------------------------------------------------------ exact planar geometry (oracle side)
def cross(o, a, b):
    return (a[0] - o[0]) * (b[1] - o[1]) - (b[0] - o[0]) * (a[1] - o[1])


def on_segment(a, b, p):
    return cross(a, b, p) == 0 and min(a[0], b[0]) <= p[0] <= max(a[0], b[0]) and min(a[1], b[1]) <= p[1] <= max(a[1], b[1])


def seg_touch(a, b, c, d):
    """closed segments ab and cd have a point in common"""
    d1, d2, d3, d4 = cross(c, d, a), cross(c, d, b), cross(a, b, c), cross(a, b, d)
    if ((d1 > 0 and d2 < 0) or (d1 < 0 and d2 > 0)) and ((d3 > 0 and d4 < 0) or (d3 < 0 and d4 > 0)):
        return True
    return on_segment(c, d, a) or on_segment(c, d, b) or on_segment(a, b, c) or on_segment(a, b, d)


def is_simple(poly):
    n = len(poly)
    if n < 3 or len({tuple(p) for p in poly}) != n:
        return False
    for i in range(n):
        a, b = poly[i], poly[(i + 1) % n]
        for j in range(i + 1, n):
            c, d = poly[j], poly[(j + 1) % n]
            if j == i + 1 or (i == 0 and j == n - 1):
                # adjacent edges: only the shared vertex in common (no fold-back)
                if j == i + 1:
                    sh, o1, o2 = b, a, d
                else:
                    sh, o1, o2 = a, b, c
                if on_segment(sh, o1, o2) or on_segment(sh, o2, o1):
                    return False
            elif seg_touch(a, b, c, d):
                return False
    return True


def on_boundary(poly, p):
    n = len(poly)
    return any(on_segment(poly[i], poly[(i + 1) % n], p) for i in range(n))


def crossing_inside(poly, p):
    """independent even-odd test: count edges crossed by the ray from p to +x (half-open rule in y)"""
    n = len(poly); c = 0
    for i in range(n):
        a, b = poly[i], poly[(i + 1) % n]
        if (a[1] > p[1]) != (b[1] > p[1]):
            xi = a[0] + (p[1] - a[1]) * (b[0] - a[0]) / (b[1] - a[1])
            if xi > p[0]:
                c += 1
    return c % 2 == 1


def angle_key(c, p):
    """exact sort key for the direction of p - c: (half-plane, then by cross product via cmp_to_key)"""
    dx, dy = p[0] - c[0], p[1] - c[1]
    return 0 if (dy > 0 or (dy == 0 and dx > 0)) else 1, dx, dy


def sort_by_angle(c, pts):
    import functools

    def cmp(a, b):
        ha, ax, ay = angle_key(c, a); hb, bx, by = angle_key(c, b)
        if ha != hb:
            return -1 if ha < hb else 1
        cr = ax * by - ay * bx
        return -1 if cr > 0 else (1 if cr < 0 else 0)
    return sorted(pts, key=functools.cmp_to_key(cmp))


def star_polygon(rng, n, span):
    for _ in range(50):
        pts = list({(F(rng.randint(-span, span)), F(rng.randint(-span, span))) for _ in range(n)})
        c = (F(rng.randint(-1, 1)) + F(1, 2), F(rng.randint(-1, 1)) + F(1, 3))
        # one point per direction
        seen = {}
        for p in pts:
            dx, dy = p[0] - c[0], p[1] - c[1]
            g = max(abs(dx), abs(dy))
            seen.setdefault((dx / g, dy / g), p)
        poly = [list(p) for p in sort_by_angle(c, list(seen.values()))]
        if is_simple(poly):
            return poly
    return [[F(0), F(0)], [F(3), F(0)], [F(0), F(3)]]


def untangled_polygon(rng, n, span):
    """random closed tour made simple by 2-opt moves (general, not star-shaped)"""
    for _ in range(30):
        pts = list({(F(rng.randint(-span, span)), F(rng.randint(-span, span))) for _ in range(n)})
        poly = [list(p) for p in pts]
        rng.shuffle(poly)
        m = len(poly)
        if m < 3:
            continue
        for _ in range(200):
            moved = False
            for i in range(m):
                for j in range(i + 2, m):
                    if i == 0 and j == m - 1:
                        continue
                    a, b, c, d = poly[i], poly[i + 1], poly[j], poly[(j + 1) % m]
                    d1, d2, d3, d4 = cross(c, d, a), cross(c, d, b), cross(a, b, c), cross(a, b, d)
                    if d1 * d2 < 0 and d3 * d4 < 0:
                        poly[i + 1:j + 1] = reversed(poly[i + 1:j + 1]); moved = True
            if not moved:
                break
        if is_simple(poly):
            return poly
    return star_polygon(rng, n, span)


def comb_polygon(rng):
    """rectilinear comb: many horizontal edges at integer heights (horizontal-edge / vertex-height cases)"""
    teeth = rng.randint(1, 3); h = rng.randint(1, 3)
    poly = [[F(0), F(0)]]
    x = 0
    for t in range(teeth):
        poly += [[F(x), F(h + 1)], [F(x + 1), F(h + 1)], [F(x + 1), F(1)], [F(x + 2), F(1)]]
        x += 2
    poly += [[F(x), F(h + 1)], [F(x + 1), F(h + 1)], [F(x + 1), F(0)]]
    return poly


# ------------------------------------------------------------------ vectors (oracle side)
def vsub(a, b):
    return [x - y for x, y in zip(a, b)]


def vcross(a, b):
    return [a[1] * b[2] - a[2] * b[1], a[2] * b[0] - a[0] * b[2], a[0] * b[1] - a[1] * b[0]]


def vdot(a, b):
    return sum((x * y for x, y in zip(a, b)), F(0))


def sqrt_double(x):
    """the value Python's math.sqrt returns for the exact number x (as an exact rational)"""
    return F(math.sqrt(float(x)))


def ray_m(a1, a2, b1, b2):
    """|d1 x d2| as the library computes it (double sqrt), and the exact squared length"""
    if len(a1) == 2:
        a1, a2, b1, b2 = [list(p) + [F(1)] for p in (a1, a2, b1, b2)]
    if not (len(a1) == len(a2) == len(b1) == len(b2) == 3):
        return F(0), F(0)
    c = vcross(vsub(a2, a1), vsub(b2, b1))
    ssq = vdot(c, c)
    import core
    from geomdl import linalg
    return core.impl_sqrt(ssq, lambda: linalg.vector_magnitude(qs(c))), ssq


def ray_case(kind, a1, a2, b1, b2, tol=None, tags=()):
    m, ssq = ray_m(a1, a2, b1, b2)
    t = TOL_RAY if tol is None else tol
    line = "ray %s %s %s %s %s %s" % (show_list(a1), show_list(a2), show_list(b1), show_list(b2), fr(t), fr(m))
    cnt('ray_kind', kind)
    if ssq != 0:
        cnt('ray_sqrt', 'exact' if m * m == ssq else 'rounded')
    return Case('ray', line, dict(a1=a1, a2=a2, b1=b1, b2=b2, tol=tol, sub=kind), tags=tags)


def rvec(rng, dim, span, dens=(1,)):
    while True:
        v = [F(rng.randint(-span, span), rng.choice(dens)) for _ in range(dim)]
        if any(x != 0 for x in v):
            return v


def rpt(rng, dim, span, dens=(1,)):
    return [F(rng.randint(-span, span), rng.choice(dens)) for _ in range(dim)]


def gen_rays(rng, n):
    out = []
    for _ in range(n):
        dim = rng.choice([2, 3, 3])
        exact = rng.random() < .65
        dens = (1, 2, 4) if exact else (1, 2, 3, 5, 7)
        r = rng.random()
        for _try in range(200):
            d1 = rvec(rng, dim, 4, dens); d2 = rvec(rng, dim, 4, dens)
            d13 = d1 + [F(0)] * (3 - dim); d23 = d2 + [F(0)] * (3 - dim)
            c = vcross(d13, d23); ssq = vdot(c, c)
            if ssq == 0:
                continue
            if (sqrt_double(ssq) ** 2 == ssq) == exact:
                break
        else:
            d1 = [F(1), F(0), F(0)][:dim]; d2 = [F(0), F(1), F(0)][:dim]
            c = vcross(d1 + [F(0)] * (3 - dim), d2 + [F(0)] * (3 - dim))
        if r < .45:                      # crossing at X = a1 + s1 d1 = b1 + s2 d2
            X = rpt(rng, dim, 3, dens)
            s1 = F(rng.randint(-4, 4), rng.choice([1, 2])); s2 = F(rng.randint(-4, 4), rng.choice([1, 2, 3]))
            a1 = [x - s1 * d for x, d in zip(X, d1)]; b1 = [x - s2 * d for x, d in zip(X, d2)]
            kind = 'crossing'
        elif r < .60:                    # parallel, not coincident
            a1 = rpt(rng, dim, 3, dens); k = F(rng.choice([-3, -2, -1, 1, 2, 3]), rng.choice([1, 2]))
            d2 = [k * x for x in d1]
            off = rvec(rng, dim, 2)
            b1 = [x + o for x, o in zip(a1, off)]
            if all(x == 0 for x in vcross((off + [F(0)])[:3], (d1 + [F(0)])[:3])):
                kind = 'coincident'
            else:
                kind = 'parallel'
        elif r < .72:                    # coincident
            a1 = rpt(rng, dim, 3, dens); k = F(rng.choice([-3, -2, -1, 1, 2, 3]), rng.choice([1, 2]))
            d2 = [k * x for x in d1]
            s = F(rng.randint(-3, 3), 2)
            b1 = [x + s * d for x, d in zip(a1, d1)]
            kind = 'coincident'
        elif dim == 3:                   # skew: shift one ray along the common normal
            X = rpt(rng, 3, 3, dens)
            s1 = F(rng.randint(-3, 3)); s2 = F(rng.randint(-3, 3))
            h = F(rng.choice([-2, -1, 1, 2, 3]), rng.choice([1, 2, 64, 1024]))
            a1 = [x - s1 * d for x, d in zip(X, d1)]; b1 = [x - s2 * d + h * cc for x, d, cc in zip(X, d2, c)]
            kind = 'skew'
        else:                            # 2-D general position (always crossing somewhere)
            a1 = rpt(rng, 2, 4, dens); b1 = rpt(rng, 2, 4, dens)
            kind = 'crossing'
        a2 = [x + d for x, d in zip(a1, d1)]; b2 = [x + d for x, d in zip(b1, d2)]
        out.append(ray_case(kind, a1, a2, b1, b2, tol=None if rng.random() < .8 else rng.choice([F(1, 1000), F(1, 2 ** 20)])))
    # tolerance probes: cross product component / line distance at half and at twice tol
    for mul in (F(1, 2), F(3, 4), F(3, 2), F(2)):
        e = TOL_RAY * mul
        out.append(ray_case('tol-cross', [F(0), F(0), F(0)], [F(1), F(0), F(0)], [F(0), F(1), F(0)], [F(1), F(1) + e, F(0)], tags=('tol-probe',)))
        out.append(ray_case('tol-cross', [F(0), F(0)], [F(1), F(0)], [F(0), F(1)], [F(1), F(1) + e], tags=('tol-probe',)))
        out.append(ray_case('tol-skew', [F(0), F(0), F(0)], [F(1), F(0), F(0)], [F(0), F(-1), e], [F(0), F(1), e], tags=('tol-probe',)))
        # colinear branch: |d[0]| below / above tol decides between 0 and the quotient
        out.append(ray_case('tol-d0', [F(0), F(0), F(0)], [e, F(1), F(0)], [F(1), F(2), F(0)], [F(1) + 2 * e, F(4), F(0)], tol=TOL_RAY * 16, tags=('tol-probe',)))
    out.append(ray_case('tol-zero', [F(0), F(0)], [F(1), F(1)], [F(0), F(1)], [F(1), F(0)], tol=F(0)))
    out.append(ray_case('vertical-coincident', [F(0), F(0)], [F(0), F(2)], [F(0), F(5)], [F(0), F(6)]))
    # malformed: dimensions
    out.append(ray_case('bad-dim', [F(0)] * 4, [F(1)] * 4, [F(0), F(1), F(0), F(0)], [F(1), F(0), F(0), F(0)]))
    out.append(ray_case('bad-dim', [F(0)], [F(1)], [F(2)], [F(3)]))
    out.append(ray_case('bad-dim', [F(0), F(0)], [F(1), F(1)], [F(0), F(1), F(0)], [F(1), F(0), F(0)]))
    out.append(ray_case('bad-dim', [F(0), F(0)], [F(1), F(1), F(1)], [F(0), F(1)], [F(1), F(0)]))
    return out


# ------------------------------------------------------------------ surfaces / curves (oracle side)
def basis_all(kv, p, n, u):
    last = kv[n]
    return [G.cox_de_boor(kv, p, i, u, last) for i in range(n)]


def ref_surface_points(d):
    """tensor-product Cox-de Boor evaluation on the sample grid (u-major), rational if weights given"""
    pu, pv, su, sv = d['pu'], d['pv'], d['su'], d['sv']
    ku, kv = d['ku'], d['kv']
    P, w = d['P'], d.get('w')
    us = [ku[pu] + (ku[su] - ku[pu]) * F(i, d['nu'] - 1) for i in range(d['nu'])]
    vs = [kv[pv] + (kv[sv] - kv[pv]) * F(i, d['nv'] - 1) for i in range(d['nv'])]
    pts = []
    for u in us:
        Nu = basis_all(ku, pu, su, u)
        for v in vs:
            Nv = basis_all(kv, pv, sv, v)
            acc = [F(0)] * 3; den = F(0)
            for i in range(su):
                if Nu[i] == 0:
                    continue
                for j in range(sv):
                    c = Nu[i] * Nv[j] * (w[i * sv + j] if w else 1)
                    den += c
                    acc = [a + c * x for a, x in zip(acc, P[i * sv + j])]
            pts.append([a / den for a in acc])
    return pts


def build_surface(d):
    from geomdl import BSpline, NURBS
    kw = dict(normalize_kv=False) if d.get('raw') else {}
    s = NURBS.Surface(**kw) if d.get('w') else BSpline.Surface(**kw)
    s.degree_u = d['pu']; s.degree_v = d['pv']
    s.ctrlpts_size_u = d['su']; s.ctrlpts_size_v = d['sv']
    s.ctrlpts = qpts(d['P'])
    if d.get('w'):
        s.weights = qs(d['w'])
    s.knotvector_u = qs(d['ku']); s.knotvector_v = qs(d['kv'])
    if 'nu' in d:
        s.sample_size_u = d['nu']; s.sample_size_v = d['nv']
    return s


def build_curve(d):
    from geomdl import BSpline, NURBS
    kw = dict(normalize_kv=False) if d.get('raw') else {}
    c = NURBS.Curve(**kw) if d.get('w') else BSpline.Curve(**kw)
    c.degree = d['p']
    c.ctrlpts = qpts(d['P'])
    if d.get('w'):
        c.weights = qs(d['w'])
    c.knotvector = qs(d['kv'])
    return c


def distinct_points(rng, n, dim):
    seen = set(); out = []
    while len(out) < n:
        p = tuple(F(rng.randint(-12, 12), rng.choice([1, 1, 2, 3])) for _ in range(dim))
        if p not in seen:
            seen.add(p); out.append(list(p))
    return out


def surf_data(rng, maxp=3, flat=False):
    pu = rng.randint(1, maxp); pv = rng.randint(1, maxp)
    while True:
        ku, su = G.knots(rng, pu, max_interior=2, allow_range=False)
        kv, sv = G.knots(rng, pv, max_interior=2, allow_range=False)
        if su != sv or rng.random() < .2:
            break
    P = distinct_points(rng, su * sv, 3)
    if flat:
        ax = rng.randint(0, 2); val = F(rng.randint(-2, 2))
        for pt in P:
            pt[ax] = val
    d = dict(pu=pu, pv=pv, su=su, sv=sv, ku=ku, kv=kv, P=P)
    if rng.random() < .3:
        d['w'] = G.weights(rng, su * sv)
    return d


def bbox_of(P):
    return [min(p[k] for p in P) for k in range(3)], [max(p[k] for p in P) for k in range(3)]


# ------------------------------------------------------------------ generation
def gen(rng, tier):
    quick = tier == 'quick'
    out = []
    # ---- is_left
    for _ in range(40 if quick else 600):
        a, b, c = G.points(rng, 3, 2)
        r = rng.random()
        if r < .25:          # colinear third point
            t = F(rng.randint(-4, 4), rng.choice([1, 2, 3]))
            c = [a[0] + t * (b[0] - a[0]), a[1] + t * (b[1] - a[1])]
        elif r < .3:
            b = list(a)
        if rng.random() < .3:    # small-scale input: the orientation is a sign, not a magnitude
            f = F(1, 2 ** rng.randint(8, 30)); a, b, c = [[x * f for x in p_] for p_ in (a, b, c)]; cnt('scale', 'small')
        out.append(Case('isleft', "isleft %s %s %s" % (show_list(a), show_list(b), show_list(c)), dict(a=a, b=b, c=c)))
    # ---- wn_poly
    npoly = 36 if quick else 500
    for k in range(npoly):
        r = rng.random()
        if r < .35:
            poly = star_polygon(rng, rng.randint(3, 10), rng.randint(2, 5)); shape = 'star'
        elif r < .75:
            poly = untangled_polygon(rng, rng.randint(4, 9), rng.randint(2, 4)); shape = '2opt'
        elif r < .87:
            poly = comb_polygon(rng); shape = 'comb'
        else:
            poly = [list(p) for p in {(F(rng.randint(-3, 3)), F(rng.randint(-3, 3))) for _ in range(rng.randint(3, 7))}]
            rng.shuffle(poly); shape = 'random-tour'
        if rng.random() < .5:
            poly = poly[::-1]
        s = rng.randrange(len(poly)); poly = poly[s:] + poly[:s]
        simple = is_simple(poly)
        area2 = sum(poly[i][0] * poly[(i + 1) % len(poly)][1] - poly[(i + 1) % len(poly)][0] * poly[i][1] for i in range(len(poly)))
        cnt('wn_shape', shape); cnt('wn_simple', simple); cnt('wn_orientation', 'ccw' if area2 > 0 else ('cw' if area2 < 0 else 'zero'))
        xs = [p[0] for p in poly]; ys = [p[1] for p in poly]
        gridpts = [[F(x), F(y)] for x in range(int(min(xs)) - 1, int(max(xs)) + 2) for y in range(int(min(ys)) - 1, int(max(ys)) + 2)]
        if quick:
            sel = rng.sample(gridpts, min(len(gridpts), 9)) + [list(rng.choice(poly))]
        else:
            sel = gridpts
        # a few non-grid points, among them edge midpoints (on the boundary: correspondence only)
        i = rng.randrange(len(poly)); a, b = poly[i], poly[(i + 1) % len(poly)]
        sel.append([(a[0] + b[0]) / 2, (a[1] + b[1]) / 2])
        sel.append([F(rng.randint(-9, 9), 2), F(rng.randint(-9, 9), 3)])
        closed = poly + [poly[0]]
        for pt in sel:
            cnt('wn_point', 'boundary' if on_boundary(poly, pt) else ('inside' if crossing_inside(poly, pt) else 'outside'))
            out.append(Case('wn', "wn %s %s" % (show_list(pt), show_pts(closed)), dict(pt=pt, poly=poly, simple=simple)))
    out.append(Case('wn', "wn 0,0 -", dict(pt=[F(0), F(0)], poly=[], simple=False)))
    # ---- convex_hull
    for k in range(50 if quick else 800):
        r = rng.random()
        n = rng.randint(0, 14)
        if r < .5:
            pts = [[F(rng.randint(-5, 5)), F(rng.randint(-5, 5))] for _ in range(n)]; kind = 'integer'
        elif r < .75:
            pts = G.points(rng, n, 2); kind = 'rational'
        elif r < .87:       # all on one line
            a = G.points(rng, 1, 2)[0]; d = rvec(rng, 2, 3)
            pts = [[a[0] + t * d[0], a[1] + t * d[1]] for t in [F(rng.randint(-4, 4), rng.choice([1, 2])) for _ in range(n)]]; kind = 'colinear'
        else:               # many duplicates / lattice boundary points (colinear triples on the hull)
            pts = [[F(rng.randint(0, 2)), F(rng.randint(0, 2))] for _ in range(n)]; kind = 'lattice3'
        if rng.random() < .3:    # small-scale input (coordinates down to 1e-9): the hull of f*P is f*hull(P)
            f = F(1, 2 ** rng.randint(8, 30)); pts = [[x * f for x in p_] for p_ in pts]; kind += '-small'
        cnt('hull_kind', kind); cnt('hull_n', n)
        out.append(Case('hull', "hull %s" % show_pts(pts), dict(pts=pts)))
    # ---- rays
    out += gen_rays(rng, 90 if quick else 1500)
    # ---- frange (helper level)
    for k in range(30 if quick else 300):
        a = F(rng.randint(-6, 6), rng.choice([1, 2, 3]))
        r = rng.random()
        if r < .5:          # stop = start + n * step exactly (the voxel grid situation)
            n = rng.randint(1, 9); step = F(rng.randint(1, 9), rng.choice([1, 2, 3, 7])); b = a + n * step; kind = 'exact-multiple'
        elif r < .85:
            step = F(rng.randint(1, 9), rng.choice([1, 2, 3, 7])); b = a + step * F(rng.randint(0, 40), 8); kind = 'general'
        elif r < .93:
            step = F(rng.randint(0, 3), 2); b = a - F(rng.randint(0, 3)); kind = 'stop<=start'
        else:
            step = F(rng.randint(1, 5)); b = a + step / 2 + rng.choice([F(0), F(1, 10 ** 9), -F(1, 10 ** 9)]); kind = 'half-step'
        cnt('frange_kind', kind)
        out.append(Case('frange', "frange %s %s %s" % (fr(a), fr(b), fr(step)), dict(a=a, b=b, step=step)))
    # ---- voxel grid (helper level), sizes 2..8 per axis, pairwise different where possible
    for k in range(24 if quick else 300):
        lo = rpt(rng, 3, 4, (1, 2, 3)); ext = [F(rng.randint(1, 9), rng.choice([1, 2, 3])) for _ in range(3)]
        cubes = rng.random() < .3
        if rng.random() < .2 and not cubes:
            ext[rng.randint(0, 2)] = F(0)
        sz = rng.sample(range(2, 9), 3)
        if rng.random() < .12:
            sz[rng.randint(0, 2)] = rng.choice([0, 1])
        hi = [a + e for a, e in zip(lo, ext)]
        cnt('voxgrid', 'cubes' if cubes else ('bad-size' if min(sz) <= 1 else 'cuboid'))
        out.append(Case('voxgrid', "voxgrid %s %s %s %d" % (show_list(lo), show_list(hi), ",".join(map(str, sz)), 1 if cubes else 0),
                        dict(lo=lo, hi=hi, sz=sz, cubes=cubes)))
    # flat box with use_cubes=True: the zero step is used for every direction (F-20a)
    for k in range(2 if quick else 6):
        lo = rpt(rng, 3, 4, (1, 2)); ext = [F(rng.randint(1, 5)) for _ in range(3)]
        ext[rng.randint(0, 2)] = F(0)
        hi = [a + e for a, e in zip(lo, ext)]
        sz = rng.sample(range(2, 6), 3)
        cnt('voxgrid', 'cubes-flat')
        out.append(Case('voxgrid', "voxgrid %s %s %s 1" % (show_list(lo), show_list(hi), ",".join(map(str, sz))),
                        dict(lo=lo, hi=hi, sz=sz, cubes=True), tags=('F-20a',)))
    # ---- in/out test (helper level) incl. padding probes
    for k in range(40 if quick else 500):
        lo = rpt(rng, 3, 3, (1, 2)); hi = [a + F(rng.randint(0, 4), rng.choice([1, 2])) for a in lo]
        tol = rng.choice([None, None, TOL_VOX, F(0), F(1, 100)])      # None = the default padding 10e-8 of the code
        t = TOL_VOX if tol is None else tol
        pts = []
        for _ in range(rng.randint(0, 4)):
            p = [rng.choice([lo[i], hi[i], (lo[i] + hi[i]) / 2, lo[i] - 1, hi[i] + 1,
                             lo[i] - t / 2, lo[i] - t * 2, hi[i] + t / 2, hi[i] + t * 2, lo[i] - t, hi[i] + t,
                             lo[i] - t * F(3, 4), lo[i] - t * F(3, 2), hi[i] + t * F(3, 4), hi[i] + t * F(3, 2)]) for i in range(3)]
            pts.append(p)
        out.append(Case('inside', "inside %s %s %s %s" % (show_list(lo), show_list(hi), fr(t), show_pts(pts)),
                        dict(lo=lo, hi=hi, tol=tol, pts=pts), tags=('tol-probe',)))
    # ---- voxelize (public level)
    for k in range(14 if quick else 120):
        d = surf_data(rng, flat=(rng.random() < .2))
        d['nu'] = rng.randint(2, 5); d['nv'] = rng.randint(2, 5)
        if d['nu'] == d['nv']:
            d['nv'] += 1
        d["sz"] = rng.sample(range(2, 9), 3)
        lo, hi = bbox_of(d['P'])
        ext = [b - a for a, b in zip(lo, hi)]
        d['cubes'] = (rng.random() < .25) and (min(ext) == 0 or max(ext) / min(ext) <= 4)
        d['tol'] = rng.choice([None, None, F(0), F(1, 8)])
        pts = ref_surface_points(d)
        t = TOL_VOX if d['tol'] is None else d['tol']
        cnt('vox', ('cubes' if d['cubes'] else 'cuboid') + ('-flat' if min(ext) == 0 else '') + ('-rational' if d.get('w') else ''))
        cnt('vox_size', "x".join(map(str, d['sz'])))
        out.append(Case('vox', "vox %s %s %s %d %s %s" % (show_list(lo), show_list(hi), ",".join(map(str, d['sz'])),
                                                         1 if d['cubes'] else 0, fr(t), show_pts(pts)), d))
    # ---- find_ctrlpts (public level)
    for k in range(60 if quick else 900):
        p = rng.randint(1, 5 if quick else 7)
        kv, n = G.knots(rng, p, allow_range=False, clamped=(rng.random() < .85))
        u = G.param(rng, kv, p, n)
        d = dict(p=p, kv=kv, n=n, u=u, P=distinct_points(rng, n, rng.choice([2, 3])))
        if rng.random() < .3:
            d['w'] = G.weights(rng, n)
        if kv[0] != 0 or kv[-1] != 1:       # the knot vector setter normalises to [0, 1]
            a, b = kv[0], kv[-1]
            d['kv'] = [(x - a) / (b - a) for x in kv]; d['u'] = (u - a) / (b - a)
        out.append(Case('fcpc', "fcpc %d %s %s %s" % (p, show_list(d['kv']), show_pts(d['P']), fr(d['u'])), d))
    for k in range(40 if quick else 500):
        d = surf_data(rng, maxp=4)
        d['u'] = G.param(rng, d['ku'], d['pu'], d['su']); d['v'] = G.param(rng, d['kv'], d['pv'], d['sv'])
        su, sv = d['su'], d['sv']
        if d.get('w'):
            net = [[[c * d['w'][i * sv + j] for c in d['P'][i * sv + j]] + [d['w'][i * sv + j]] for j in range(sv)] for i in range(su)]
        else:
            net = [[d['P'][i * sv + j] for j in range(sv)] for i in range(su)]
        out.append(Case('fcps', "fcps %d %d %s %s %d %d %s %s %s" % (d['pu'], d['pv'], show_list(d['ku']), show_list(d['kv']), su, sv,
                                                                   show_pts2(net), fr(d['u']), fr(d['v'])), d))
    # ---- find_ctrlpts on shapes that KEEP an un-normalised knot range (normalize_kv=False): parameters outside [0, 1] are ordinary
    # parameters of such a domain
    for k in range(14 if quick else 160):
        p = rng.randint(1, 4)
        kv, n = G.knots(rng, p, allow_range=False)
        a, b = F(rng.choice([-3, -1, 2, 5])), F(rng.choice([2, 3, F(7, 2)]))
        kv = [a + b * x for x in kv]
        u = G.param(rng, kv, p, n)
        d = dict(p=p, kv=kv, n=n, u=u, P=distinct_points(rng, n, rng.choice([2, 3])), raw=True)
        out.append(Case('fcpc', "fcpc %d %s %s %s" % (p, show_list(d['kv']), show_pts(d['P']), fr(d['u'])), d))
    for k in range(10 if quick else 120):
        d = surf_data(rng, maxp=3)
        au, bu, av, bv = F(rng.choice([-3, 2])), F(rng.choice([2, 3])), F(rng.choice([-1, 4])), F(rng.choice([F(5, 2), 2]))
        d['ku'] = [au + bu * x for x in d['ku']]; d['kv'] = [av + bv * x for x in d['kv']]
        d['raw'] = True
        d['u'] = G.param(rng, d['ku'], d['pu'], d['su']); d['v'] = G.param(rng, d['kv'], d['pv'], d['sv'])
        su, sv = d['su'], d['sv']
        if d.get('w'):
            net = [[[c * d['w'][i * sv + j] for c in d['P'][i * sv + j]] + [d['w'][i * sv + j]] for j in range(sv)] for i in range(su)]
        else:
            net = [[d['P'][i * sv + j] for j in range(sv)] for i in range(su)]
        out.append(Case('fcps', "fcps %d %d %s %s %d %d %s %s %s" % (d['pu'], d['pv'], show_list(d['ku']), show_list(d['kv']), su, sv,
                                                                   show_pts2(net), fr(d['u']), fr(d['v'])), d))
    # ---- find_ctrlpts OUTSIDE the domain (diagnostic correspondence, audit 4 H6 note): operations.find_ctrlpts has no
    # domain check - the span search returns the first / last span and the control points of that span are returned;
    # the driver ops fcpc / fcps do the same (driver = code); the hull / activity statements do not apply there
    for k in range(16 if quick else 200):
        p = rng.randint(1, 4)
        kv, n = G.knots(rng, p, allow_range=False, clamped=(rng.random() < .6))
        a, b = kv[0], kv[-1]
        kv = [(x - a) / (b - a) for x in kv]
        lo, hi = kv[p], kv[n]
        u = rng.choice([lo - F(rng.randint(1, 7), 5), hi + F(rng.randint(1, 7), 5), F(-3), F(5),
                        (kv[0] + lo) / 2 if kv[0] < lo else lo - F(1, 9), (kv[-1] + hi) / 2 if kv[-1] > hi else hi + F(1, 9)])
        d = dict(p=p, kv=kv, n=n, u=u, P=distinct_points(rng, n, rng.choice([2, 3])))
        if rng.random() < .3:
            d['w'] = G.weights(rng, n)
        cnt('fcp_outside', 'curve-' + ('below' if u < lo else 'above'))
        out.append(Case('fcpc-out', "fcpc %d %s %s %s" % (p, show_list(d['kv']), show_pts(d['P']), fr(u)), d, tags=('diagnostic',)))
    for k in range(10 if quick else 120):
        d = surf_data(rng, maxp=3)
        su, sv = d['su'], d['sv']
        d['u'] = G.param(rng, d['ku'], d['pu'], su); d['v'] = G.param(rng, d['kv'], d['pv'], sv)
        which = rng.choice(['u', 'v', 'uv'])
        if 'u' in which:
            d['u'] = rng.choice([d['ku'][d['pu']] - F(rng.randint(1, 7), 5), d['ku'][su] + F(rng.randint(1, 7), 5)])
        if 'v' in which:
            d['v'] = rng.choice([d['kv'][d['pv']] - F(rng.randint(1, 7), 5), d['kv'][sv] + F(rng.randint(1, 7), 5)])
        if d.get('w'):
            net = [[[c * d['w'][i * sv + j] for c in d['P'][i * sv + j]] + [d['w'][i * sv + j]] for j in range(sv)] for i in range(su)]
        else:
            net = [[d['P'][i * sv + j] for j in range(sv)] for i in range(su)]
        cnt('fcp_outside', 'surface-' + which)
        out.append(Case('fcps-out', "fcps %d %d %s %s %d %d %s %s %s" % (d['pu'], d['pv'], show_list(d['ku']), show_list(d['kv']), su, sv,
                                                                       show_pts2(net), fr(d['u']), fr(d['v'])), d, tags=('diagnostic',)))
    return out


# ------------------------------------------------------------------ implementation
class Hang(Exception):
    pass


_HUNG = set()      # op lines on which the implementation already failed to return (do not wait twice)


def _limit(lo, hi, cubes):
    """2 s where the recorded finding F-20a applies (use_cubes=True on a box that is flat in some direction:
    frange with step 0 never ends); otherwise the generous per-case limit of the framework - a slow but
    terminating call on a loaded machine must not be reported as a hang"""
    import core
    if cubes and any(a == b for a, b in zip(lo, hi)):
        return 2.0
    return max(30.0, core.CASE_LIMIT_S)


def guarded(f, seconds=2.0):
    """run f() but give up after `seconds` of USER CPU time (the voxel grid of a flat box with use_cubes=True never
    finishes, F-20a); an own timer (ITIMER_VIRTUAL), so the limits of core.limited around the case stay armed"""
    import signal

    def on_alarm(*a):
        raise Hang()
    old = signal.signal(signal.SIGVTALRM, on_alarm)
    signal.setitimer(signal.ITIMER_VIRTUAL, seconds)
    try:
        return f()
    finally:
        signal.setitimer(signal.ITIMER_VIRTUAL, 0)
        signal.signal(signal.SIGVTALRM, old)


def _rays(d):
    from geomdl import ray
    return ray.Ray(qs(d['a1']), qs(d['a2'])), ray.Ray(qs(d['b1']), qs(d['b2']))


def _intersect(d):
    from geomdl import ray
    r1, r2 = _rays(d)
    if d['tol'] is None:
        return ray.intersect(r1, r2)
    return ray.intersect(r1, r2, tol=q(d['tol']))


def _voxelize(d):
    from geomdl import voxelize
    s = build_surface(d)
    kw = dict(grid_size=tuple(d['sz']), use_cubes=d['cubes'], num_procs=1)
    if d['tol'] is not None:
        kw['tol'] = q(d['tol'])
    lo_, hi_ = bbox_of(d['P'])
    return s, guarded(lambda: voxelize.voxelize(s, **kw), _limit(lo_, hi_, d['cubes']))


def impl(c):
    from geomdl import linalg, operations, _voxelize as vxl
    d = c.data
    k = c.kind
    if k == 'isleft':
        return fr(linalg.is_left(qs(d['a']), qs(d['b']), qs(d['c'])))
    if k == 'wn':
        poly = qpts(d['poly'])
        return str(linalg.wn_poly(qs(d['pt']), poly + poly[:1]))
    if k == 'hull':
        return show_pts(linalg.convex_hull(qpts(d['pts'])))
    if k == 'ray':
        t1, t2, st = _intersect(d)
        return "%s %s %d" % (fr(t1), fr(t2), st)
    if k == 'frange':
        return show_list(list(linalg.frange(q(d['a']), q(d['b']), q(d['step']))))
    if k == 'voxgrid':
        try:
            return show_pts2(guarded(lambda: vxl.generate_voxel_grid([qs(d['lo']), qs(d['hi'])], d['sz'], use_cubes=d['cubes']),
                                     _limit(d['lo'], d['hi'], d['cubes'])))
        except Hang:
            _HUNG.add(c.line)
            return "HANG"
    if k == 'inside':
        bb = [qs(d['lo']), qs(d['hi'])]
        if d['tol'] is None:     # defaults of both routines
            r1 = vxl.is_point_inside_voxel(bb, qpts(d['pts'])); r2 = vxl.find_inouts_st([bb], qpts(d['pts']))[0]
            return str(r1) if r1 == r2 else "is_point_inside_voxel=%s find_inouts_st=%s" % (r1, r2)
        return str(vxl.is_point_inside_voxel(bb, qpts(d['pts']), tol=q(d['tol'])))
    if k == 'vox':
        try:
            s, (grid, filled) = _voxelize(d)
        except Hang:
            _HUNG.add(c.line)
            return "HANG"
        return ",".join(str(x) for x in filled) + " " + show_pts2(grid)
    if k in ('fcpc', 'fcpc-out'):
        return show_pts(operations.find_ctrlpts(build_curve(d), q(d['u'])))
    if k in ('fcps', 'fcps-out'):
        return show_pts2(operations.find_ctrlpts(build_surface(d), q(d['u']), q(d['v'])))
    raise ValueError(k)


# ------------------------------------------------------------------ the property, on the implementation
def oracle(c):
    from geomdl import linalg, operations, helpers, _voxelize as vxl
    d = c.data
    k = c.kind
    if k == 'isleft':
        a, b, cc = d['a'], d['b'], d['c']
        got = linalg.is_left(qs(a), qs(b), qs(cc))
        want = cross(a, b, cc)      # 2x2 determinant of (b - a, c - a)
        if got != want:
            return "is_left = %s, determinant = %s" % (fr(got), fr(want))
        return None
    if k == 'wn':
        poly, pt = d['poly'], d['pt']
        if not d['simple'] or on_boundary(poly, pt):
            return None
        cp = qpts(poly)
        got = linalg.wn_poly(qs(pt), cp + cp[:1])
        want = crossing_inside(poly, pt)
        if got != want:
            return "wn_poly(%s) = %s on a simple polygon, crossing-number test says inside = %s" % (show_list(pt), got, want)
        # orientation / start vertex must not matter
        rp = cp[::-1]
        if linalg.wn_poly(qs(pt), rp + rp[:1]) != got:
            return "wn_poly changes when the polygon is traversed in the opposite direction"
        sp = cp[1:] + cp[:1]
        if linalg.wn_poly(qs(pt), sp + sp[:1]) != got:
            return "wn_poly changes when the polygon starts at another vertex"
        return None
    if k == 'hull':
        pts = d['pts']
        hull = [[F(x.q) for x in p] for p in linalg.convex_hull(qpts(pts))]
        S = {tuple(p) for p in pts}
        if any(tuple(h) not in S for h in hull):
            return "convex_hull returns a point that is not an input point"
        if len({tuple(h) for h in hull}) != len(hull):
            return "convex_hull returns a point twice"
        if len(S) == 0:
            return None if hull == [] else "hull of nothing is not empty"
        distinct = sorted(S)
        colinear = all(cross(distinct[0], distinct[-1], p) == 0 for p in distinct)
        if colinear:
            want = [list(distinct[0])] if len(distinct) == 1 else [list(distinct[0]), list(distinct[-1])]
            if hull != want:
                return "hull of colinear points is %s, expected the two extreme points" % show_pts(hull)
            return None
        m = len(hull)
        if m < 3:
            return "hull of non-colinear points has %d vertices" % m
        for i in range(m):
            a, b, nx = hull[i], hull[(i + 1) % m], hull[(i + 2) % m]
            if cross(a, b, nx) <= 0:
                return "hull is not strictly convex / not counter-clockwise at vertex %d" % ((i + 1) % m)
            for p in pts:
                if cross(a, b, p) < 0:
                    return "input point %s is strictly right of hull edge %d" % (show_list(p), i)
        return None
    if k == 'ray':
        return oracle_ray(d)
    if k == 'frange':
        a, b, step = d['a'], d['b'], d['step']
        out = [F(x.q) for x in linalg.frange(q(a), q(b), q(step))]
        if out[0] != a:
            return "frange does not start at start"
        if b > a:
            if out[-1] < b:
                return "frange(%s,%s,%s) ends at %s, below stop" % (fr(a), fr(b), fr(step), fr(out[-1]))
            if any(y - x > step or y <= x for x, y in zip(out, out[1:])):
                return "frange values are not increasing by at most one step"
            if out[-1] >= b + step:
                return "frange overshoots stop by a full step"
        return None
    if k == 'voxgrid':
        lo, hi, sz = d['lo'], d['hi'], d['sz']
        if min(sz) <= 1:
            try:
                vxl.generate_voxel_grid([qs(lo), qs(hi)], sz, use_cubes=d['cubes'])
            except Exception:
                return None
            return "generate_voxel_grid accepts a grid size <= 1"
        try:
            if c.line in _HUNG:
                raise Hang()
            grid = guarded(lambda: vxl.generate_voxel_grid([qs(lo), qs(hi)], sz, use_cubes=d['cubes']), _limit(lo, hi, d['cubes']))
        except Hang:
            return "generate_voxel_grid(use_cubes=%s) does not return for the box %s .. %s" % (d['cubes'], show_list(lo), show_list(hi))
        return check_grid(grid, lo, hi, sz, d['cubes'])
    if k == 'inside':
        lo, hi, tol, pts = d['lo'], d['hi'], d['tol'], d['pts']
        if tol is None:
            tol = TOL_VOX
            got = vxl.find_inouts_st([[qs(lo), qs(hi)]], qpts(pts))[0]
        else:
            got = vxl.is_point_inside_voxel([qs(lo), qs(hi)], qpts(pts), tol=q(tol))
        want = int(any(all(lo[i] - tol <= p[i] < hi[i] + tol for i in range(3)) for p in pts))
        if got != want:
            return "is_point_inside_voxel = %s, expected %s" % (got, want)
        return None
    if k == 'vox':
        lo, hi = bbox_of(d['P'])
        try:
            if c.line in _HUNG:
                raise Hang()
            s, (grid, filled) = _voxelize(d)
        except Hang:
            return "voxelize(use_cubes=%s) does not return for a surface with bounding box %s .. %s" % (d['cubes'], show_list(lo), show_list(hi))
        pts = ref_surface_points(d)
        ev = [[F(x.q) for x in p] for p in s.evalpts]
        if ev != pts:
            return "evaluated points of the surface differ from the tensor-product Cox-de Boor evaluation"
        why = check_grid(grid, lo, hi, d['sz'], d['cubes'])
        if why:
            return why
        tol = TOL_VOX if d['tol'] is None else d['tol']
        if len(filled) != len(grid):
            return "filled has %d entries for %d voxels" % (len(filled), len(grid))
        for idx, bb in enumerate(grid):
            mn = [F(x.q) for x in bb[0]]; mx = [F(x.q) for x in bb[1]]
            want = int(any(all(mn[i] - tol <= p[i] < mx[i] + tol for i in range(3)) for p in pts))
            if filled[idx] != want:
                return "voxel %d is marked %s but %s sampled point lies inside it" % (idx, filled[idx], 'a' if want else 'no')
        if tol > 0:
            for p in pts:
                if not any(f and all(F(bb[0][i].q) - tol <= p[i] < F(bb[1][i].q) + tol for i in range(3)) for bb, f in zip(grid, filled)):
                    return "sampled point %s is in no filled voxel" % show_list(p)
        return None
    if k == 'fcpc':
        p, kv, n, u, P = d['p'], d['kv'], d['n'], d['u'], d['P']
        got = [[F(x.q) for x in pt] for pt in operations.find_ctrlpts(build_curve(d), q(u))]
        span = G.span_of(kv, p, n, u)
        N = basis_all(kv, p, n, u)
        return check_active("find_ctrlpts(curve)", got, [P[i] for i in range(span - p, span + 1)], N, span, p, kv, u)
    if k == 'fcps':
        got = operations.find_ctrlpts(build_surface(d), q(d['u']), q(d['v']))
        pu, pv, su, sv = d['pu'], d['pv'], d['su'], d['sv']
        ku, kvv, u, v = d['ku'], d['kv'], d['u'], d['v']
        spu = G.span_of(ku, pu, su, u); spv = G.span_of(kvv, pv, sv, v)
        Nu = basis_all(ku, pu, su, u); Nv = basis_all(kvv, pv, sv, v)
        w = d.get('w')

        def cp(i, j):
            pt = d['P'][i * sv + j]
            return [x * w[i * sv + j] for x in pt] + [w[i * sv + j]] if w else pt
        if len(got) != pu + 1 or any(len(r) != pv + 1 for r in got):
            return "find_ctrlpts(surface) returns a %dx%s array, expected %dx%d" % (len(got), len(got[0]) if got else 0, pu + 1, pv + 1)
        for a in range(pu + 1):
            for b in range(pv + 1):
                if [F(x.q) for x in got[a][b]] != cp(spu - pu + a, spv - pv + b):
                    return "find_ctrlpts(surface)[%d][%d] is not control point (%d,%d)" % (a, b, spu - pu + a, spv - pv + b)
        for i in range(su):
            for j in range(sv):
                if Nu[i] * Nv[j] != 0 and not (spu - pu <= i <= spu and spv - pv <= j <= spv):
                    return "control point (%d,%d) has a non-zero basis function but is not returned" % (i, j)
        if ku[spu] < u < ku[spu + 1] and kvv[spv] < v < kvv[spv + 1]:
            if any(Nu[i] * Nv[j] == 0 for i in range(spu - pu, spu + 1) for j in range(spv - pv, spv + 1)):
                return "a returned control point has a vanishing basis function inside the span"
        return (zero_pattern("find_ctrlpts(surface, u)", Nu, spu, pu, ku, u)
                or zero_pattern("find_ctrlpts(surface, v)", Nv, spv, pv, kvv, v))
    return None


def check_active(name, got, want_pts, N, span, p, kv, u):
    if got != want_pts:
        return "%s does not return control points %d..%d" % (name, span - p, span)
    for i, x in enumerate(N):
        if x != 0 and not (span - p <= i <= span):
            return "%s: control point %d has a non-zero basis function but is not returned" % (name, i)
    if kv[span] < u < kv[span + 1] and any(N[i] == 0 for i in range(span - p, span + 1)):
        return "%s: a returned control point has a vanishing basis function inside the span" % name
    return zero_pattern(name, N, span, p, kv, u)


def zero_pattern(name, N, span, p, kv, u):
    """exact zero pattern on the closed non-empty span (Lean: C20.basisFuns_zero_pattern /
    findCtrlpts_active_closed_domain): N_i(u) != 0 iff (i = span-p or U_i < u) and (i = span or u < U_{i+p+1})"""
    if not (kv[span] < kv[span + 1] and kv[span] <= u <= kv[span + 1]):
        return None
    for i in range(span - p, span + 1):
        want = (i == span - p or kv[i] < u) and (i == span or u < kv[i + p + 1])
        if (N[i] != 0) != want or N[i] < 0:
            return "%s: basis function %d at %s does not follow the zero pattern of the span (value %s)" % (name, i, fr(u), fr(N[i]))
    return None


def check_grid(grid, lo, hi, sz, cubes):
    """the voxels form a full axis-parallel grid whose union covers the bounding box"""
    mins = [sorted({F(bb[0][i].q) for bb in grid}) for i in range(3)]
    ext = [b - a for a, b in zip(lo, hi)]
    steps = [e / (s - 1) for e, s in zip(ext, sz)]
    if cubes:       # cubes: one common edge length, the smallest positive step (a zero step cannot tile a non-empty extent)
        pos = [x for x in steps if x > 0]
        steps = [min(pos) if pos else F(0)] * 3
    if len(grid) != len(mins[0]) * len(mins[1]) * len(mins[2]):
        return "voxel grid is not a full product grid"
    if not cubes and len(grid) != (sz[0] if ext[0] else 1) * (sz[1] if ext[1] else 1) * (sz[2] if ext[2] else 1):
        return "voxel grid has %d voxels for grid size %s" % (len(grid), sz)
    for bb in grid:
        if [F(bb[1][i].q) - F(bb[0][i].q) for i in range(3)] != steps:
            return "a voxel does not have the step size as its extent"
    for i in range(3):
        ms = mins[i]
        if ms[0] != lo[i]:
            return "grid does not start at the bounding box minimum on axis %d" % i
        if ms[-1] + steps[i] < hi[i]:
            return "grid ends below the bounding box maximum on axis %d" % i
        if any(y - x > steps[i] for x, y in zip(ms, ms[1:])):
            return "gap between consecutive voxels on axis %d" % i
    # order: x slowest, z fastest
    order = [[F(bb[0][i].q) for i in range(3)] for bb in grid]
    if order != [[x, y, z] for x in mins[0] for y in mins[1] for z in mins[2]]:
        return "voxels are not in x-major order"
    return None


def oracle_ray(d):
    from geomdl import ray
    a1, a2, b1, b2 = d['a1'], d['a2'], d['b1'], d['b2']
    dims = {len(a1), len(a2), len(b1), len(b2)}
    if len(dims) != 1 or dims not in ({2}, {3}):
        try:
            _intersect(d)
        except Exception:
            return None
        return "intersect accepts rays of dimension %s" % sorted(dims)
    tol = TOL_RAY if d['tol'] is None else d['tol']
    t1, t2, st = _intersect(d)
    t1 = F(t1) if not hasattr(t1, 'q') else t1.q
    t2 = F(t2) if not hasattr(t2, 'q') else t2.q
    A1, A2, B1, B2 = [list(p) + [F(0)] * (3 - len(p)) for p in (a1, a2, b1, b2)]
    d1, d2 = vsub(A2, A1), vsub(B2, B1)
    c = vcross(d1, d2); ssq = vdot(c, c)
    qd = vsub(B1, A1)
    if st not in (1, 2, 3):
        return "unknown status %s" % st
    if ssq == 0:
        return None if st == 2 else "parallel rays (zero cross product) reported with status %d" % st
    if all(abs(x) < tol for x in c):
        return None if st == 2 else "cross product below tol in every component but status %d" % st
    if st == 2:
        return "status COLINEAR although the cross product has a component of size >= tol"
    P1 = [p + t1 * e for p, e in zip(A1, d1)]; P2 = [p + t2 * e for p, e in zip(B1, d2)]
    dsq = vdot(vsub(P2, P1), vsub(P2, P1))
    if tol > 0 and abs(dsq - tol * tol) <= BAND * tol * tol:
        return None    # the only region where sqrt(dsq) < tol and dsq < tol^2 could differ in doubles: nothing is claimed
    trip = vdot(qd, c)
    m = sqrt_double(ssq)
    if trip == 0:      # coplanar and not parallel: the lines meet in exactly one point
        T1 = vdot(vcross(qd, d2), c) / ssq; T2 = vdot(vcross(qd, d1), c) / ssq
        X = [p + T1 * e for p, e in zip(A1, d1)]
        assert X == [p + T2 * e for p, e in zip(B1, d2)]
        if tol <= 0:
            return None
        if st != 1:
            return "rays meeting in %s are reported with status %d" % (show_list(X), st)
        if m * m == ssq:
            if P1 != P2 or P1 != X:
                return "exact square root, yet the returned parameters give different points %s / %s" % (show_list(P1), show_list(P2))
        else:
            if abs(t1 - T1) > BAND * abs(T1) or abs(t2 - T2) > BAND * abs(T2):
                return "returned parameters differ from the exact ones by more than 2^-50 relative"
            if not dsq < tol * tol:
                return "points of the returned parameters are further apart than tol"
        return None
    # not coplanar: the distance of the two lines is |q.c| / |c|
    gap2 = trip * trip / ssq
    if gap2 >= tol * tol * (1 + 8 * BAND) and st != 3:
        return "lines at distance^2 %s >= tol^2 reported as intersecting" % fr(gap2)
    if gap2 < tol * tol * (1 - 8 * BAND) and st != 1 and tol > 0:
        return "lines closer than tol reported as skew"
    return None


def classify(c, why):
    """F-20a: use_cubes=True with a bounding box that is flat in some direction never returns"""
    d = c.data
    if 'does not return' in why and d.get('cubes'):
        if c.kind == 'voxgrid':
            lo, hi = d['lo'], d['hi']
        elif c.kind == 'vox':
            lo, hi = bbox_of(d['P'])
        else:
            return None
        ext = [b - a for a, b in zip(lo, hi)]
        if min(ext) == 0 and max(ext) > 0:
            return 'F-20a'
    return None


def witness(fid):
    if fid == 'F-20a':
        from geomdl import voxelize
        d = dict(pu=1, pv=1, su=2, sv=2, ku=[F(0), F(0), F(1), F(1)], kv=[F(0), F(0), F(1), F(1)],
                 P=[[F(0), F(0), F(0)], [F(0), F(1), F(0)], [F(1), F(0), F(0)], [F(1), F(1), F(0)]], nu=3, nv=3)
        s = build_surface(d)
        try:
            guarded(lambda: voxelize.voxelize(s, grid_size=(2, 2, 2), use_cubes=True), 2.0)
        except Hang:
            return "voxelize(flat bilinear patch, grid_size=(2,2,2), use_cubes=True) did not return within 2 s"
        return None
    return None
