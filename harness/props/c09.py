"""C09  Weights, weighted and unweighted control points stay mutually consistent.

Public level: `compatibility.*` list helpers; object scripts over `NURBS.Curve/Surface/Volume`
(`ctrlpts =`, `weights =`, `ctrlptsw =` in all orders with reads of the three views in between, and
the curve's `reverse`); `convert.bspline_to_nurbs / nurbs_to_bspline` with evaluation; scaling all
weights; `CPGen.GridWeighted` (weight list / scalar setter and `grid` reads interleaved).
The oracle tracks the abstract state (unweighted points, weights) in plain exact arithmetic and
demands of every read: ctrlpts = P, weights = w, ctrlptsw[i] = (P[i] * w[i], w[i])."""
import copy, io, itertools, contextlib
from fractions import Fraction as F
from core import Case, q, qs, qpts, fr, show_list, show_pts, show_pts2
import gen as G

PID = 'C09'
FLOAT_KINDS = {'gridw', 'views', 'combine', 'genw2', 'genw', 'separate', 'genp', 'genp2', 'scale', 'b2n'}      # float-mode companion (core.float_companion)
FLOAT_TOL = 1e-9
STATS = G.STATS
ASSUMPTIONS = [
    "unit-weight / common-factor theorems are stated for the evaluation on a given non-empty knot span (SpanOk) resp. for "
    "the model's evaluators; that evaluate_single uses these is the C01 correspondence (ops ceval/seval/veval, b2n, n2b here)",
    "object scripts keep the number of control points of an object fixed (the ctrlpts / weights setters zip the new list "
    "with the existing other view, so a longer list is silently truncated - recorded as an observation, not judged)",
    "nurbs_to_bspline: 'identically evaluating' is demanded for weights exactly 1; weights within the function's own tolerance "
    "(10e-8) of 1 are compared with the model only",
]
NAMES = 'uvw'
CLS = {'C': 'Curve', 'S': 'Surface', 'V': 'Volume'}
TOL_N2B = F(10e-8)


def prod(xs):
    r = 1
    for x in xs:
        r *= x
    return r


# ---------------------------------------------------------------- generators
def rnd_shape(rng, kind=None, small=False):
    """degrees, knot vectors, sizes (pairwise different), unweighted points, positive weights"""
    kind = kind or rng.choice('CCSSV')
    pdim = {'C': 1, 'S': 2, 'V': 3}[kind]
    while True:
        degs = rng.sample([1, 2, 3, 4] if kind == 'C' else [1, 2, 3], pdim)
        kvs, sizes = [], []
        for p in degs:
            kv, n = G.knots(rng, p, max_interior=(4 if kind == 'C' else (1 if kind == 'V' or small else 2)), allow_range=False,
                            max_mult=(p if kind == 'C' else 1))
            kvs.append(kv); sizes.append(n)
        if len(set(sizes)) == pdim:
            break
    n = prod(sizes)
    dim = rng.choice([2, 3]) if kind in 'CS' else 3
    P = G.points(rng, n, dim)
    w = G.weights(rng, n)
    G.count('shape', kind)
    return dict(kind=kind, deg=degs, kv=kvs, size=sizes, P=P, w=w)


def params(rng, sh):
    return [G.param(rng, kv, p, n) for kv, p, n in zip(sh['kv'], sh['deg'], sh['size'])]


def shape_line(sh, net, us):
    """the argument text shared by ceval/seval/veval and b2n/n2b"""
    k = sh['kind']
    if k == 'C':
        return "%d %s %s %s" % (sh['deg'][0], show_list(sh['kv'][0]), show_pts(net), fr(us[0]))
    return "%s %s %s %s %s" % (" ".join(map(str, sh['deg'])), " ".join(show_list(kv) for kv in sh['kv']),
                               " ".join(map(str, sh['size'])), show_pts(net), " ".join(fr(u) for u in us))


def op_text(op):
    name, val = op
    if name in ('sP', 'sPw'):
        return "%s=%s" % (name, show_pts(val))
    if name == 'sW':
        return "sW=%s" % show_list(val)
    return name


def views_case(kind, degs, sizes, ops, tags=()):
    G.count('views', kind)
    for o in ops:
        G.count('view_op', o[0])
    line = "views %s %s %s %s" % (kind, ",".join(map(str, degs)), ",".join(map(str, sizes)) if kind != 'C' else '-',
                                  " ".join(op_text(o) for o in ops))
    return Case('views', line, dict(kind=kind, deg=degs, size=sizes, ops=[list(o) for o in ops]), tags=tags)


def gen_views(rng, tier, out):
    reads = ['gP', 'gW', 'gPw']
    n_rand = 120 if tier == 'quick' else 1500
    # all orders of the three setters, reads in between chosen systematically
    combos = list(itertools.permutations(['sP', 'sW', 'sPw']))
    reps = 1 if tier == 'quick' else 6
    for _ in range(reps):
        for kind in 'CSV':
            for perm in combos:
                for rd in range(4):
                    sh = rnd_shape(rng, kind, small=True)
                    n = len(sh['P'])
                    ops = []
                    if perm[0] == 'sW':     # weights cannot be the very first assignment (raises): give the object points first
                        ops.append(('sP', G.points(rng, n, len(sh['P'][0]))))
                        if rd & 1:
                            ops.append((rng.choice(reads), None))
                    for name in perm:
                        if name == 'sP':
                            ops.append(('sP', G.points(rng, n, len(sh['P'][0]))))
                        elif name == 'sW':
                            ops.append(('sW', G.weights(rng, n)))
                        else:
                            ops.append(('sPw', G.homogeneous(G.points(rng, n, len(sh['P'][0])), G.weights(rng, n))))
                        if rd == 1:
                            ops.append((rng.choice(reads), None))
                        elif rd == 2:
                            ops += [(r, None) for r in rng.sample(reads, 2)]
                        elif rd == 3 and name == perm[-1]:
                            ops += [(r, None) for r in rng.sample(reads, 3)]
                    if rd == 0:
                        ops += [(r, None) for r in rng.sample(reads, 3)]
                    out.append(views_case(kind, sh['deg'], sh['size'], ops))
    # random histories, biased towards read - mutate - read of the same view; curves also reverse
    for _ in range(n_rand):
        sh = rnd_shape(rng, small=True)
        kind = sh['kind']; n = len(sh['P']); dim = len(sh['P'][0])
        ops = [rng.choice([('sP', sh['P']), ('sPw', G.homogeneous(sh['P'], sh['w']))])]
        for _k in range(rng.randint(2, 9)):
            r = rng.random()
            if r < .4:
                rd = rng.choice(reads)
                ops.append((rd, None))
                if rng.random() < .5:
                    m = rng.choice(['sP', 'sW', 'sPw'] + (['rev', 'rev'] if kind == 'C' else []))
                    ops.append(mk_mut(rng, m, n, dim))
                    ops.append((rd, None))
            else:
                m = rng.choice(['sP', 'sW', 'sPw'] + (['rev'] if kind == 'C' else []))
                ops.append(mk_mut(rng, m, n, dim))
        ops += [(r, None) for r in rng.sample(reads, 3)]
        out.append(views_case(kind, sh['deg'], sh['size'], ops))
    # the setters zip the new list with the other view: a different number of points / weights is truncated
    # (compared with the model; not judged by the oracle, see ASSUMPTIONS)
    for _ in range(4 if tier == 'quick' else 40):
        sh = rnd_shape(rng, 'C'); n = len(sh['P']); dim = len(sh['P'][0]); p = sh['deg'][0]
        ops = [('sP', sh['P']), ('sW', sh['w']), ('sP', G.points(rng, n + rng.randint(1, 3), dim)), ('gP', None), ('gW', None)]
        if n - 1 >= p + 1:
            ops += [('sW', G.weights(rng, n - 1)), ('gP', None), ('gW', None), ('gPw', None)]
        out.append(views_case('C', sh['deg'], sh['size'], ops, tags=('length-change', 'diagnostic')))
    # fixed small F-12a probe (read, reverse, read) first in every run
    out.insert(0, views_case('C', [2], [], [('sPw', [[F(0), F(0), F(1)], [F(2), F(6), F(2)], [F(1), F(0), F(1, 2)]]),
                                           ('gP', None), ('rev', None), ('gP', None), ('gW', None), ('gPw', None)]))
    # malformed: weights first, too few points, zero weight in ctrlptsw followed by a read, ragged points
    for _ in range(6 if tier == 'quick' else 40):
        sh = rnd_shape(rng, 'C'); p = sh['deg'][0]; dim = len(sh['P'][0])
        bad = rng.choice(['w-first', 'few', 'zero', 'ragged', 'flat'])
        if bad == 'w-first':
            ops = [('sW', sh['w']), ('gP', None)]
        elif bad == 'few':
            ops = [('sP', sh['P'][:p]), ('gP', None)]
        elif bad == 'zero':
            Pw = G.homogeneous(sh['P'], sh['w']); Pw[1][-1] = F(0)
            ops = [('sPw', Pw), ('gPw', None)]
        elif bad == 'ragged':
            P = [list(x) for x in sh['P']]; P[1] = P[1] + [F(1)]
            ops = [('sP', P), ('gP', None)]
        else:
            ops = [('sPw', [pt[:2] for pt in sh['P']]), ('gPw', None)]
        out.append(views_case('C', sh['deg'], sh['size'], ops, tags=('malformed', 'diagnostic')))


def mk_mut(rng, m, n, dim):
    if m == 'sP':
        return ('sP', G.points(rng, n, dim))
    if m == 'sW':
        return ('sW', G.weights(rng, n))
    if m == 'sPw':
        return ('sPw', G.homogeneous(G.points(rng, n, dim), G.weights(rng, n)))
    return ('rev', None)


def gen_helpers(rng, tier, out):
    for _ in range(160 if tier == 'quick' else 2000):
        n = rng.randint(1, 7); dim = rng.randint(1, 4)
        P = G.points(rng, n, dim)
        w = G.weights(rng, n)
        if rng.random() < .15:
            w = [x * rng.choice([1, -1]) for x in w]
        r = rng.random()
        if r < .25:
            ww = w
            if rng.random() < .15:
                ww = w[:rng.randint(0, n)] if rng.random() < .5 else w + [F(2)]
            out.append(Case('combine', "combine %s %s" % (show_pts(P), show_list(ww)), dict(P=P, w=ww)))
        elif r < .32:
            out.append(Case('combine', "combine %s None" % show_pts(P), dict(P=P, w=None)))
        elif r < .55:
            Pw = G.homogeneous(P, w)
            if rng.random() < .1:
                Pw[rng.randrange(n)][-1] = F(0)
            out.append(Case('separate', "separate %s" % show_pts(Pw), dict(Pw=Pw)))
        elif r < .68:
            Pq = [pt + [wi] for pt, wi in zip(P, w)]
            out.append(Case('genw', "genw %s" % show_pts(Pq), dict(P=Pq)))
        elif r < .80:
            Pw = G.homogeneous(P, w)
            if rng.random() < .1:
                Pw[rng.randrange(n)][-1] = F(0)
            out.append(Case('genp', "genp %s" % show_pts(Pw), dict(P=Pw)))
        else:
            su, sv = rng.sample([1, 2, 3, 4], 2)
            rows = [[G.points(rng, 1, dim)[0] + [rng.choice(G.weights(rng, 3))] for _j in range(sv)] for _i in range(su)]
            if rng.random() < .5:
                out.append(Case('genw2', "genw2 %s" % show_pts2(rows), dict(P=rows)))
            else:
                rows = [[[c * pt[-1] for c in pt[:-1]] + [pt[-1]] for pt in row] for row in rows]
                out.append(Case('genp2', "genp2 %s" % show_pts2(rows), dict(P=rows)))


def gen_convert(rng, tier, out):
    for _ in range(120 if tier == 'quick' else 1500):
        sh = rnd_shape(rng)
        us = params(rng, sh)
        k = sh['kind']
        r = rng.random()
        if r < .4:
            out.append(Case('b2n', "b2n %s %s" % (k, shape_line(sh, sh['P'], us)), dict(sh=sh, us=us)))
        elif r < .75:
            # NURBS -> B-spline: unit weights / generic weights / weights at half and twice the tolerance from 1
            mode = rng.choice(['unit', 'unit', 'generic', 'half', 'twice', 'tol'])
            n = len(sh['P'])
            tol = TOL_N2B; kw = None
            if mode == 'unit':
                w = [F(1)] * n
            elif mode == 'generic':
                w = sh['w']
            elif mode == 'tol':
                kw = rng.choice([F(1, 1000), F(1, 10), F(0)]); tol = kw
                w = [F(1) + rng.choice([-1, 1, 0]) * kw * rng.choice([F(1, 2), F(2), F(1)]) for _ in range(n)]
            else:
                m = F(1, 2) if mode == 'half' else F(2)
                w = [F(1)] * n
                for i in rng.sample(range(n), min(n, 2)):
                    w[i] = F(1) + rng.choice([-1, 1]) * m * F(1, 10 ** 7)
            sh2 = dict(sh); sh2['w'] = w
            net = G.homogeneous(sh['P'], w)
            G.count('n2b', mode)
            out.append(Case('n2b', "n2b %s %s %s" % (k, shape_line(sh, net, us), fr(tol)), dict(sh=sh2, us=us, tol=kw, mode=mode),
                            tags=('tol-probe',) if mode in ('half', 'twice') else ()))
        else:
            # all weights multiplied by one positive constant: same point (line: the evaluation op of C01)
            c = rng.choice([F(2), F(1, 3), F(7, 2), F(100), F(1, 1000)])
            net = G.homogeneous(sh['P'], [c * x for x in sh['w']])
            op = {'C': 'ceval', 'S': 'seval', 'V': 'veval'}[k]
            out.append(Case('scale', "%s 1 %s" % (op, shape_line(sh, net, us)), dict(sh=sh, us=us, c=c)))


def grid_points(sx, sy, nu, nv, z):
    return [[[sx * i / nu, sy * j / nv, z] for j in range(nv + 1)] for i in range(nu + 1)]


def gen_grid(rng, tier, out):
    def case(sx, sy, nu, nv, z, ops, tags=()):
        Gp = grid_points(sx, sy, nu, nv, z)
        line = "gridw %s %s" % (show_pts2(Gp), " ".join("g" if o[0] == 'g' else "%s=%s" % (o[0], show_list(o[1]) if o[0] == 'w' else fr(o[1])) for o in ops))
        for o in ops:
            G.count('grid_op', o[0])
        return Case('gridw', line, dict(sx=sx, sy=sy, nu=nu, nv=nv, z=z, ops=[list(o) for o in ops]), tags=tags)
    # fixed probes: own weight on a 2 x 3 grid; weight set after a read; a non-positive entry
    w6 = [F(i) for i in range(1, 7)]
    out.append(case(F(1), F(2), 1, 2, F(0), [('w', w6), ('g', None)]))
    out.append(case(F(1), F(2), 1, 2, F(1), [('g', None), ('w', w6), ('g', None)]))
    out.append(case(F(1), F(2), 1, 2, F(1), [('w', [F(1), F(0), F(-3), F(4), F(5), F(6)]), ('g', None)], tags=('malformed',)))
    for _ in range(100 if tier == 'quick' else 1200):
        nu, nv = rng.sample([1, 2, 3, 4], 2)
        n = (nu + 1) * (nv + 1)
        sx, sy = F(rng.randint(1, 9), rng.choice([1, 2, 3])), F(rng.randint(1, 9), rng.choice([1, 2]))
        z = F(rng.randint(-3, 3), rng.choice([1, 2]))
        ops = []
        tags = ()
        for _k in range(rng.randint(1, 6)):
            r = rng.random()
            if r < .45:
                ops.append(('g', None))
            elif r < .8:
                ops.append(('w', [F(rng.randint(1, 9), rng.choice([1, 2, 3])) for _i in range(n)]))
            elif r < .93:
                ops.append(('s', F(rng.randint(1, 9), rng.choice([1, 2]))))
            else:
                bad = rng.choice(['neg', 'len', 'scalar0'])
                if bad == 'neg':
                    w = [F(rng.randint(1, 9)) for _i in range(n)]; w[rng.randrange(n)] = F(rng.choice([0, -1, -5]))
                    ops.append(('w', w))
                elif bad == 'len':
                    ops.append(('w', [F(1)] * (n - 1)))
                else:
                    ops.append(('s', F(rng.choice([0, -2]))))
                tags = ('malformed',)
                break
        ops.append(('g', None))
        out.append(case(sx, sy, nu, nv, z, ops, tags=tags))


def gen(rng, tier):
    out = []
    gen_views(rng, tier, out)
    gen_grid(rng, tier, out)
    gen_helpers(rng, tier, out)
    gen_convert(rng, tier, out)
    return out


# ---------------------------------------------------------------- implementation
def new_nurbs(kind, degs, sizes):
    from geomdl import NURBS
    o = getattr(NURBS, CLS[kind])()
    if kind == 'C':
        o.degree = degs[0]
    else:
        for i, d in enumerate(degs):
            setattr(o, 'degree_' + NAMES[i], d)
            setattr(o, 'ctrlpts_size_' + NAMES[i], sizes[i])
    return o


def run_views(d, on_read):
    from geomdl import knotvector
    o = new_nurbs(d['kind'], d['deg'], d['size'])
    n_sw = [0]
    for name, val in d['ops']:
        if name == 'sP':
            lst = qpts(val)
            o.ctrlpts = lst
            # the caller goes on using the list he passed (the setter of a rational shape computes the homogeneous points from
            # it, the views must not follow the caller's list afterwards)
            for pt_ in lst:
                for i_ in range(len(pt_)):
                    pt_[i_] = pt_[i_] + 97
            lst.reverse()
        elif name == 'sW':
            lst = qs(val)
            n_sw[0] += 1
            cur = None
            if n_sw[0] % 2 == 0:
                try:
                    cur = o.weights
                except Exception:
                    cur = None
            if isinstance(cur, list) and len(cur) == len(lst):
                # the idiom `w = obj.weights; w[i] = x; obj.weights = w`: the getter's list edited in place and assigned back
                for i_ in range(len(lst)):
                    cur[i_] = lst[i_]
                o.weights = cur
            else:
                o.weights = lst
                for i_ in range(len(lst)):
                    lst[i_] = lst[i_] + 97
        elif name == 'sPw':
            o.ctrlptsw = qpts(val)
        elif name == 'gP':
            on_read('gP', [list(p) for p in o.ctrlpts])
        elif name == 'gW':
            on_read('gW', list(o.weights))
        elif name == 'gPw':
            on_read('gPw', [list(p) for p in o.ctrlptsw])
        elif name == 'rev':
            n = len(o.ctrlptsw)
            if len(o.knotvector) != n + o.degree + 1:
                o.knotvector = knotvector.generate(o.degree, n)
            o.reverse()
        else:
            raise ValueError(name)
    return o


def build_shape(sh, rational, weights=None):
    from geomdl import BSpline, NURBS
    mod = NURBS if rational else BSpline
    k = sh['kind']
    o = getattr(mod, CLS[k])()
    if k == 'C':
        o.degree = sh['deg'][0]
    else:
        for i, d in enumerate(sh['deg']):
            setattr(o, 'degree_' + NAMES[i], d)
            setattr(o, 'ctrlpts_size_' + NAMES[i], sh['size'][i])
    o.ctrlpts = qpts(sh['P'])
    if rational:
        o.weights = qs(weights if weights is not None else sh['w'])
    if k == 'C':
        o.knotvector = qs(sh['kv'][0])
    else:
        for i in range(len(sh['deg'])):
            setattr(o, 'knotvector_' + NAMES[i], qs(sh['kv'][i]))
    return o


def ev(o, us):
    return o.evaluate_single(q(us[0]) if len(us) == 1 else [q(u) for u in us])


def run_grid(d, on_read):
    from geomdl import CPGen
    g = CPGen.GridWeighted(q(d['sx']), q(d['sy']), z_value=q(d['z']))
    g.generate(d['nu'], d['nv'])
    for name, val in d['ops']:
        if name == 'w':
            lst = qs(val)
            g.weight = lst
            # the caller goes on using his own list (the generator must have taken the VALUES): scribble over it
            for i_ in range(len(lst)):
                lst[i_] = lst[i_] + 97
        elif name == 's':
            g.weight = q(val)
        else:
            on_read([[list(p) for p in row] for row in g.grid])
    return g


def impl(c):
    from geomdl import compatibility, convert
    d = c.data
    k = c.kind
    if k == 'combine':
        return show_pts(compatibility.combine_ctrlpts_weights(qpts(d['P']), None if d['w'] is None else qs(d['w'])))
    if k == 'separate':
        P, w = compatibility.separate_ctrlpts_weights(qpts(d['Pw']))
        return show_pts(P) + " " + show_list(w)
    if k == 'genw':
        return show_pts(compatibility.generate_ctrlptsw(qpts(d['P'])))
    if k == 'genp':
        return show_pts(compatibility.generate_ctrlpts_weights(qpts(d['P'])))
    if k == 'genw2':
        return show_pts2(compatibility.generate_ctrlptsw2d([qpts(r) for r in d['P']]))
    if k == 'genp2':
        return show_pts2(compatibility.generate_ctrlpts2d_weights([qpts(r) for r in d['P']]))
    if k == 'views':
        outs = []
        def rd(name, val):
            if val is not None:
                outs.append(show_list(val) if name == 'gW' else show_pts(val))
        run_views(d, rd)
        return " ".join(outs) if outs else "ok"
    if k == 'gridw':
        outs = []
        run_grid(d, lambda g: outs.append(show_pts2(g)))
        return " ".join(outs) if outs else "ok"
    if k == 'b2n':
        o = build_shape(d['sh'], False)
        r = convert.bspline_to_nurbs(o)
        return show_pts(r.ctrlptsw) + " " + show_list(ev(r, d['us']))
    if k == 'n2b':
        o = build_shape(d['sh'], True)
        with contextlib.redirect_stdout(io.StringIO()):
            r = convert.nurbs_to_bspline(o) if d['tol'] is None else convert.nurbs_to_bspline(o, tol=q(d['tol']))
        if r is o:
            return "SAME"
        return show_pts(r.ctrlpts) + " " + show_list(ev(r, d['us']))
    if k == 'scale':
        o = build_shape(d['sh'], True)
        o.weights = qs([d['c'] * x for x in d['sh']['w']])
        return show_list(ev(o, d['us']))
    raise ValueError(k)


# ---------------------------------------------------------------- oracle
def oracle(c):
    from geomdl import compatibility, convert
    d = c.data
    k = c.kind
    if 'malformed' in c.tags:
        return oracle_malformed(c)
    if k == 'combine':
        P, w = d['P'], d['w']
        ww = [F(1)] * len(P) if w is None else w
        Pw = compatibility.combine_ctrlpts_weights(qpts(P), None if w is None else qs(w))
        m = min(len(P), len(ww))
        if len(Pw) != m:
            return "combine returns %d points for %d points and %d weights" % (len(Pw), len(P), len(ww))
        for i in range(m):
            if list(Pw[i]) != [x * ww[i] for x in P[i]] + [ww[i]]:
                return "combine: point %d is not (P*w, w)" % i
        if len(P) == len(ww) and all(x != 0 for x in ww):
            P2, w2 = compatibility.separate_ctrlpts_weights(Pw)
            if [list(p) for p in P2] != P or list(w2) != ww:
                return "separate(combine(P, w)) != (P, w)"
        return None
    if k == 'separate':
        Pw = d['Pw']
        if any(pt[-1] == 0 for pt in Pw):
            return None
        P, w = compatibility.separate_ctrlpts_weights(qpts(Pw))
        for i, pt in enumerate(Pw):
            if w[i] != pt[-1] or [x * w[i] for x in P[i]] != pt[:-1]:
                return "separate: point %d times its weight is not the homogeneous point" % i
        if [list(p) for p in compatibility.combine_ctrlpts_weights(P, w)] != Pw:
            return "combine(separate(Pw)) != Pw"
        return None
    if k in ('genw', 'genp', 'genw2', 'genp2'):
        P = d['P']
        rows = P if k.endswith('2') else [P]
        if any(pt[-1] == 0 for r in rows for pt in r):
            return None
        if k == 'genw':
            a = compatibility.generate_ctrlptsw(qpts(P)); b = compatibility.generate_ctrlpts_weights(a)
            rel = all(list(x) == [cc * p[-1] for cc in p[:-1]] + [p[-1]] for x, p in zip(a, P))
        elif k == 'genp':
            a = compatibility.generate_ctrlpts_weights(qpts(P)); b = compatibility.generate_ctrlptsw(a)
            rel = all([cc * p[-1] for cc in x[:-1]] + [x[-1]] == p for x, p in zip(a, P))
        elif k == 'genw2':
            a = compatibility.generate_ctrlptsw2d([qpts(r) for r in P]); b = compatibility.generate_ctrlpts2d_weights(a)
            rel = all(list(x) == [cc * p[-1] for cc in p[:-1]] + [p[-1]] for ra, rp in zip(a, P) for x, p in zip(ra, rp))
        else:
            a = compatibility.generate_ctrlpts2d_weights([qpts(r) for r in P]); b = compatibility.generate_ctrlptsw2d(a)
            rel = all([cc * p[-1] for cc in x[:-1]] + [x[-1]] == p for ra, rp in zip(a, P) for x, p in zip(ra, rp))
        if not rel:
            return "%s: result is not related to the input by multiplication with the weight" % k
        bb = [[list(p) for p in r] for r in b] if k.endswith('2') else [list(p) for p in b]
        if bb != P:
            return "%s followed by its inverse is not the identity" % k
        return None
    if k == 'views':
        ops = d['ops']
        # abstract state (unweighted points, weights) after each op
        trace = []
        P = w = None
        for name, val in ops:
            if name == 'sP':
                if P is not None and len(val) != len(P):
                    return None
                P = [list(p) for p in val]; w = w if w is not None else [F(1)] * len(val)
            elif name == 'sW':
                if P is None or len(val) != len(P):
                    return None
                w = list(val)
            elif name == 'sPw':
                if P is not None and len(val) != len(P):
                    return None
                w = [p[-1] for p in val]; P = [[x / p[-1] for x in p[:-1]] for p in val]
            elif name == 'rev':
                if P is None:
                    return None
                P = P[::-1]; w = w[::-1]
            trace.append((name, P, w))
        fails = []
        reads = [i for i, (n, v) in enumerate(ops) if n in ('gP', 'gW', 'gPw')]
        rpos = iter(reads)

        def rd(name, val):
            if val is None:
                return
            i = next(rpos)
            _, P_, w_ = trace[i]
            hist = " ".join(o[0] for o in ops[:i + 1])
            if name == 'gP' and val != P_:
                fails.append("after [%s] ctrlpts is not the unweighted control points (stale or wrong)" % hist)
            if name == 'gW' and val != w_:
                fails.append("after [%s] weights is not the weights vector (stale or wrong)" % hist)
            if name == 'gPw' and val != [[x * wi for x in p] + [wi] for p, wi in zip(P_, w_)]:
                fails.append("after [%s] ctrlptsw is not (ctrlpts * weight, weight)" % hist)
        o = run_views(d, rd)
        if fails:
            return fails[0]
        # final relation between the three views as they are read now
        Pf, wf, Pwf = o.ctrlpts, o.weights, o.ctrlptsw
        if [list(p) for p in Pwf] != [[x * wi for x in p] + [wi] for p, wi in zip(Pf, wf)] or len(Pf) != len(Pwf) or len(wf) != len(Pwf):
            return "after [%s] ctrlptsw != combine(ctrlpts, weights)" % " ".join(o_[0] for o_ in ops)
        return None
    if k == 'gridw':
        Gp = grid_points(d['sx'], d['sy'], d['nu'], d['nv'], d['z'])
        n = (d['nu'] + 1) * (d['nv'] + 1); lv = d['nv'] + 1
        ops = d['ops']
        wtrace = []
        w = [F(1)] * n
        for name, val in ops:
            if name == 'w':
                w = list(val)
            elif name == 's':
                w = [val] * n
            wtrace.append(w)
        reads = iter([i for i, o in enumerate(ops) if o[0] == 'g'])
        fails = []

        def rd(g):
            i = next(reads)
            ww = wtrace[i]
            want = [[[x * ww[j + a * lv] for x in Gp[a][j]] + [ww[j + a * lv]] for j in range(lv)] for a in range(d['nu'] + 1)]
            if g != want:
                where = [(a, j) for a in range(len(want)) for j in range(lv) if a >= len(g) or j >= len(g[a]) or g[a][j] != want[a][j]][0]
                fails.append("GridWeighted.grid after [%s]: point [%d][%d] is not the grid point times its own weight %s"
                             % (" ".join(o[0] for o in ops[:i + 1]), where[0], where[1], fr(ww[where[1] + where[0] * lv])))
        run_grid(d, rd)
        return fails[0] if fails else None
    if k == 'b2n':
        sh, us = d['sh'], d['us']
        o = build_shape(sh, False)
        r = convert.bspline_to_nurbs(o)
        if not r.rational:
            return "bspline_to_nurbs result is not rational"
        if list(r.weights) != [1] * len(sh['P']) or [list(p) for p in r.ctrlpts] != sh['P']:
            return "bspline_to_nurbs: weights are not all 1 / control points changed"
        if list(ev(r, us)) != list(ev(o, us)):
            return "bspline_to_nurbs result evaluates to a different point at %s" % show_list(us)
        with contextlib.redirect_stdout(io.StringIO()):
            b = convert.nurbs_to_bspline(r)
        if b is r or b.rational or [list(p) for p in b.ctrlpts] != sh['P'] or list(ev(b, us)) != list(ev(o, us)):
            return "nurbs_to_bspline(bspline_to_nurbs(shape)) is not the shape"
        if sh['kind'] == 'C':
            same = (b.degree == o.degree and list(b.knotvector) == list(o.knotvector))
        else:
            same = all(getattr(b, 'degree_' + a) == getattr(o, 'degree_' + a) and list(getattr(b, 'knotvector_' + a)) == list(getattr(o, 'knotvector_' + a))
                       and getattr(b, 'ctrlpts_size_' + a) == getattr(o, 'ctrlpts_size_' + a) for a in NAMES[:len(sh['deg'])])
        if not same:
            return "conversion changed degree / knot vector / sizes"
        return None
    if k == 'n2b':
        sh, us = d['sh'], d['us']
        o = build_shape(sh, True)
        with contextlib.redirect_stdout(io.StringIO()):
            r = convert.nurbs_to_bspline(o) if d['tol'] is None else convert.nurbs_to_bspline(o, tol=q(d['tol']))
        if all(x == 1 for x in sh['w']):
            if r is o or r.rational:
                return "nurbs_to_bspline does not convert a shape whose weights are all 1"
            if list(ev(r, us)) != list(ev(o, us)) or [list(p) for p in r.ctrlpts] != sh['P']:
                return "nurbs_to_bspline of a unit-weight shape evaluates to a different point"
        elif r is not o:
            tol = TOL_N2B if d['tol'] is None else d['tol']
            if any(abs(x - 1) > tol for x in sh['w']):
                return "nurbs_to_bspline drops weights further than its tolerance from 1"
        return None
    if k == 'scale':
        sh, us = d['sh'], d['us']
        a = build_shape(sh, True)
        b = build_shape(sh, True, weights=[d['c'] * x for x in sh['w']])
        if list(ev(a, us)) != list(ev(b, us)):
            return "multiplying all weights by %s moves the point at %s" % (fr(d['c']), show_list(us))
        if [list(p) for p in b.ctrlpts] != sh['P']:
            return "multiplying all weights changed the unweighted control points"
        return None
    return None


def oracle_malformed(c):
    """error branch: what must raise"""
    d = c.data
    if c.kind == 'gridw':
        n = (d['nu'] + 1) * (d['nv'] + 1)
        bad = [o for o in d['ops'] if (o[0] == 'w' and (len(o[1]) != n or any(x <= 0 for x in o[1]))) or (o[0] == 's' and o[1] <= 0)]
        if bad:
            try:
                run_grid(d, lambda g: None)
            except Exception:
                return None
            return "GridWeighted.weight accepts %s (a non-positive weight / wrong length)" % (
                show_list(bad[0][1]) if bad[0][0] == 'w' else fr(bad[0][1]))
    return None


# ---------------------------------------------------------------- findings
def classify(c, why):
    if c.kind == 'gridw' and ('GridWeighted' in why):
        return 'F-09'
    # F-12a: a read (cache fill) before `reverse`; everything read or derived from the caches afterwards is off
    if c.kind == 'views' and why.startswith('after [') and ' rev' in why.split(']')[0]:
        names = why.split(']')[0][len('after ['):].split()
        i = names.index('rev')
        if any(n in ('gP', 'gW') for n in names[:i]):
            return 'F-12a'
    return None


def witness(fid):
    if fid == 'F-09':
        from geomdl import CPGen
        g = CPGen.GridWeighted(q(1), q(2)); g.generate(1, 2); g.weight = qs([1, 2, 3, 4, 5, 6])
        return "grid[0][1] has weight %s, its own weight is 2" % fr(g.grid[0][1][-1]) if g.grid[0][1][-1] != 2 else None
    if fid == 'F-12a':
        from geomdl import NURBS
        o = NURBS.Curve(); o.degree = 2
        o.ctrlptsw = qpts([[0, 0, 1], [2, 6, 2], [1, 0, F(1, 2)]]); o.knotvector = qs([0, 0, 0, 1, 1, 1])
        before = [list(p) for p in o.ctrlpts]
        o.reverse()
        return "ctrlpts unchanged by reverse after a read" if [list(p) for p in o.ctrlpts] == before else None
    return None
