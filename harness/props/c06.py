"""C06  Removing a removable knot is exact and inverts insertion."""
from fractions import Fraction as F
from core import Case, q, qs, fr, show_list, show_pts
import gen as G
import shapes as S
import knotops as KO

PID = 'C06'
FLOAT_KINDS = {'ins-rem', 'ins-rem-method'}      # float-mode companion; 'refine-rem' asks for the removal of a midpoint the harness computes exactly, which in doubles need not be bit-identical to the refined knot
FLOAT_TOL = 1e-7
STATS = G.STATS
PARTIAL = [
    "proved in Lean (Props/C06.lean, every degree / position / prior multiplicity / count): r insertions of a knot followed "
    "by t <= r removals (span k+r and multiplicity s+r, which are what the library's searches return) give exactly the "
    "control points of r-t insertions (t = r: the original ones) for curves, both directions of surfaces and all three "
    "directions of volumes; sizes and knot vectors drop by the count; evaluated points are unchanged; object-level "
    "insert_knot / remove_knot round trip for curves, surfaces and volumes (one direction per call). NOT proved: knots produced by refinement, or inserted knots after "
    "which OTHER knots were inserted, i.e. 'whenever removable at all' (needs uniqueness of B-spline coefficients / "
    "linear independence); these are checked by the exact oracle and the correspondence only",
    "object-level (Shape) round trip removeKnot (insertKnot S ...).1 ... = (S, true), the partial version (r in, t <= r out = r - t in) and the evaluated-point corollary are proved for curves, for either direction of a surface and for any direction of a volume (surface_insert_then_remove, volume_insert_then_remove, *_insert_r_remove_t_object, *_remove_after_insert_preserves_points) when the call requests ONE direction (OnlyDir); insert in several directions followed by removal in several directions is not proved (the removal of the first direction then runs on a net refined in the others: needs the commutation of insertion in one direction with removal in another)",
    "volumes: one removability flag is computed from the first iso-curve (as the code does); the model decides per iso-curve, so only removable knots are generated for volumes",
]


def _req(rng, d):
    """insert u r times in one direction, then remove it t <= r times"""
    nd = len(S.dirs(d))
    i = rng.randrange(nd)
    p, kv, n = S.dirs(d)[i]
    interior = sorted(set(kv[p + 1:n]))
    cand = [x for x in interior if sum(1 for y in kv if y == x) < p]
    if cand and rng.random() < .4:
        u = rng.choice(cand); G.count('rem_param', 'on-knot')
    else:
        u = kv[p] + (kv[n] - kv[p]) * F(rng.randint(1, 99), 100); G.count('rem_param', 'in-span')
    s = sum(1 for x in kv if x == u)
    if s >= p:
        return None
    r = rng.randint(1, p - s)
    t = rng.randint(1, r)
    G.count('rem_counts', (r, t))
    prm = [None] * nd; prm[i] = u
    nr = [0] * nd; nr[i] = r
    nt = [0] * nd; nt[i] = t
    return i, prm, nr, nt


def gen(rng, tier):
    out = []
    n = 110 if tier == 'quick' else 1500
    while len(out) < n:
        d = KO.rand_shape(rng)
        rq = _req(rng, d)
        if rq is None:
            continue
        i, prm, nr, nt = rq
        kind = rng.choice(['ins-rem', 'ins-rem', 'ins-rem-method'])
        op = 'ops' if kind == 'ins-rem' else 'opsm'
        line = "%s %s %s I %s %s 1 R %s %s 1" % (op, KO.KIND[d['kind']], S.args(d), KO.opt(prm), ",".join(map(str, nr)),
                                                 KO.opt(prm), ",".join(map(str, nt)))
        out.append(Case(kind, line, dict(shape=d, dir=i, prm=prm, nr=nr, nt=nt)))
    # volumes through the METHOD interface, two copies in one direction (keyword plumbing per direction)
    for _ in range(9 if tier == 'quick' else 90):
        d = S.rand_volume(rng, maxp=3, max_interior=1)
        cand = [i for i, (p, kv, n_) in enumerate(S.dirs(d)) if p >= 2]
        if not cand:
            continue
        i = rng.choice(cand)
        p, kv, n_ = S.dirs(d)[i]
        u = kv[p] + (kv[n_] - kv[p]) * F(rng.randint(1, 99), 100)
        if u in kv:
            continue
        prm = [None] * 3; prm[i] = u
        nr = [0] * 3; nr[i] = 2
        nt = [0] * 3; nt[i] = 2
        line = "opsm v %s I %s %s 1 R %s %s 1" % (S.args(d), KO.opt(prm), ",".join(map(str, nr)), KO.opt(prm), ",".join(map(str, nt)))
        out.append(Case('ins-rem-method', line, dict(shape=d, dir=i, prm=prm, nr=nr, nt=nt), tags=('volume-method',)))
    # several directions in ONE call (surfaces and volumes): the second direction must see the net
    # the first one produced
    for _ in range(14 if tier == 'quick' else 160):
        d = S.rand_surface(rng, maxp=3, max_interior=2) if rng.random() < .7 else S.rand_volume(rng, maxp=2, max_interior=1)
        nd = len(S.dirs(d))
        prm = [None] * nd; nr = [0] * nd; nt = [0] * nd
        dirs_ = rng.sample(range(nd), rng.randint(2, nd))
        for i in dirs_:
            p, kv, n_ = S.dirs(d)[i]
            u = kv[p] + (kv[n_] - kv[p]) * F(rng.randint(1, 99), 100)
            s = sum(1 for x in kv if x == u)
            if s >= p:
                continue
            r = rng.randint(1, min(2, p - s))
            prm[i] = u; nr[i] = r; nt[i] = r if rng.random() < .8 else rng.randint(1, r)
        if sum(1 for x in prm if x is not None) < 2:
            continue
        kind = 'ins-rem' if (d['kind'] == 'volume' or rng.random() < .6) else 'ins-rem-method'
        op = 'ops' if kind == 'ins-rem' else 'opsm'
        line = "%s %s %s I %s %s 1 R %s %s 1" % (op, KO.KIND[d['kind']], S.args(d), KO.opt(prm), ",".join(map(str, nr)),
                                                 KO.opt(prm), ",".join(map(str, nt)))
        out.append(Case(kind, line, dict(shape=d, dir=[i for i in range(nd) if prm[i] is not None][0], prm=prm, nr=nr, nt=nt), tags=('multi-dir',)))
    # removal after refinement (curves and surfaces): remove every copy of one refined knot
    m = 15 if tier == 'quick' else 200
    k = 0
    while k < m:
        d = S.rand_curve(rng, maxp=4) if rng.random() < .6 else S.rand_surface(rng, maxp=3, max_interior=1)
        nd = len(S.dirs(d))
        i = rng.randrange(nd)
        p, kv, n = S.dirs(d)[i]
        ks = sorted(set(kv[p:n + 1]))
        mids = [(a + b) / 2 for a, b in zip(ks, ks[1:])]
        u = rng.choice(mids)
        dens = [0] * nd; dens[i] = 1
        prm = [None] * nd; prm[i] = u
        nt = [0] * nd; nt[i] = rng.randint(1, p)
        line = "ops %s %s F %s R %s %s 1" % (KO.KIND[d['kind']], S.args(d), ",".join(map(str, dens)), KO.opt(prm), ",".join(map(str, nt)))
        out.append(Case('refine-rem', line, dict(shape=d, dir=i, prm=prm, dens=dens, nt=nt)))
        k += 1
    # a knot that is NOT removable (the count must still drop; points may change): correspondence only
    for _ in range(10 if tier == 'quick' else 120):
        d = S.rand_curve(rng, maxp=4, max_interior=3) if rng.random() < .7 else S.rand_surface(rng, maxp=3, max_interior=2)
        nd = len(S.dirs(d))
        i = rng.randrange(nd)
        p, kv, n = S.dirs(d)[i]
        interior = sorted(set(kv[p + 1:n]))
        if not interior:
            continue
        u = rng.choice(interior)
        prm = [None] * nd; prm[i] = u
        nt = [0] * nd; nt[i] = 1
        line = "ops %s %s R %s %s 1" % (KO.KIND[d['kind']], S.args(d), KO.opt(prm), ",".join(map(str, nt)))
        out.append(Case('rem-only', line, dict(shape=d, dir=i, prm=prm, nt=nt)))
    return out


def _run(c, o):
    from geomdl import operations
    import io, contextlib
    d = c.data['shape']
    qp = [None if x is None else q(x) for x in c.data['prm']]
    if c.kind in ('ins-rem',):
        operations.insert_knot(o, qp, list(c.data['nr']))
        mid = S.from_obj(o)
        operations.remove_knot(o, qp, list(c.data['nt']))
        return mid
    if c.kind == 'ins-rem-method':
        i = c.data['dir']
        name = 'uvw'[i]
        with contextlib.redirect_stdout(io.StringIO()):
            if d['kind'] == 'curve':
                o.insert_knot(qp[0], num=c.data['nr'][0])
                mid = S.from_obj(o)
                o.remove_knot(qp[0], num=c.data['nt'][0])
            else:
                act = [k for k in range(len(qp)) if qp[k] is not None]
                kwi = {}; kwr = {}
                for k in act:
                    kwi['uvw'[k]] = qp[k]; kwi['num_' + 'uvw'[k]] = c.data['nr'][k]
                    kwr['uvw'[k]] = qp[k]; kwr['num_' + 'uvw'[k]] = c.data['nt'][k]
                o.insert_knot(**kwi)
                mid = S.from_obj(o)
                o.remove_knot(**kwr)
        return mid
    if c.kind == 'refine-rem':
        operations.refine_knotvector(o, list(c.data['dens']))
        mid = S.from_obj(o)
        operations.remove_knot(o, qp, list(c.data['nt']))
        return mid
    if c.kind == 'rem-only':
        operations.remove_knot(o, qp, list(c.data['nt']))
        return None
    raise ValueError(c.kind)


def impl(c):
    o = S.build(c.data['shape'])
    _run(c, o)
    return KO.show_shape(S.from_obj(o))


def oracle(c):
    d = c.data['shape']
    o = S.build(d)
    before = S.from_obj(o)
    try:
        mid = _run(c, o)
    except Exception as e:
        return "raised %s: %s" % (type(e).__name__, e)
    after = S.from_obj(o)
    i = c.data['dir']
    t = c.data['nt'][i]
    if c.kind == 'rem-only':
        # documented behaviour kept by the library's own tests: the counts always drop
        p, kv, n = S.dirs(before)[i]
        p2, kv2, n2 = S.dirs(after)[i]
        if len(kv2) != len(kv) - t or n2 != n - t:
            return "removal did not reduce knot vector / net by %d" % t
        return None
    for k in range(len(c.data['prm'])):
        if c.data['prm'][k] is None or not c.data['nt'][k]:
            # untouched direction: knot vector and size as they were after the insertion
            if S.dirs(after)[k][1] != S.dirs(mid)[k][1] or S.dirs(after)[k][2] != S.dirs(mid)[k][2]:
                return "direction %d was not selected for removal but changed" % k
            continue
        tk = c.data['nt'][k]
        p, kvm, nm = S.dirs(mid)[k]
        p2, kv2, n2 = S.dirs(after)[k]
        u = c.data['prm'][k]
        want = list(kvm)
        for _ in range(tk):
            want.remove(u)
        if kv2 != want:
            return "knot vector after removal is not the previous one minus %d copies of %s" % (tk, fr(u))
        if n2 != nm - tk:
            return "net size after removal %d, expected %d" % (n2, nm - tk)
    u = c.data['prm'][i]
    why = KO.same_points(before, after, KO.probe_params(mid))
    if why:
        return "insert/refine then remove: " + why
    if c.kind != 'refine-rem' and all(a == b for a, b in zip(c.data['nt'], c.data['nr'])):
        if after['P'] != before['P']:
            k = [a != b for a, b in zip(after['P'], before['P'])].index(True)
            return "inserting %s %d times and removing it %d times does not restore control point %d: %s instead of %s" % (
                fr(u), t, t, k, show_list(after['P'][k]), show_list(before['P'][k]))
    return None
