"""C06  Removing a removable knot is exact and inverts insertion."""
from fractions import Fraction as F
from core import Case, q, qs, fr, show_list, show_pts
import gen as G
import shapes as S
import knotops as KO
import rowsops as RO

PID = 'C06'
FLOAT_KINDS = {'ins-rem', 'ins-rem-method'}      # float-mode companion; 'refine-rem' asks for the removal of a midpoint the harness computes exactly, which in doubles need not be bit-identical to the refined knot
FLOAT_TOL = 1e-7


def FLOAT_FILTER(c):
    """the float-mode companion leaves out insert / remove next to an existing knot (closer than 1e-3): the alphas then have
    denominators of that size and the removal in doubles is ill-conditioned - a deviation above FLOAT_TOL there says nothing about
    the code (exact mode judges these cases; seed 13 / 14 of the sweep after round 7 raised exactly this false alarm)"""
    d = c.data
    try:
        for (p, kv, n), u in zip(S.dirs(d['shape']), d['prm']):
            if u is not None and any(x != u and abs(x - u) < F(1, 1000) for x in kv):
                return False
    except Exception:
        return True
    return True
STATS = G.STATS
PARTIAL = [
    "proved in Lean (Props/C06.lean, every degree / position / prior multiplicity / count): r insertions of a knot followed "
    "by t <= r removals (span k+r and multiplicity s+r, which are what the library's searches return) give exactly the "
    "control points of r-t insertions (t = r: the original ones) for curves, both directions of surfaces and all three "
    "directions of volumes; sizes and knot vectors drop by the count; evaluated points are unchanged; object-level "
    "insert_knot / remove_knot round trip for curves, surfaces and volumes (one direction per call). ALSO PROVED (section (U), curves): 'whenever removable at all' - "
    "B-spline control points over a knot vector in which no basis function vanishes on the whole domain are unique (control_points_unique; local "
    "linear independence: C03 basisFuns_linearly_independent, C02 span_polynomial_determines_control_points), hence if SOME well-formed curve Q over "
    "the knot vector with r copies of the knot taken out has the same points (RemovableKnot: nothing assumed about how the curve was produced - "
    "refinement, insertions in any order), the curve at hand is the r-fold insertion into Q (removable_knot_is_inserted) and A5.8 as coded returns "
    "exactly Q, or the net of r-t insertions for t <= r removals (remove_removable_knot, remove_removable_knot_t), the evaluated points are unchanged "
    "(remove_removable_knot_preserves_points) and operations.remove_knot on the curve object does the same with the library's own searches "
    "(curve_remove_removable_knot); surfaces per direction: when every iso-curve of the direction is removable the gather / A5.8 / scatter returns "
    "exactly the witness net and the reduced size (surface_v/u_remove_removable_knot); instantiated on a knot produced by refinement and followed by "
    "other insertions. ALSO PROVED (section (T), tensor products): the control net of a B-spline SURFACE / VOLUME over knot vectors in which no basis function vanishes "
    "on its whole domain is unique (surface_control_net_unique, volume_control_net_unique, *_object_control_net_unique; global linear independence of "
    "the basis on its domain, basis_functions_independent_on_domain, applied once per direction); hence a knot that is removable from the surface / "
    "volume AS A SURFACE / VOLUME (SurfRemovableU/V, VolRemovableU/V/W: some net over the reduced knot vector has the same surface / volume points) is "
    "removable from every iso-curve of its direction (surface_u/v_removable_isocurves_removable, volume_removable_isocurves_removable) and the gather / "
    "A5.8 / scatter returns exactly the witness net and the reduced size (surface_u/v_remove_knot_removable_from_surface, "
    "volume_remove_knot_removable_from_volume - for volumes both the per-iso-curve model mapVol and the list-of-rows branch mapVolRows the code runs, "
    "since a removable knot passes the removability test of every step: removable_knot_passes_every_test, volume_rows_remove_removable_knot); "
    "per-iso-curve hypothesis for volumes in all three directions, and partial removal t <= r for surfaces and volumes = r-t insertions into the witness "
    "(volume_u/v/w_remove_removable_knot, surface_u/v_remove_removable_knot_t); OBJECT LEVEL with the library's own span / multiplicity searches: a "
    "surface / volume Shape S from which ub is removable r times (witness Shape T; SurfRemovableObj / VolRemovableObj, also obtainable from the knot "
    "positions on S: surface/volume_removable_object_of_knot_positions) IS insertKnot of T (surface/volume_removable_knot_is_inserted), removeKnot S with "
    "count 1 <= t <= r returns the object of r-t insertions into T, T itself for t = r, evaluated points unchanged "
    "(surface/volume_remove_removable_knot_object, *_object_points), and for volumes the rows branch removeKnotVolRows does the same "
    "(volume_remove_removable_knot_object_rows); knot insertion preserves AllActive when the parameter is strictly right of the left end of the domain "
    "(insertion_preserves_allActive; refuted without that proviso on an unclamped knot vector: insertion_preserves_allActive_needs_interior), so the "
    "activity hypothesis may be checked on the reduced knot vector (removableKnot_of_reduced_active); all instantiated on explicit surfaces / volumes "
    "over Q. ALSO PROVED (section (M)): 'removable at all' when ONE remove_knot call requests SEVERAL directions - a surface / volume S from which the knots of a list "
    "(dir, ub, r) with distinct directions, in ANY order, are removable one after the other as a surface / volume (SurfRemChain / VolRemChain: a chain of SurfRemovableObj / "
    "VolRemovableObj links, last witness T) IS insert_knot of T with all these directions requested in one call, and one remove_knot call with counts t_d <= r_d returns "
    "insert_knot of T with the counts r_d - t_d, T itself for t = r, evaluated points those of T (surface/volume_remove_removable_knots_several_directions(_points); "
    "instantiated on an explicit 3 x 6 surface from which 1/2 (u, once) and 1/4 (v, twice) are removable: one call returns the 2 x 4 witness). NOT proved: removable knots in "
    "a curve / surface / volume some of whose basis functions vanish on the whole domain (a knot of multiplicity > p+1, or an unclamped knot vector "
    "refined at the left end of its domain: there the control points are NOT unique); these are checked by the exact oracle and the correspondence only",
    "object-level (Shape) round trip: for curves, and for surfaces / volumes with ONE requested direction (OnlyDir), removeKnot (insertKnot S ...).1 ... = (S, true), the partial version (r in, t <= r out = r - t in) and the evaluated-point corollary (surface_insert_then_remove, volume_insert_then_remove, *_insert_r_remove_t_object, *_remove_after_insert_preserves_points); SEVERAL DIRECTIONS IN ONE CALL EACH (section (M), PROVED): insert_knot requesting any subset of the directions of a surface / volume (every requested direction RoundOk: RoundCallOk) followed by remove_knot with the same parameters and counts t_d <= r_d (0 = leave the direction alone) returns exactly what insert_knot with the counts r_d - t_d returns, the original object for t = r, every evaluated point unchanged (surface/volume_insert_then_remove_several_directions(_same), *_remove_several_directions_preserves_points); the removal of the first direction runs on a net refined in the others: A5.1 is a linear map of the control polygon with coefficients from the knots only (knot_insertion_is_linear), hence the direction steps of insert_knot along different directions commute as objects (surface/volume_insert_directions_commute: gather / scatter of two directions commute), the step is moved through the later ones, cancelled by the one-direction theorem and the rest moved back; kernel-checked run on the example surface (both directions, counts (1,2) in, (1,1) out), replayed on the implementation (stream ins-rem, tag lean-witness). For volumes the several-direction theorems are about the per-iso-curve model removeKnot (= the rows branch on inserted knots, see the next item)",
    "volumes, list-of-rows branch of helpers.knot_removal: MODELLED as coded (knotRemovalRows: sweep over whole rows, ONE removability flag per step from the FIRST point of the rows, and the object sharing between temp and ctrlpts_new - temp[last-first+2] = ctrlpts_new[last+1] stores the list itself, which the sweep of the next step writes into; streams rem-rows (inserted / random / only-first-removable / first-not-removable rows, 1..s copies, and the three Lean witnesses) and rem-vol-rows against the real helper called with rows and against operations.remove_knot on volumes, removable or not). PROVED: if every iso-curve passes the removability test at every step (Rows.AllRemovable, decidable; true after insertion: inserted_knots_all_removable) the rows branch returns exactly the per-iso-curve results (knotRemovalRows_isocurve_of_all_removable, knotRemovalRows_is_transposed_knotRemoval, mapVolRows_remove_eq_mapVol, removeKnotVolRows_is_removeKnotDir, volume_u/v/w_rows_insert_r_remove_t); for ONE removal it does so on every iso-curve whose flag equals the first iso-curve's flag (knotRemovalRows_one_removal_isocurve_of_equal_flags); rows stay rectangular for any input. REFUTED on concrete witnesses (kernel-decided, replayed on the implementation): the two flag mismatches (knotRemovalRows_refutes_isocurve_when_only_first_removable / _when_first_not_removable) and, for 2+ removals of a knot that is NOT removable, the write through the shared row, which changes a control point even with a single iso-curve (knotRemovalRows_refutes_point_branch_on_shared_row: rows branch 8, point branch 1). NOT proved: agreement for 2+ removals when some step finds the knot not removable (there the two branches of the CODE genuinely differ); the object-level model removeKnotDir / removeKnot keeps deciding per iso-curve, so the operation-level streams ins-rem* still generate only removable knots for volumes - the rows model (rowsvol) is the one compared on unremovable volume knots",
    "knotRemovalRows_isocurve_of_all_removable / knotRemovalRows_one_removal_isocurve_of_equal_flags carry the rectangular-rows guard of the code / driver as hypothesis (not used by the proofs)",
    "the object-level theorems that take the param / num lists of insert_knot / remove_knot (surface/volume_insert_then_remove, *_remove_after_insert_preserves_points, "
    "*_insert_r_remove_t_object, *_remove_removable_knot_object(_points)) carry the list guard of the code as hypotheses hpl (pdim <= len(param)), hnl (len(num) = pdim); the "
    "driver ops I / R answer ERR exactly where the code raises (Driver/Shape.lean callListsOk: param shorter than pdim -> IndexError; with check_num len(num) != pdim; without "
    "check_num a num entry missing where param[i] is not None), a LONGER param list is accepted by both (surplus never read) - diagnostic correspondence stream list-lengths; "
    "the theorems do not speak about surplus entries",
    "which span search the object-level models use (statement audit 5, I3): insertKnotDir / insertKnotDirCoded / removeKnotDir / a54Init(Rows) and the volume-rows wrappers call findSpanLinear, the search WITHOUT the step back of the F-01b repair (the code's find_span_linear = findSpanLinearR); they differ only at u = U_n of a knot vector with an empty last domain span (U_{n-1} = U_n), which every theorem excludes (KvWF.last, DirReqOk.hi) - there the models are NOT the code (real insert_knot(c,[5],[1]) on U = [0,1,2,3,4,5,5,6,7,8], degree 3, uses span 4, the model span 5: different nets) and the driver ops ins / insm / insc / ops I,R / rowsvol I,R answer OUT: the model line is not compared (core.py, evidence correspondence.outside_model), the oracle alone judges; observation: remove_knot at u = U_n of such a vector raises ZeroDivisionError (U = [0,1,2,3,4,5,5,6,7,8], degree 3, remove 5) or returns a damaged knot vector (U = [0,0,0,1/2,1,1,1,1], degree 2, remove 1 -> 0,0,0,1,1,1,1) - not an interior knot, outside the property",
]


def _req(rng, d):
    """insert u r times in one direction, then remove it t <= r times"""
    nd = len(S.dirs(d))
    i = rng.randrange(nd)
    p, kv, n = S.dirs(d)[i]
    interior = sorted(set(kv[p + 1:n]))
    cand = [x for x in interior if sum(1 for y in kv if y == x) < p]
    if cand and rng.random() < .4:
        u = rng.choice(cand); G.count('rem_param', 'on-knot')
    elif interior and rng.random() < .2:
        # a DISTINCT knot next to an existing one (closer than 1e-3, further than the library's 1e-7): the multiplicity search must
        # not merge them
        x = rng.choice(interior)
        u = x + rng.choice([-1, 1]) * rng.choice([F(1, 2500), F(1, 300000)])
        G.count('rem_param', 'next-to-a-knot')
    else:
        u = kv[p] + (kv[n] - kv[p]) * F(rng.randint(1, 99), 100); G.count('rem_param', 'in-span')
    s = sum(1 for x in kv if x == u)
    if s >= p:
        return None
    r = rng.randint(1, p - s)
    t = rng.randint(1, r)
    G.count('rem_counts', (r, t))
    prm = [None] * nd; prm[i] = u
    nr = [0] * nd; nr[i] = r
    nt = [0] * nd; nt[i] = t
    return i, prm, nr, nt


def gen(rng, tier):
    out = []
    n = 110 if tier == 'quick' else 1500
    while len(out) < n:
        d = KO.rand_shape(rng)
        rq = _req(rng, d)
        if rq is None:
            continue
        i, prm, nr, nt = rq
        kind = rng.choice(['ins-rem', 'ins-rem', 'ins-rem-method'])
        op = 'ops' if kind == 'ins-rem' else 'opsm'
        line = "%s %s %s I %s %s 1 R %s %s 1" % (op, KO.KIND[d['kind']], S.args(d), KO.opt(prm), ",".join(map(str, nr)),
                                                 KO.opt(prm), ",".join(map(str, nt)))
        out.append(Case(kind, line, dict(shape=d, dir=i, prm=prm, nr=nr, nt=nt)))
    # the parameter value 0 (falsy in Python) strictly inside an un-normalised domain, inserted and removed again: a parameter
    # like any other (every kind of shape in turn)
    zc = 0
    for _try in range(4000):
        if zc >= (4 if tier == 'quick' else 40):
            break
        d = KO.rand_shape(rng)
        ds_ = S.dirs(d)
        i = zc % len(ds_)
        p, kv, n_ = ds_[i]
        if not (kv[p] < 0 < kv[n_]) or sum(1 for x in kv if x == 0) >= p:
            continue
        s0 = sum(1 for x in kv if x == 0)
        r = rng.randint(1, p - s0)
        nd_ = len(ds_)
        prm = [None] * nd_; prm[i] = F(0)
        nr = [0] * nd_; nr[i] = r
        line = "ops %s %s I %s %s 1 R %s %s 1" % (KO.KIND[d['kind']], S.args(d), KO.opt(prm), ",".join(map(str, nr)),
                                                KO.opt(prm), ",".join(map(str, nr)))
        out.append(Case('ins-rem', line, dict(shape=d, dir=i, prm=prm, nr=nr, nt=list(nr)), tags=('zero-parameter',)))
        zc += 1
    # degree mix-up probes (deterministic in what they cover): every direction i of a surface / volume in turn, ANOTHER direction
    # has a degree >= degree_i + 2, the knot goes into the FIRST span of direction i (a span / multiplicity search run with the
    # wrong direction's degree starts too far right and only shows there), one copy in, one copy out
    for turn in range(5 if tier == 'quick' else 50):
        kind_ = 'volume' if turn % 5 < 3 else 'surface'
        i = turn % 5 if kind_ == 'volume' else turn % 5 - 3
        d = None
        for _try in range(400):
            c_ = S.rand_volume(rng, maxp=3, max_interior=2) if kind_ == 'volume' else S.rand_surface(rng, maxp=4, max_interior=3)
            ds_ = S.dirs(c_)
            p, kv, n_ = ds_[i]
            if all(q_[0] >= p + 2 for j_, q_ in enumerate(ds_) if j_ != i) and n_ > p + 1:      # EVERY other direction (whichever degree is mixed in)
                d = c_
                break
        if d is None:
            continue
        p, kv, n_ = S.dirs(d)[i]
        u = kv[p] + (kv[p + 1] - kv[p]) * F(rng.randint(1, 9), 10)
        nd_ = len(S.dirs(d))
        prm = [None] * nd_; prm[i] = u
        nr = [0] * nd_; nr[i] = 1
        line = "ops %s %s I %s %s 1 R %s %s 1" % (KO.KIND[d['kind']], S.args(d), KO.opt(prm), ",".join(map(str, nr)),
                                                KO.opt(prm), ",".join(map(str, nr)))
        out.append(Case('ins-rem', line, dict(shape=d, dir=i, prm=prm, nr=nr, nt=list(nr)), tags=('degree-mixup-probe',)))
    # volumes through the METHOD interface, two copies in one direction (keyword plumbing per direction)
    for _ in range(9 if tier == 'quick' else 90):
        d = S.rand_volume(rng, maxp=3, max_interior=1)
        cand = [i for i, (p, kv, n_) in enumerate(S.dirs(d)) if p >= 2]
        if not cand:
            continue
        i = rng.choice(cand)
        p, kv, n_ = S.dirs(d)[i]
        u = kv[p] + (kv[n_] - kv[p]) * F(rng.randint(1, 99), 100)
        if u in kv:
            continue
        prm = [None] * 3; prm[i] = u
        nr = [0] * 3; nr[i] = 2
        nt = [0] * 3; nt[i] = 2
        line = "opsm v %s I %s %s 1 R %s %s 1" % (S.args(d), KO.opt(prm), ",".join(map(str, nr)), KO.opt(prm), ",".join(map(str, nt)))
        out.append(Case('ins-rem-method', line, dict(shape=d, dir=i, prm=prm, nr=nr, nt=nt), tags=('volume-method',)))
    # several directions in ONE call (surfaces and volumes): the second direction must see the net
    # the first one produced
    for _ in range(14 if tier == 'quick' else 160):
        d = S.rand_surface(rng, maxp=3, max_interior=2) if rng.random() < .7 else S.rand_volume(rng, maxp=2, max_interior=1)
        nd = len(S.dirs(d))
        prm = [None] * nd; nr = [0] * nd; nt = [0] * nd
        dirs_ = rng.sample(range(nd), rng.randint(2, nd))
        for i in dirs_:
            p, kv, n_ = S.dirs(d)[i]
            u = kv[p] + (kv[n_] - kv[p]) * F(rng.randint(1, 99), 100)
            s = sum(1 for x in kv if x == u)
            if s >= p:
                continue
            r = rng.randint(1, min(2, p - s))
            prm[i] = u; nr[i] = r; nt[i] = r if rng.random() < .8 else rng.randint(1, r)
        if sum(1 for x in prm if x is not None) < 2:
            continue
        kind = 'ins-rem' if (d['kind'] == 'volume' or rng.random() < .6) else 'ins-rem-method'
        op = 'ops' if kind == 'ins-rem' else 'opsm'
        line = "%s %s %s I %s %s 1 R %s %s 1" % (op, KO.KIND[d['kind']], S.args(d), KO.opt(prm), ",".join(map(str, nr)),
                                                 KO.opt(prm), ",".join(map(str, nt)))
        out.append(Case(kind, line, dict(shape=d, dir=[i for i in range(nd) if prm[i] is not None][0], prm=prm, nr=nr, nt=nt), tags=('multi-dir',)))
    # the Lean witness of Props/C06 section (M): exSurfQ, both directions in one call, counts (1, 2) in, (1, 1) / (1, 2) out
    exs = dict(kind='surface', rat=False, pu=1, pv=2, kvu=[F(0), F(0), F(1), F(1)],
               kvv=[F(0), F(0), F(0), F(1, 2), F(1), F(1), F(1)], su=2, sv=4, dim=3,
               P=[[F(x) for x in pt] for pt in [[0, 0, 0], [0, 1, 1], [0, 2, 0], [0, 3, 1], [1, 0, 0], [1, 1, 2], [1, 2, 0], [1, 3, 1]]])
    for nt in ([1, 1], [1, 2], [0, 2]):
        prm = [F(1, 2), F(1, 4)]; nr = [1, 2]
        line = "ops %s %s I %s %s 1 R %s %s 1" % (KO.KIND['surface'], S.args(exs), KO.opt(prm), ",".join(map(str, nr)),
                                                KO.opt(prm), ",".join(map(str, nt)))
        out.append(Case('ins-rem', line, dict(shape=exs, dir=0, prm=prm, nr=nr, nt=list(nt)), tags=('multi-dir', 'lean-witness')))
    # list-lengths (diagnostic correspondence, audit 4 H5): the param / num lists of insert_knot / remove_knot with
    # other lengths than the number of parametric directions.  The code checks len(num) only (and only with
    # check_num); param[i] is read for every direction (IndexError when too short), a LONGER param list is accepted;
    # without check_num a longer num list is accepted and a shorter one raises only where param[i] is not None.
    # The driver must answer ERR exactly where the code raises.
    k = 0
    while k < (40 if tier == 'quick' else 400):
        d = KO.rand_shape(rng)
        rq = _req(rng, d)
        if rq is None:
            continue
        i, prm, nr, nt = rq
        nd = len(prm)
        which = rng.choice(['I', 'R'])
        chk = rng.choice([1, 1, 0])
        mode = rng.choice(['param-longer', 'param-longer', 'num-longer', 'num-shorter', 'param-shorter', 'both-longer'])
        pv = list(prm); nv = list(nr if which == 'I' else nt)
        if mode in ('param-longer', 'both-longer'):
            pv = pv + [rng.choice([None, F(7), F(1, 3)])]
        if mode in ('num-longer', 'both-longer'):
            nv = nv + [rng.choice([0, 0, 5])]
        if mode == 'num-shorter':
            if nd < 2:
                continue
            nv = nv[:rng.randint(1, nd - 1)]
        if mode == 'param-shorter':
            if nd < 2:
                continue
            pv = pv[:rng.randint(1, nd - 1)]
        pi, ni, pr, nrm = (pv, nv, prm, nt) if which == 'I' else (prm, nr, pv, nv)
        ci, cr = (chk, 1) if which == 'I' else (1, chk)
        G.count('list_lengths', (which, mode, chk))
        line = "ops %s %s I %s %s %d R %s %s %d" % (KO.KIND[d['kind']], S.args(d), KO.opt(pi), ",".join(map(str, ni)), ci,
                                                    KO.opt(pr), ",".join(map(str, nrm)), cr)
        out.append(Case('list-lengths', line, dict(shape=d, pi=pi, ni=ni, ci=ci, pr=pr, nr=nrm, cr=cr), tags=('diagnostic', mode)))
        k += 1
    # removal after refinement (curves and surfaces): remove every copy of one refined knot
    m = 15 if tier == 'quick' else 200
    k = 0
    while k < m:
        d = S.rand_curve(rng, maxp=4) if rng.random() < .6 else S.rand_surface(rng, maxp=3, max_interior=1)
        nd = len(S.dirs(d))
        i = rng.randrange(nd)
        p, kv, n = S.dirs(d)[i]
        ks = sorted(set(kv[p:n + 1]))
        mids = [(a + b) / 2 for a, b in zip(ks, ks[1:])]
        u = rng.choice(mids)
        dens = [0] * nd; dens[i] = 1
        prm = [None] * nd; prm[i] = u
        nt = [0] * nd; nt[i] = rng.randint(1, p)
        line = "ops %s %s F %s R %s %s 1" % (KO.KIND[d['kind']], S.args(d), ",".join(map(str, dens)), KO.opt(prm), ",".join(map(str, nt)))
        out.append(Case('refine-rem', line, dict(shape=d, dir=i, prm=prm, dens=dens, nt=nt)))
        k += 1
    # a knot that is NOT removable (the count must still drop; points may change): correspondence only
    for _ in range(10 if tier == 'quick' else 120):
        d = S.rand_curve(rng, maxp=4, max_interior=3) if rng.random() < .7 else S.rand_surface(rng, maxp=3, max_interior=2)
        nd = len(S.dirs(d))
        i = rng.randrange(nd)
        p, kv, n = S.dirs(d)[i]
        interior = sorted(set(kv[p + 1:n]))
        if not interior:
            continue
        u = rng.choice(interior)
        prm = [None] * nd; prm[i] = u
        nt = [0] * nd; nt[i] = 1
        line = "ops %s %s R %s %s 1" % (KO.KIND[d['kind']], S.args(d), KO.opt(prm), ",".join(map(str, nt)))
        out.append(Case('rem-only', line, dict(shape=d, dir=i, prm=prm, nt=nt), tags=('diagnostic',)))
    # the LIST-OF-ROWS branch of helpers.knot_removal (what operations.remove_knot feeds for volumes), helper
    # level, against `knotRemovalRows`: rows produced by insertion (removable), random rows (not removable;
    # with 2+ copies the sweep writes into a row of ctrlpts_new through `temp`), and rows in which only the
    # FIRST iso-curve / every iso-curve but the first is removable (one flag from the first point of the rows)
    for _ in range(60 if tier == 'quick' else 800):
        p = rng.randint(1, 4)
        mode = rng.choice(['inserted', 'inserted', 'random', 'random', 'first-ok', 'first-bad'])
        if mode == 'random':
            kv, n_, R = RO.rand_rows(rng, p, max_interior=3, max_mult=p)
            interior = sorted(set(kv[p + 1:n_]))
            if not interior:
                continue
            u = rng.choice(interior)
            s = RO.mult(kv, u)
            num = rng.randint(1, s)
        else:
            kv0, n0, R0 = RO.rand_rows(rng, p, max_interior=2, width=rng.randint(2, 4) if mode != 'inserted' else None)
            interior = sorted(set(kv0[p + 1:n0]))
            if interior and rng.random() < .35:
                u = rng.choice(interior)
            else:
                u = kv0[p] + (kv0[n0] - kv0[p]) * F(rng.randint(1, 99), 100)
            s0 = RO.mult(kv0, u)
            if s0 >= p:
                continue
            r = rng.randint(1, p - s0)
            kv, R = RO.insert_rows(p, kv0, R0, u, r)
            n_ = len(R)
            s = s0 + r
            num = rng.randint(1, r)
            if mode in ('first-ok', 'first-bad'):
                # move one affected control point of some iso-curves: those are no longer removable
                k0 = RO.span(kv, p, n_, u)
                row = rng.randint(k0 - p, k0 - s)
                cols = range(1, len(R[0])) if mode == 'first-ok' else [0]
                for cc in cols:
                    R[row][cc] = [x + F(rng.randint(1, 5)) for x in R[row][cc]]
        k = RO.span(kv, p, n_, u)
        G.count('rows_rem', (mode, num))
        out.append(Case('rem-rows', RO.rows_line('rowsrem', p, kv, R, fr(u), num, s, k),
                        dict(p=p, kv=kv, R=R, u=u, num=num, s=s, k=k, mode=mode), tags=((mode,) if mode == 'inserted' else (mode, 'diagnostic'))))
    # the three witnesses of Props/C06.lean (knotRemovalRows_refutes_*): rows branch vs per-iso-curve model
    kvq = [F(0)] * 3 + [F(1, 2)] + [F(1)] * 3
    A_ = [[F(0)], [F(1)], [F(1)], [F(0)]]; B_ = [[F(0)], [F(1)], [F(3)], [F(0)]]
    for tag, cols in (('witness-first-ok', (A_, B_)), ('witness-first-bad', (B_, A_))):
        R = RO.from_columns(list(cols))
        out.append(Case('rem-rows', RO.rows_line('rowsrem', 2, kvq, R, '1/2', 1, 1, 3),
                        dict(p=2, kv=kvq, R=R, u=F(1, 2), num=1, s=1, k=3, mode=tag), tags=(tag,)))
    kv4 = [F(0)] * 5 + [F(1, 2)] * 2 + [F(1)] * 5
    R = [[[F(x)]] for x in (0, 1, 3, -2, 5, 1, 0)]
    out.append(Case('rem-rows', RO.rows_line('rowsrem', 4, kv4, R, '1/2', 2, 2, 6),
                    dict(p=4, kv=kv4, R=R, u=F(1, 2), num=2, s=2, k=6, mode='witness-shared-row'), tags=('witness-shared-row',)))
    # one direction of operations.remove_knot on a volume against the gather / rows-branch / scatter model:
    # after an insertion computed the same way (removable), and on a random volume (not removable)
    for _ in range(24 if tier == 'quick' else 300):
        d = S.rand_volume(rng, maxp=3, max_interior=2, allow_range=rng.random() < .3)
        i = rng.randrange(3)
        p, kv, n_ = S.dirs(d)[i]
        interior = sorted(set(kv[p + 1:n_]))
        if rng.random() < .6:
            u = kv[p] + (kv[n_] - kv[p]) * F(rng.randint(1, 99), 100) if (not interior or rng.random() < .6) else rng.choice(interior)
            s = RO.mult(kv, u)
            if s >= p:
                continue
            r = rng.randint(1, p - s)
            t = rng.randint(1, r)
            reqs = [['I', i, u, r], ['R', i, u, t]]
            G.count('rows_vol_rem', ('inserted', r, t))
        else:
            if not interior:
                continue
            u = rng.choice(interior)
            t = rng.randint(1, RO.mult(kv, u))
            reqs = [['R', i, u, t]]
            G.count('rows_vol_rem', ('random', t))
        line = "rowsvol v %s %s" % (S.args(d), " ".join("%s %d %s %d 1" % (a, b, fr(c_), e_) for a, b, c_, e_ in reqs))
        out.append(Case('rem-vol-rows', line, dict(shape=d, reqs=reqs)))
    return out


def _run(c, o, probe=None):
    from geomdl import operations
    import io, contextlib
    d = c.data['shape']
    if c.kind == 'list-lengths':
        x = c.data
        operations.insert_knot(o, [None if v is None else q(v) for v in x['pi']], list(x['ni']), check_num=bool(x['ci']))
        operations.remove_knot(o, [None if v is None else q(v) for v in x['pr']], list(x['nr']), check_num=bool(x['cr']))
        return None
    qp = [None if x is None else q(x) for x in c.data['prm']]
    if c.kind in ('ins-rem',):
        operations.insert_knot(o, qp, list(c.data['nr']))
        mid = S.from_obj(o)
        if probe: probe(o)
        operations.remove_knot(o, qp, list(c.data['nt']))
        return mid
    if c.kind == 'ins-rem-method':
        i = c.data['dir']
        name = 'uvw'[i]
        with contextlib.redirect_stdout(io.StringIO()):
            if d['kind'] == 'curve':
                o.insert_knot(qp[0], num=c.data['nr'][0])
                mid = S.from_obj(o)
                if probe: probe(o)
                o.remove_knot(qp[0], num=c.data['nt'][0])
            else:
                act = [k for k in range(len(qp)) if qp[k] is not None]
                kwi = {}; kwr = {}
                for k in act:
                    kwi['uvw'[k]] = qp[k]; kwi['num_' + 'uvw'[k]] = c.data['nr'][k]
                    kwr['uvw'[k]] = qp[k]; kwr['num_' + 'uvw'[k]] = c.data['nt'][k]
                o.insert_knot(**kwi)
                mid = S.from_obj(o)
                if probe: probe(o)
                o.remove_knot(**kwr)
        return mid
    if c.kind == 'refine-rem':
        operations.refine_knotvector(o, list(c.data['dens']))
        mid = S.from_obj(o)
        if probe: probe(o)
        operations.remove_knot(o, qp, list(c.data['nt']))
        return mid
    if c.kind == 'rem-only':
        operations.remove_knot(o, qp, list(c.data['nt']))
        return None
    raise ValueError(c.kind)


def _rows_call(c):
    from geomdl import helpers
    x = c.data
    return RO.unq(helpers.knot_removal(x['p'], qs(x['kv']), RO.qrows(x['R']), q(x['u']), num=x['num'], s=x['s'], span=x['k']))


def _vol_rows(c):
    from geomdl import operations
    o = S.build(c.data['shape'])
    for op, i, u, r in c.data['reqs']:
        prm = [None] * 3; prm[i] = q(u)
        nums = [0] * 3; nums[i] = r
        (operations.insert_knot if op == 'I' else operations.remove_knot)(o, prm, nums)
    return o


def impl(c):
    if c.kind == 'rem-rows':
        from core import show_pts2
        return show_pts2(_rows_call(c))
    if c.kind == 'rem-vol-rows':
        return KO.show_shape(S.from_obj(_vol_rows(c)))
    o = S.build(c.data['shape'])
    _run(c, o)
    return KO.show_shape(S.from_obj(o))


def _oracle_rows(c):
    from geomdl import helpers
    x = c.data
    try:
        Q = _rows_call(c)
    except Exception as e:
        return "knot_removal on rows raised %s: %s" % (type(e).__name__, e)
    if len(Q) != len(x['R']) - x['num']:
        return "knot_removal on rows did not drop %d rows" % x['num']
    if x['mode'] != 'inserted':
        return None
    # removable on every iso-curve: the rows branch must return what the point branch returns per iso-curve
    cols = []
    for j in range(len(x['R'][0])):
        col = [[q(v) for v in pt] for pt in RO.column(x['R'], j)]
        cols.append(RO.unq([helpers.knot_removal(x['p'], qs(x['kv']), col, q(x['u']), num=x['num'], s=x['s'], span=x['k'])])[0])
    if Q != RO.from_columns(cols):
        return "knot_removal on a list of rows (every iso-curve removable) differs from knot_removal applied to every iso-curve"
    return None


def _oracle_vol_rows(c):
    d = c.data['shape']
    try:
        o = _vol_rows(c)
    except Exception as e:
        return "raised %s: %s" % (type(e).__name__, e)
    after = S.from_obj(o)
    reqs = c.data['reqs']
    i = reqs[0][1]
    delta = sum(r if op == 'I' else -r for op, _, _, r in reqs)
    if S.dirs(after)[i][2] != S.dirs(d)[i][2] + delta:
        return "net size after the requests is not the old one %+d" % delta
    if reqs[0][0] == 'I':
        mid = dict(d); p, kv, n = S.dirs(d)[i]
        grid = KO.probe_params(d, [[reqs[0][2]] if k == i else [] for k in range(3)])
        why = KO.same_points(d, after, grid)
        if why:
            return "insert then remove (volume): " + why
        if delta == 0 and after['P'] != d['P']:
            return "inserting and removing the same count does not restore the control points"
    return None


def oracle(c):
    if c.kind == 'rem-rows':
        return _oracle_rows(c)
    if c.kind == 'rem-vol-rows':
        return _oracle_vol_rows(c)
    if c.kind == 'list-lengths':
        return None      # malformed / surplus argument lists: outside the property (diagnostic correspondence only: ERR = raise)
    d = c.data['shape']
    o = S.build(d)
    before = S.from_obj(o)
    held = []

    def probe(obj):
        # the list objects that hold the knot vectors before the removal: another holder of the same list (a second
        # direction or a second shape set up from one list with normalize_kv=False) must not see them change
        kvs = [obj.knotvector] if d['kind'] == 'curve' else list(obj.knotvector)
        held.extend((kv, list(kv)) for kv in kvs)
    try:
        mid = _run(c, o, probe)
    except Exception as e:
        return "raised %s: %s" % (type(e).__name__, e)
    after = S.from_obj(o)
    now = [o.knotvector] if d['kind'] == 'curve' else list(o.knotvector)
    for k, (kv, snap) in enumerate(held):
        if kv is not now[k] and list(kv) != snap:
            return ("remove_knot changed, in place, the list object that held knot vector %d before the call (now replaced by a new "
                    "list): any other direction / shape set up with the same list (normalize_kv=False) is corrupted: %s -> %s"
                    % (k, show_list(snap), show_list(list(kv))))
    i = c.data['dir']
    t = c.data['nt'][i]
    if c.kind == 'rem-only':
        return None      # a knot that is NOT removable: outside the property (diagnostic correspondence only)
        # documented behaviour kept by the library's own tests: the counts always drop
        p, kv, n = S.dirs(before)[i]
        p2, kv2, n2 = S.dirs(after)[i]
        if len(kv2) != len(kv) - t or n2 != n - t:
            return "removal did not reduce knot vector / net by %d" % t
        return None
    for k in range(len(c.data['prm'])):
        if c.data['prm'][k] is None or not c.data['nt'][k]:
            # untouched direction: knot vector and size as they were after the insertion
            if S.dirs(after)[k][1] != S.dirs(mid)[k][1] or S.dirs(after)[k][2] != S.dirs(mid)[k][2]:
                return "direction %d was not selected for removal but changed" % k
            continue
        tk = c.data['nt'][k]
        p, kvm, nm = S.dirs(mid)[k]
        p2, kv2, n2 = S.dirs(after)[k]
        u = c.data['prm'][k]
        want = list(kvm)
        for _ in range(tk):
            want.remove(u)
        if kv2 != want:
            return "knot vector after removal is not the previous one minus %d copies of %s" % (tk, fr(u))
        if n2 != nm - tk:
            return "net size after removal %d, expected %d" % (n2, nm - tk)
    u = c.data['prm'][i]
    why = KO.same_points(before, after, KO.probe_params(mid))
    if why:
        return "insert/refine then remove: " + why
    if c.kind != 'refine-rem' and all(a == b for a, b in zip(c.data['nt'], c.data['nr'])):
        if after['P'] != before['P']:
            k = [a != b for a, b in zip(after['P'], before['P'])].index(True)
            return "inserting %s %d times and removing it %d times does not restore control point %d: %s instead of %s" % (
                fr(u), t, t, k, show_list(after['P'][k]), show_list(before['P'][k]))
    return None
