"""C04  Knot insertion never changes the shape."""
import itertools
import random
from fractions import Fraction as F
from core import Case, q, qs, fr, show_list, show_pts
import gen as G
import shapes as S
import rowsops as RO

PID = 'C04'
FLOAT_KINDS = {'ins-method', 'ins-op', 'ins-method-seq'}      # float-mode companion (core.float_companion)
FLOAT_TOL = 1e-8
STATS = G.STATS
KIND = {'curve': 'c', 'surface': 's', 'volume': 'v'}
PARTIAL = [
    "A5.1 as coded is MODELLED literally for BOTH branches of helpers.knot_insertion and PROVED equal to the index-form models: point branch (curves and the iso-curves of surfaces: knotInsertionA51, Model/InsertA51.lean, streams ins-a51 / ins-pt) and list-of-rows branch (what operations.insert_knot feeds for volumes: knotInsertionRowsA51, Model/InsertRowsA51.lean - same allocation / copy loops / temp initialisation / edge writes / final loop, and in the sweep the sequential loop `for idx in range(len(temp[i])): temp[i][idx][:] = ...` over the points of a row; streams ins-rows-a51 against the real helper called with rows, incl. s > 0, num > 1, num = 0, first / last span, unclamped knot vectors, s / span / u not belonging together; the streams also check that the caller's rows are left unchanged). knot_insertion_as_coded_eq_model / knot_insertion_rows_as_coded_eq_model: for every knot function, polygon / list of rows, parameter, num >= 0, s and span k with p <= k and num + s <= p the loops return, slot by slot (and point by point), what knotInsertion / knotInsertionRows return (one generic proof over the element type and the blend: Lemmas/A51Loops*.lean; the equality of the model functions needs nothing about the knots, but the three POINT-branch as-coded statements knot_insertion_as_coded_eq_model / insert_as_coded_surface_nets_eq / insert_as_coded_net_length now CARRY the guard under which the helper does not raise ZeroDivisionError - sorted knots and a non-empty span argument U_k < U_{k+1}, insert_as_coded_denominators_positive: every alpha denominator is positive then - plus point dimension >= 1 in insert_as_coded_net_length; where a denominator the loops compute IS zero the model divides x/0 = 0, the helper raises and the driver ops insa51 / inspt answer ERR, testing exactly those denominators (Drv.a51DivByZero: an empty span argument with no vanishing denominator is computed by both sides); free calls with an EMPTY span argument are generated, witness insert_as_coded_empty_span_witness; the rows-branch statements knot_insertion_rows_as_coded_eq_model / _isocurve carry the same guard since statement audit 5 - hm, hspan and rows of at least one point -, the ops rowsinsa51 / rowsins answer ERR on a vanishing denominator and the free rows stream draws empty span arguments); knot_insertion_rows_as_coded_isocurve: every iso-curve of the loops on rows is the loops on that iso-curve. OBJECT LEVEL: insertKnotDirCoded / insertKnotCoded (Model/KnotOpsCoded.lean: knotInsertionA51 on every iso-curve of a curve / surface, ONE call of knotInsertionRowsA51 on the gathered rows of a volume; stream ins-coded against operations.insert_knot) are PROVED equal to insertKnotDir / insertKnot (insertKnotDir_as_coded_eq_model: degree + 1 <= size, and num + s <= degree when check=False; insertKnot_as_coded_eq_model_curve / _surface / _volume: well-formed object, every requested direction admissible or rejected by the multiplicity check), so shape preservation is a theorem about the loops as coded for curves (insert_as_coded_preserves_curve_point, insert_as_coded_preserves_curve), surfaces (insert_as_coded_preserves_surface) and volumes (insert_as_coded_preserves_volume). NOT covered: calls outside the guard (k < degree or num + s > degree: reachable only through explicit keyword arguments or check=False), where Python's negative indices wrap around and the transcriptions do not follow; rows in which the same point OBJECT occurs twice (deepcopy keeps the aliasing inside a row and the in-place blend would hit the point twice; operations.insert_knot never builds such rows: the points of a geometry are distinct lists) - the transcription is value-semantic (argued in Model/InsertRowsA51.lean: no object shared with the caller or between two slots of temp is ever mutated)",
    "object level (Props/C04.lean, insertKnot_preserves_surface / _volume, insert_call_sequence_preserves_surface / _volume): one insert_knot call with any subset of the directions of a surface or a volume, and any sequence of such calls, completes and preserves well-formedness, the domain and every evaluated point at every parameter of the domain - under the explicit hypothesis that every requested direction is admissible (DirReqOk: parameter in the half-open domain [U_p, U_n), the multiplicity s computed by find_multiplicity is a run ending at the span, r + s <= p; derivable from tolerance separation by insert_request_admissible); a direction rejected by the multiplicity check leaves the earlier directions applied and the points unchanged (insertKnot_partial_application_*). NOT covered by a theorem: a parameter outside the half-open domain of its direction (e.g. u = U_n), check=False with r + s > p, and curve objects at Shape level (curves are proved at helper level: insert_sequence_preserves - points unchanged on the closed domain AND the final state CurveWF with both domain ends unchanged; insert_net_length: r more points, each of the same dimension)",
    "rational objects: the theorems are about the homogeneous net (coordinatewise, weight coordinate included); the projection is C01/C09's",
    "list-of-rows branch of helpers.knot_insertion (volumes), index form: knotInsertionRows (gather / scatter volRows / volUnrows / mapVolRows with the index expressions of operations.insert_knot; streams ins-rows / ins-vol-rows against the real helper called with rows and against operations.insert_knot) is PROVED equal to the per-iso-curve model (knotInsertionRows_isocurve: no hypothesis; knotInsertionRows_is_transposed_knotInsertion; mapVolRows_insert_eq_mapVol; insertKnotVolRows_is_insertKnotDir) and to the in-place loops as coded (knot_insertion_rows_as_coded_eq_model), so the volume theorems are about what the rows branch computes. Not covered: ragged rows (rows of different lengths: IndexError in the code) beyond the iso-curve statement",
    "guards stated as hypotheses (not used by the proofs, mirroring the code / driver): object-level insert_knot theorems (insertKnot_preserves_*, insertKnot_partial_application_*, insert_call_sequence_preserves_*) require params and num to have exactly one entry per parametric direction (the code raises otherwise; the model reads a missing entry as 'nothing requested'); knotInsertionRows_isocurve requires rectangular rows (ragged rows: IndexError in the code, [] padding in the model); insert_sequence_net_unique needs AllActive of the resulting knot vector (necessary)",
    "which span search the object-level models use (statement audit 5, I3): insertKnotDir / insertKnotDirCoded / removeKnotDir / a54Init(Rows) and the volume-rows wrappers call findSpanLinear, the search WITHOUT the step back of the F-01b repair (the code's find_span_linear = findSpanLinearR); they differ only at u = U_n of a knot vector with an empty last domain span (U_{n-1} = U_n), which every theorem excludes (KvWF.last, DirReqOk.hi) - there the models are NOT the code (real insert_knot(c,[5],[1]) on U = [0,1,2,3,4,5,5,6,7,8], degree 3, uses span 4, the model span 5: different nets) and the driver ops ins / insm / insc / ops I,R / rowsvol I,R answer OUT: the model line is not compared (core.py, evidence correspondence.outside_model), the oracle alone judges; stream end-empty-last-span (unclamped curves, insertion AT the closed domain end: outside the property's quantifier 'clamped'; the code accepts it and CHANGES the shape - as for any insertion at the closed end of an unclamped curve - so only acceptance, knot vector and net size are judged)",
]


def show_shape(d):
    ds = S.dirs(d)
    return "%s %s %s %s" % (",".join(str(p) for p, _, _ in ds), ";".join(show_list(kv) for _, kv, _ in ds),
                            ",".join(str(n) for _, _, n in ds), show_pts(d['P']))


def rand_request(rng, d, over=False):
    """(params, nums): per direction a parameter (inside a span or on a knot) or None, and a count"""
    params, nums = [], []
    for (p, kv, n) in S.dirs(d):
        if len(S.dirs(d)) > 1 and rng.random() < .4:
            params.append(None); nums.append(rng.choice([0, 1])); continue
        interior = sorted(set(kv[p + 1:n]))
        if interior and rng.random() < .45:
            u = rng.choice(interior); G.count('ins_param', 'on-knot')
        else:
            u = kv[p] + (kv[n] - kv[p]) * F(rng.randint(1, 99), 100); G.count('ins_param', 'in-span')
        s = sum(1 for x in kv if x == u)
        room = p - s
        if over:
            r = room + 1
        elif room <= 0:
            params.append(None); nums.append(0); continue
        else:
            r = rng.randint(1, room)
        G.count('ins_count', r)
        params.append(u); nums.append(r)
    if all(x is None for x in params):
        return rand_request(rng, d, over)
    return params, nums


TOL_PROBES = [F(2, 10 ** 7), F(1, 10 ** 6), F(1, 10 ** 5), F(3, 10 ** 5)]   # all clearly above find_multiplicity's 1e-7


def probe_request(rng, d):
    """an insertion parameter at a small distance (above the multiplicity tolerance) from an existing
    interior knot: it must be treated as a NEW knot (multiplicity 0), up to p copies are admissible"""
    nd = len(S.dirs(d))
    for i in rng.sample(range(nd), nd):
        p, kv, n = S.dirs(d)[i]
        interior = sorted(set(kv[p + 1:n]))
        if not interior:
            continue
        t = rng.choice(interior)
        u = t + rng.choice([-1, 1]) * rng.choice(TOL_PROBES)
        if not (kv[p] < u < kv[n]) or u in kv:
            continue
        prm = [None] * nd; prm[i] = u
        nums = [0] * nd; nums[i] = rng.randint(1, p)
        G.count('ins_param', 'tol-probe')
        return prm, nums
    return None


def _shape(rng):
    r = rng.random()
    if r < .45:
        return S.rand_curve(rng, maxp=5)
    if r < .85:
        return S.rand_surface(rng, maxp=3, max_interior=2)
    return S.rand_volume(rng, maxp=2, max_interior=1)


def req_txt(params, nums, chk=True):
    return "%s %s %d" % (",".join('None' if x is None else fr(x) for x in params), ",".join(str(x) for x in nums), 1 if chk else 0)


def gen(rng, tier):
    out = []
    n = 120 if tier == 'quick' else 1800
    for _ in range(n):
        d = _shape(rng)
        r = rng.random()
        pr = probe_request(rng, d) if r < .12 else None
        if pr is not None:
            reqs = [pr]; kind = 'ins-op'
        elif r < .55:
            reqs = [rand_request(rng, d)]; kind = 'ins-op'
        elif r < .75:
            reqs = [rand_request(rng, d)]; kind = 'ins-method'
        elif r < .87:
            # single-direction request beyond the allowed multiplicity: rejected
            prm, nums = rand_request(rng, d, over=True)
            keep = rng.choice([i for i, x in enumerate(prm) if x is not None])
            prm = [x if i == keep else None for i, x in enumerate(prm)]
            nums = [x if i == keep else 0 for i, x in enumerate(nums)]
            reqs = [(prm, nums)]; kind = rng.choice(['ins-op', 'ins-method'])
        else:
            reqs = None; kind = 'ins-seq'
        if kind == 'ins-seq':
            # a sequence: later requests are drawn against the original definition; requests that
            # have become inadmissible are rejected by both sides (method level: left unchanged)
            reqs = [rand_request(rng, d) for _ in range(rng.randint(2, 4))]
            kind = 'ins-method-seq'
        op = 'ins' if kind == 'ins-op' else 'insm'
        line = "%s %s %s %s" % (op, KIND[d['kind']], S.args(d), " ".join(req_txt(p, n_) for p, n_ in reqs))
        out.append(Case(kind, line, dict(shape=d, reqs=[[p, n_] for p, n_ in reqs])))
    # method level, surfaces and volumes: ONE direction requested with a count of 2 while the counts handed over for the other
    # directions differ (a num_u / num_v / num_w mix-up in the methods must show); every direction in turn
    rnd = 0
    while rnd < (6 if tier == 'quick' else 60):
        d = S.rand_volume(rng, maxp=3, max_interior=1) if rnd % 2 == 0 else S.rand_surface(rng, maxp=3, max_interior=2)
        ds = S.dirs(d)
        k = (rnd // 2) % len(ds)
        p, kv, n_ = ds[k]
        if p < 2:
            continue
        u = kv[p] + (kv[n_] - kv[p]) * F(rng.randint(1, 99), 101)
        if u in kv:
            continue
        prm = [None] * len(ds); prm[k] = u
        nums = [rng.choice([0, 1]) for _ in ds]; nums[k] = 2
        line = "insm %s %s %s" % (KIND[d['kind']], S.args(d), req_txt(prm, nums))
        out.append(Case('ins-method', line, dict(shape=d, reqs=[[prm, nums]])))
        rnd += 1
    # the parameter value 0 (falsy in Python) strictly inside an un-normalised domain: it is a parameter like
    # any other
    for _ in range(10 if tier == 'quick' else 120):
        d = _shape(rng)
        nd = len(S.dirs(d))
        i = rng.randrange(nd)
        key = {'curve': ['kv'], 'surface': ['kvu', 'kvv'], 'volume': ['kvu', 'kvv', 'kvw']}[d['kind']][i]
        p, kv, n_ = S.dirs(d)[i]
        lo, hi = kv[p], kv[n_]
        if hi == lo:
            continue
        t = rng.choice([F(1, 2), F(1, 3), F(1, 5), F(3, 4)])          # where 0 will sit inside the domain
        a = rng.choice([F(2), F(3), F(1)])
        d[key] = [a * ((x - lo) / (hi - lo) - t) for x in kv]        # domain [-a t, a (1 - t)]
        p, kv, n_ = S.dirs(d)[i]
        s0 = sum(1 for x in kv if x == 0)
        if s0 >= p:
            continue
        prm = [None] * nd; prm[i] = F(0)
        nums = [0] * nd; nums[i] = rng.randint(1, p - s0)
        kind = rng.choice(['ins-op', 'ins-op', 'ins-method'])
        line = "%s %s %s %s" % ('ins' if kind == 'ins-op' else 'insm', KIND[d['kind']], S.args(d), req_txt(prm, nums))
        G.count('ins_param', 'zero-inside-domain')
        out.append(Case(kind, line, dict(shape=d, reqs=[[prm, nums]]), tags=('zero-param',)))
    # the LIST-OF-ROWS branch of helpers.knot_insertion (what operations.insert_knot feeds for volumes):
    # helper level on rows gathered from a random volume or on random rows, against `knotInsertionRows`
    for _ in range(40 if tier == 'quick' else 500):
        if rng.random() < .5:
            d = S.rand_volume(rng, maxp=3, max_interior=2, allow_range=False)
            i = rng.randrange(3)
            p, kv, n_ = S.dirs(d)[i]
            R = RO.gather(d, i)
            G.count('rows_source', 'volume-dir%d' % i)
        else:
            p = rng.randint(1, 4)
            kv, n_, R = RO.rand_rows(rng, p)
            G.count('rows_source', 'random')
        interior = sorted(set(kv[p + 1:n_]))
        if interior and rng.random() < .4:
            u = rng.choice(interior)
        else:
            u = kv[p] + (kv[n_] - kv[p]) * F(rng.randint(1, 99), 100)
        s = RO.mult(kv, u)
        if s >= p:
            continue
        r = rng.randint(1, p - s)
        k = RO.span(kv, p, n_, u)
        G.count('rows_ins', (p, s, r))
        out.append(Case('ins-rows', RO.rows_line('rowsins', p, kv, R, fr(u), r, s, k), dict(p=p, kv=kv, R=R, u=u, r=r, s=s, k=k)))
        # the same call against the LITERAL transcription of the rows branch (`knotInsertionRowsA51`)
        out.append(Case('ins-rows-a51', RO.rows_line('rowsinsa51', p, kv, R, fr(u), r, s, k), dict(p=p, kv=kv, R=R, u=u, r=r, s=s, k=k)))
    # A5.1 AS CODED ON ROWS, "free" calls: s / span / u NOT belonging together, num = 0, prior multiplicities, first and
    # last span, unclamped knot vectors (pure index arithmetic: any s with num + s <= p, any span p <= k < len(rows))
    for _ in range(60 if tier == 'quick' else 900):
        p = rng.randint(1, 4)
        kv, n_, R = RO.rand_rows(rng, p, allow_range=rng.random() < .3)
        spans = [k for k in range(p, n_) if kv[k] < kv[k + 1]]
        if rng.random() < .5:
            interior = sorted(set(x for x in kv[p:n_] if kv[p] <= x < kv[n_] and RO.mult(kv, x) < p))
            if interior and rng.random() < .6:
                u = rng.choice(interior)
            else:
                k0 = rng.choice([spans[0], spans[-1]])
                u = kv[k0] + (kv[k0 + 1] - kv[k0]) * F(rng.randint(1, 99), 100)
            s = RO.mult(kv, u)
            if s > p:
                continue
            k = RO.span(kv, p, n_, u)
            r = rng.choice([0] + list(range(1, p - s + 1)) * 3) if p > s else 0
            genuine = True
        else:
            k = rng.choice(spans + [spans[0], spans[-1]])
            empty = [k_ for k_ in range(p, n_) if kv[k_] == kv[k_ + 1]]
            lr = random.Random("%s %d %d" % (show_list(kv), p, k))     # local draw: the main random stream stays as it was
            if empty and lr.random() < .45:
                # malformed (statement audit 5, I1): an EMPTY span argument; an alpha denominator may vanish: ZeroDivisionError in
                # the helper = ERR of rowsinsa51 / rowsins (Drv.a51DivByZero), outside the guard hspan of the rows theorems
                k = lr.choice(empty)
            r = rng.randint(0, p)
            s = rng.randint(0, p - r)
            u = rng.choice([kv[k], kv[k] + (kv[k + 1] - kv[k]) * F(rng.randint(1, 99), 100), kv[0] - 1, kv[-1] + F(1, 3)])
            genuine = False
            if kv[k] == kv[k + 1]:
                zero = any(kv[i + k + 1] == kv[k - p + j + i] for j in range(1, r + 1) for i in range(0, p - j - s + 1))
                G.count('rows_a51_empty_span', 'zero-denominator' if zero else 'no-division-by-zero')
        G.count('rows_a51', (p, s, r, 'first' if k == p else ('last' if k == n_ - 1 else 'mid'), 'genuine' if genuine else 'free'))
        data = dict(p=p, kv=kv, R=R, u=u, r=r, s=s, k=k, free=True)
        out.append(Case('ins-rows-a51', RO.rows_line('rowsinsa51', p, kv, R, fr(u), r, s, k), data))
        out.append(Case('ins-rows', RO.rows_line('rowsins', p, kv, R, fr(u), r, s, k), data))
    # one direction of operations.insert_knot on a volume against the gather / rows-branch / scatter model
    for _ in range(25 if tier == 'quick' else 300):
        d = S.rand_volume(rng, maxp=3, max_interior=2)
        i = rng.randrange(3)
        p, kv, n_ = S.dirs(d)[i]
        interior = sorted(set(kv[p + 1:n_]))
        if interior and rng.random() < .4:
            u = rng.choice(interior)
        else:
            u = kv[p] + (kv[n_] - kv[p]) * F(rng.randint(1, 99), 100)
        s = RO.mult(kv, u)
        room = p - s
        over = rng.random() < .1
        if room <= 0 and not over:
            continue
        r = room + 1 if over else rng.randint(1, room)
        reqs = [(i, u, r)]
        if not over and rng.random() < .35:        # a second direction on the result of the first
            i2 = rng.choice([x for x in range(3) if x != i])
            p2, kv2, n2 = S.dirs(d)[i2]
            u2 = kv2[p2] + (kv2[n2] - kv2[p2]) * F(rng.randint(1, 99), 100)
            s2 = RO.mult(kv2, u2)
            if s2 < p2:
                reqs.append((i2, u2, rng.randint(1, p2 - s2)))
        G.count('rows_vol_ins', (len(reqs), over))
        line = "rowsvol v %s %s" % (S.args(d), " ".join("I %d %s %d 1" % (a, fr(b), c_) for a, b, c_ in reqs))
        out.append(Case('ins-vol-rows', line, dict(shape=d, reqs=[[a, b, c_] for a, b, c_ in reqs])))
    # A5.1 AS CODED: the real helpers.knot_insertion (point branch) called with explicit num / s / span against the
    # LITERAL transcription `knotInsertionA51` (op insa51) and against the index-by-index model (op inspt):
    # prior multiplicities s > 0, num > 1, num = 0, the first and the last span, unclamped knot vectors; and
    # "free" calls in which s / span / u are NOT the ones belonging to u (the helper computes anyway: pure
    # index arithmetic, any s with num + s <= p, any non-empty span k)
    for _ in range(150 if tier == 'quick' else 2500):
        d = S.rand_curve(rng, maxp=5, max_interior=4, clamped=rng.random() < .65, max_mult=rng.choice([None, None, 2, 1]))
        p, kv, n_ = d['p'], d['kv'], d['n']
        spans = [k for k in range(p, n_) if kv[k] < kv[k + 1]]
        mode = rng.random()
        if mode < .7:
            interior = sorted(set(x for x in kv[p:n_] if kv[p] <= x < kv[n_] and RO.mult(kv, x) < p))
            r_ = rng.random()
            if interior and r_ < .45:
                u = rng.choice(interior)
            elif r_ < .6:
                k0 = rng.choice([spans[0], spans[-1]])
                u = kv[k0] + (kv[k0 + 1] - kv[k0]) * F(rng.randint(1, 99), 100)
            else:
                u = kv[p] + (kv[n_] - kv[p]) * F(rng.randint(1, 99), 100)
            s = RO.mult(kv, u)
            if s > p:
                continue
            k = RO.span(kv, p, n_, u)
            r = rng.choice([0] + list(range(1, p - s + 1)) * 3) if p > s else 0
            genuine = True
        else:
            empty = [k_ for k_ in range(p, n_) if kv[k_] == kv[k_ + 1]]
            if empty and rng.random() < .45:
                # malformed: an EMPTY span argument (U_k = U_{k+1}); an alpha denominator U[i+k+1] - U[k-p+j+i] may vanish:
                # ZeroDivisionError in the helper = ERR of the driver (outside the guard hspan of the theorems)
                k = rng.choice(empty)
            else:
                k = rng.choice(spans + [spans[0], spans[-1]])
            r = rng.randint(0, p)
            s = rng.randint(0, p - r)
            u = rng.choice([kv[k], kv[k] + (kv[k + 1] - kv[k]) * F(rng.randint(1, 99), 100), kv[0] - 1, kv[-1] + F(1, 3),
                            kv[p] + (kv[n_] - kv[p]) * F(rng.randint(0, 100), 100)])
            genuine = False
            if kv[k] == kv[k + 1]:
                zero = any(kv[i + k + 1] == kv[k - p + j + i] for j in range(1, r + 1) for i in range(0, p - j - s + 1))
                G.count('a51_empty_span', 'zero-denominator' if zero else 'no-division-by-zero')
        G.count('a51', (p, s, r, 'first' if k == p else ('last' if k == n_ - 1 else 'mid'), 'genuine' if genuine else 'free'))
        G.count('a51_clamped', kv[0] == kv[p])
        tail = "%d %s %s %s %d %d %d" % (p, show_list(kv), show_pts(d['P']), fr(u), r, s, k)
        data = dict(shape=d, u=u, r=r, s=s, k=k, genuine=genuine)
        out.append(Case('ins-a51', "insa51 " + tail, data))
        out.append(Case('ins-pt', "inspt " + tail, data))
    # insertion AT THE DOMAIN END u = U_n of a knot vector whose last domain span is EMPTY (unclamped, U_{n-1} = U_n of multiplicity
    # 2..p-1; statement audit 5, I3): the repaired find_span_linear of the code steps back to the last non-empty span, the
    # knot-operation MODELS search without the step back - the driver ops answer OUT (outside the model, core.py: not compared),
    # the implementation is judged by the oracle alone: accepted, knot vector = old + copies, net size (NOT the points: insertion at the
    # closed domain end of an unclamped curve changes the shape - outside the property's quantifier 'clamped', see the oracle)
    for _ in range(8 if tier == 'quick' else 80):
        p = rng.randint(3, 5)
        s_ = rng.randint(2, p - 1)
        n_ = p + rng.randint(s_ + 1, s_ + 3)
        ks = sorted(rng.sample(range(0, 4 * (n_ + p + 2)), n_ + p + 1))
        kv = [F(x, 4) for x in ks]
        for j in range(n_ - s_ + 1, n_ + 1):
            kv[j] = kv[n_]
        if not (kv[p] < kv[n_ - s_] < kv[n_] < kv[n_ + 1]):
            continue
        dim = rng.choice([2, 3])
        P = [[F(rng.randint(-9, 9), rng.choice([1, 2])) for _ in range(dim)] for _ in range(n_)]
        d = dict(kind='curve', rat=False, p=p, kv=kv, n=n_, P=P, dim=dim)
        prm, nums = [kv[n_]], [rng.randint(1, p - s_)]
        G.count('ins_param', 'domain-end-empty-last-span')
        line = "ins c %s %s" % (S.args(d), req_txt(prm, nums))
        out.append(Case('ins-op', line, dict(shape=d, reqs=[[prm, nums]]), tags=('end-empty-last-span',)))
    # check_num=False (statement audit 5, I4): admissible requests sent with chk = 0 - the `check = false` branch of insertKnot /
    # insertKnotCoded against operations.insert_knot(..., check_num=False); the `num` list may then stop after the last
    # direction that has a parameter (num[i] is only read where param[i] is not None)
    for _ in range(12 if tier == 'quick' else 150):
        d = _shape(rng)
        prm, nums = rand_request(rng, d)
        sent = list(nums)
        while len(sent) > 1 and prm[len(sent) - 1] is None and rng.random() < .6:
            sent.pop()
        G.count('ins_unchecked', (d['kind'], len(sent) < len(nums)))
        line = "ins %s %s %s" % (KIND[d['kind']], S.args(d), req_txt(prm, sent, chk=False))
        out.append(Case('ins-op', line, dict(shape=d, reqs=[[prm, nums]], sent=sent, chk=False), tags=('check-num-false',)))
    # every operations-level call once more against the object-level model built from the helper's loops AS CODED
    # (`insertKnotCoded`: knotInsertionA51 on every iso-curve of a curve / surface, knotInsertionRowsA51 on cpt2d for a volume)
    for c in [c for c in out if c.kind == 'ins-op']:
        G.count('ins_coded', c.data['shape']['kind'])
        out.append(Case('ins-coded', "insc" + c.line[3:], c.data, tags=c.tags))
    return out


def _a51_call(c):
    from geomdl import helpers
    from core import qpts
    x = c.data
    d = x['shape']
    Q = helpers.knot_insertion(d['p'], qs(d['kv']), qpts(d['P']), q(x['u']), num=x['r'], s=x['s'], span=x['k'])
    return RO.unq([Q])[0]


def _oracle_a51(c):
    """genuine calls (s, span those of u): r more points, the curve is unchanged (independent Cox-de Boor evaluation)"""
    x = c.data
    d = x['shape']
    kv, p, k = d['kv'], d['p'], x['k']
    zero = any(kv[i + k + 1] == kv[k - p + j + i] for j in range(1, x['r'] + 1) for i in range(0, p - j - x['s'] + 1))
    try:
        Q = _a51_call(c)
    except Exception as e:
        if zero and isinstance(e, ZeroDivisionError):
            return None          # empty span argument with a vanishing alpha denominator: outside the guard
        return "knot_insertion raised %s: %s" % (type(e).__name__, e)
    if len(Q) != d['n'] + x['r']:
        return "knot_insertion returned %d points, expected %d" % (len(Q), d['n'] + x['r'])
    if not x['genuine']:
        return None
    if x['r'] == 0:
        return None if Q == d['P'] else "num=0 changed the control points"
    after = dict(d, kv=sorted(d['kv'] + [x['u']] * x['r']), n=d['n'] + x['r'], P=Q)
    for (t,) in itertools.product(*probe_params(d, [[x['u']]])):
        a = S.eval_ref(d, [t]); b = S.eval_ref(after, [t])
        if a != b:
            return "point at %s moved from %s to %s" % (fr(t), show_list(a), show_list(b))
    return None


def _apply(o, d, reqs, method, sent=None, chk=True):
    from geomdl import operations
    for prm, nums in reqs:
        qp = [None if x is None else q(x) for x in prm]
        if not method:
            if chk:
                operations.insert_knot(o, qp, list(nums))
            else:
                operations.insert_knot(o, qp, list(sent if sent is not None else nums), check_num=False)
        else:
            import io, contextlib
            with contextlib.redirect_stdout(io.StringIO()):
                if d['kind'] == 'curve':
                    if qp[0] is not None and nums[0] > 0:
                        o.insert_knot(qp[0], num=nums[0])
                elif d['kind'] == 'surface':
                    o.insert_knot(u=qp[0] if nums[0] > 0 else None, v=qp[1] if nums[1] > 0 else None, num_u=nums[0], num_v=nums[1])
                else:
                    o.insert_knot(u=qp[0] if nums[0] > 0 else None, v=qp[1] if nums[1] > 0 else None, w=qp[2] if nums[2] > 0 else None,
                                  num_u=nums[0], num_v=nums[1], num_w=nums[2])
    return o


def _rows_call(c):
    from geomdl import helpers
    x = c.data
    rows = RO.qrows(x['R'])
    Q = RO.unq(helpers.knot_insertion(x['p'], qs(x['kv']), rows, q(x['u']), num=x['r'], s=x['s'], span=x['k']))
    if RO.unq(rows) != x['R']:
        # the value-semantic transcription relies on it: no statement of the helper mutates an object of the caller
        raise AssertionError("knot_insertion changed the rows it was called with")
    return Q


def _vol_rows(c):
    from geomdl import operations
    o = S.build(c.data['shape'])
    for i, u, r in c.data['reqs']:
        prm = [None] * 3; prm[i] = q(u)
        nums = [0] * 3; nums[i] = r
        operations.insert_knot(o, prm, nums)
    return o


def impl(c):
    if c.kind in ('ins-a51', 'ins-pt'):
        return show_pts(_a51_call(c))
    if c.kind in ('ins-rows', 'ins-rows-a51'):
        from core import show_pts2
        return show_pts2(_rows_call(c))
    if c.kind == 'ins-vol-rows':
        return show_shape(S.from_obj(_vol_rows(c)))
    d = c.data['shape']
    o = S.build(d)
    _apply(o, d, c.data['reqs'], c.kind not in ('ins-op', 'ins-coded'), c.data.get('sent'), c.data.get('chk', True))
    return show_shape(S.from_obj(o))


def probe_params(d, extra):
    """per direction: every old knot of the domain, the inserted values, span midpoints"""
    res = []
    for i, (p, kv, n) in enumerate(S.dirs(d)):
        ks = sorted(set(kv[p:n + 1]) | set(x for x in extra[i]))
        mids = [(a + b) / 2 for a, b in zip(ks, ks[1:])]
        allp = sorted(set(ks + mids))
        if len(S.dirs(d)) == 3 and len(allp) > 5:
            allp = allp[::max(1, len(allp) // 5)] + [allp[-1]]
        if len(S.dirs(d)) == 2 and len(allp) > 9:
            allp = allp[::max(1, len(allp) // 9)] + [allp[-1]]
        res.append(sorted(set(allp)))
    return res


def _oracle_rows(c):
    """the rows branch must return, iso-curve by iso-curve, what the point branch returns"""
    from geomdl import helpers
    x = c.data
    kv_, p_, k_ = x['kv'], x['p'], x['k']
    zero = any(kv_[i + k_ + 1] == kv_[k_ - p_ + j + i] for j in range(1, x['r'] + 1) for i in range(0, p_ - j - x['s'] + 1))
    try:
        Q = _rows_call(c)
    except Exception as e:
        if zero and isinstance(e, ZeroDivisionError):
            return None          # empty span argument with a vanishing alpha denominator: outside the guard (ERR on both sides)
        return "knot_insertion on rows raised %s: %s" % (type(e).__name__, e)
    m = len(x['R'][0])
    cols = []
    for j in range(m):
        col = [[q(v) for v in pt] for pt in RO.column(x['R'], j)]
        cols.append(RO.unq([helpers.knot_insertion(x['p'], qs(x['kv']), col, q(x['u']), num=x['r'], s=x['s'], span=x['k'])])[0])
    if Q != RO.from_columns(cols):
        return "knot_insertion on a list of rows differs from knot_insertion applied to every iso-curve"
    return None


def oracle(c):
    if c.kind in ('ins-a51', 'ins-pt'):
        return _oracle_a51(c)
    if c.kind == 'ins-rows-a51':
        return None          # the oracle runs on the twin 'ins-rows' case
    if c.kind == 'ins-rows':
        return _oracle_rows(c)
    if c.kind == 'ins-vol-rows':
        d = c.data['shape']
        p, kv, n = S.dirs(d)[c.data['reqs'][0][0]]
        over = c.data['reqs'][0][2] + RO.mult(kv, c.data['reqs'][0][1]) > p
        try:
            o = _vol_rows(c)
        except Exception as e:
            return None if over else "admissible insertion raised %s: %s" % (type(e).__name__, e)
        if over:
            return "insertion beyond the allowed multiplicity was not rejected"
        after = S.from_obj(o)
        extra = [[u for i, u, r in c.data['reqs'] if i == k] for k in range(3)]
        for combo in itertools.product(*probe_params(d, extra)):
            a = S.eval_ref(d, list(combo)); b = S.eval_ref(after, list(combo))
            if a != b:
                return "point at %s moved from %s to %s" % (tuple(map(fr, combo)), show_list(a), show_list(b))
        return None
    d = c.data['shape']
    reqs = c.data['reqs']
    if c.kind == 'ins-coded':
        return None          # the oracle runs on the twin 'ins-op' case
    method = c.kind != 'ins-op'
    o = S.build(d)
    before = S.from_obj(o)
    try:
        _apply(o, d, reqs, method, c.data.get('sent'), c.data.get('chk', True))
        raised = False
    except Exception as e:
        raised = True
    after = S.from_obj(o)
    nd = len(S.dirs(d))
    # which requests are admissible (single request cases only: sequences are checked through the points)
    if len(reqs) == 1:
        prm, nums = reqs[0]
        adm = True
        for i, (p, kv, n) in enumerate(S.dirs(d)):
            if prm[i] is not None and nums[i] > 0:
                s = sum(1 for x in kv if x == prm[i])
                if nums[i] + s > p:
                    adm = False
        active = [i for i in range(nd) if prm[i] is not None and nums[i] > 0]
        if not adm and len(active) == 1:
            if not method and not raised:
                return "insertion beyond the allowed multiplicity was not rejected"
            if after != before:
                return "rejected insertion changed the object"
            return None
        if adm:
            if raised:
                return "admissible insertion raised"
            for i, ((p, kv, n), (p2, kv2, n2)) in enumerate(zip(S.dirs(d), S.dirs(after))):
                r = nums[i] if (prm[i] is not None and nums[i] > 0) else 0
                want_kv = sorted(kv + [prm[i]] * r) if r else kv
                if kv2 != want_kv:
                    return "direction %d: knot vector after insertion is not the old one plus %d sorted copies of the parameter" % (i, r)
                if n2 != n + r:
                    return "direction %d: control net size %d, expected %d" % (i, n2, n + r)
                if p2 != p:
                    return "direction %d: degree changed" % i
    if 'end-empty-last-span' in c.tags:
        # OUTSIDE the property's quantifier (clamped knot vectors): insert_knot AT the closed domain end of an UNCLAMPED curve
        # is accepted by the code and CHANGES the shape - with a simple end knot (driver = code, every theorem excludes it
        # through DirReqOk.hi) and with an empty last span (this stream; the model line answers OUT).  Only the bookkeeping
        # above (accepted, knot vector = old + copies in sorted position, net size, degree) is judged here.
        return None
    extra = [[prm[i] for prm, _ in reqs if prm[i] is not None] for i in range(nd)]
    grid = probe_params(d, extra)
    for combo in itertools.product(*grid):
        a = S.eval_ref(before, list(combo))
        b = S.eval_ref(after, list(combo))
        if a != b:
            return "point at %s moved from %s to %s" % (tuple(map(fr, combo)), show_list(a), show_list(b))
    return None
