"""List-of-rows branches of helpers.knot_insertion / knot_removal / knot_refinement (the form in which
operations.* call them for VOLUMES): building rows, calling the real helpers with rows, text forms.

A list of rows `R` has one row per control-point index of the chosen direction; row `i` holds the points of
all iso-curves at index `i` (`R[i][c]` = point `i` of iso-curve `c`)."""
from fractions import Fraction as F
from core import q, qs, fr, show_list, show_pts, show_pts2
import gen as G
import shapes as S


def gather(d, i):
    """`cpt2d` of direction i exactly as operations.insert_knot / remove_knot / refine_knotvector build it"""
    su, sv, sw = d['su'], d['sv'], d['sw']
    P = d['P']
    if i == 0:
        return [[P[v + u * sv + w * su * sv] for w in range(sw) for v in range(sv)] for u in range(su)]
    if i == 1:
        return [[P[v + u * sv + w * su * sv] for w in range(sw) for u in range(su)] for v in range(sv)]
    return [[P[uv + w * su * sv] for uv in range(su * sv)] for w in range(sw)]


def qrows(R):
    """fresh exact-number rows (distinct list objects, as operations.* build them)"""
    return [[[q(x) for x in pt] for pt in row] for row in R]


def unq(R):
    return [[[x.q if hasattr(x, 'q') else F(x) for x in pt] for pt in row] for row in R]


def column(R, c):
    return [row[c] for row in R]


def from_columns(cols):
    n = len(cols[0])
    return [[col[i] for col in cols] for i in range(n)]


def mult(kv, u):
    return sum(1 for x in kv if x == u)


def span(kv, p, n, u):
    """helpers.find_span_linear in exact arithmetic (first index whose knot exceeds u, minus one)"""
    k = p + 1
    while k < n and kv[k] <= u:
        k += 1
    return k - 1


def rand_rows(rng, p, max_interior=3, width=None, dim=None, allow_range=False, max_mult=None):
    """random knot vector and random rectangular rows"""
    kv, n = G.knots(rng, p, max_interior=max_interior, allow_range=allow_range, max_mult=max_mult)
    m = width or rng.randint(1, 4)
    dim = dim or rng.choice([1, 2, 3])
    R = [G.points(rng, m, dim) for _ in range(n)]
    return kv, n, R


def insert_rows(p, kv, R, u, r):
    """the real rows branch of knot_insertion; returns (new knot vector, rows) in Fractions"""
    from geomdl import helpers
    s = mult(kv, u)
    k = span(kv, p, len(R), u)
    Q = helpers.knot_insertion(p, qs(kv), qrows(R), q(u), num=r, s=s, span=k)
    kv2 = [x.q if hasattr(x, 'q') else F(x) for x in helpers.knot_insertion_kv(qs(kv), q(u), k, r)]
    return kv2, unq(Q)


def rows_line(op, p, kv, R, *rest):
    return "%s %d %s %s %s" % (op, p, show_list(kv), show_pts2(R), " ".join(str(x) for x in rest))
