#!/usr/bin/env python3
"""Writes the table of DESIGN.md section 14 from /verif/seeded/*/meta.json."""
import json, glob, os, re
VERIF = os.path.dirname(os.path.dirname(os.path.abspath(__file__)))
rows = []
for m in sorted(glob.glob(os.path.join(VERIF, 'seeded', '*', 'meta.json'))):
    d = json.load(open(m))
    name = os.path.basename(os.path.dirname(m))
    catching = []
    for chk, v in sorted(d.get('checks', {}).items()):
        if isinstance(v, dict) and v.get('exit') == 1:
            how = (v.get('oracle') or v.get('last') or '')
            how = ' '.join(str(how).split())[:90]
            nf = 'no-failing-input-found' in ' '.join(v.get('violation') or [])
            catching.append("%s%s (%s)" % (chk, ' [no input found]' if nf else '', how))
    summ = ' '.join(str(d.get('summary', '')).split())[:150]
    needs = ' '.join(str(d.get('needs', '')).split())[:150]
    rows.append("| %s | %s | %s | %s |" % (name, summ.replace('|', '/'), needs.replace('|', '/'), ('; '.join(catching) or '**missed**').replace('|', '/')))
table = ("| change | what it does | what it needs to manifest | caught by (first failing input) |\n|---|---|---|---|\n" + "\n".join(rows)
         + "\n\n%d seeded changes, %d caught by at least one check.\n" % (len(rows), sum(1 for r in rows if '**missed**' not in r)))
p = os.path.join(VERIF, 'DESIGN.md')
s = open(p).read()
s = re.sub(r'<!-- SEEDED-TABLE -->.*?<!-- /SEEDED-TABLE -->|<!-- SEEDED-TABLE -->', lambda m: '<!-- SEEDED-TABLE -->\n' + table + '<!-- /SEEDED-TABLE -->', s, count=1, flags=re.S)
open(p, 'w').write(s)
print("%d rows" % len(rows))
