"""Runs a fixed scenario of the real geomdl in ordinary floating point (separate interpreter, no
exact-number layer) and prints the results as JSON.  Used by C17 to compare configurations
(GEOMDL_CACHE_SIZE values, num_procs values).  usage: float_probe.py <repo> <scenario> [seed] [num_procs]"""
import sys, json, random
repo, scenario = sys.argv[1], sys.argv[2]
seed = int(sys.argv[3]) if len(sys.argv) > 3 else 1
nproc = int(sys.argv[4]) if len(sys.argv) > 4 else 1
sys.path.insert(0, repo)


def curve(rng):
    from geomdl import BSpline
    c = BSpline.Curve()
    c.degree = 3
    c.ctrlpts = [[rng.uniform(-5, 5), rng.uniform(-5, 5), rng.uniform(-5, 5)] for _ in range(7)]
    c.knotvector = [0, 0, 0, 0, 0.25, 0.5, 0.75, 1, 1, 1, 1]
    return c


def surface(rng, su=5, sv=4):
    from geomdl import BSpline
    s = BSpline.Surface()
    s.degree_u, s.degree_v = 2, 2
    s.set_ctrlpts([[float(i), float(j), rng.uniform(-2, 2)] for i in range(su) for j in range(sv)], su, sv)
    s.knotvector_u = [0, 0, 0, 1 / 3., 2 / 3., 1, 1, 1][:su + 3] if su == 5 else [0, 0, 0, 1, 1, 1]
    s.knotvector_v = [0, 0, 0, 0.5, 1, 1, 1]
    return s


def main():
    rng = random.Random(seed)
    out = {}
    if scenario == 'knotops':
        from geomdl import operations
        c = curve(rng)
        pts0 = c.evaluate_list([i / 10. for i in range(11)])
        seq = [0.1, 0.3, 0.3, 0.6, 0.9, 0.3]        # no value more often than the degree (3) allows
        rng.shuffle(seq)
        for x in seq:
            operations.insert_knot(c, [x], [1])
        operations.remove_knot(c, [0.3], [1])
        operations.refine_knotvector(c, [1])
        out['kv'] = list(c.knotvector); out['cp'] = c.ctrlpts
        out['pts'] = c.evaluate_list([i / 10. for i in range(11)]); out['pts0'] = pts0
        s = surface(rng)
        operations.insert_knot(s, [0.4, 0.6], [1, 2])
        out['surf'] = s.ctrlpts
        # results the caller adjusts in place must not leak into later calls, whatever the cache size
        from geomdl import knotvector, linalg
        rep = []
        for fn, args in ((knotvector.generate, (3, 8)), (knotvector.generate, (2, 5)), (linalg.linspace, (0.0, 1.0, 5)),
                         (linalg.matrix_identity, (3,)), (linalg.matrix_transpose, (((1.0, 2.0), (3.0, 4.0)),)),
                         (linalg.vector_generate, ((0.0, 0.0, 0.0), (1.0, 2.0, 3.0)))):
            try:
                a = fn(*args)
            except TypeError:
                continue
            first = [list(r) if isinstance(r, (list, tuple)) else r for r in a]
            if isinstance(a, list):
                for i in range(len(a)):
                    if isinstance(a[i], list):
                        for j in range(len(a[i])):
                            a[i][j] = a[i][j] + 0.125
                    else:
                        a[i] = a[i] + 0.125
            b = fn(*args)
            rep.append([fn.__name__, first, [list(r) if isinstance(r, (list, tuple)) else r for r in b]])
        out['regen'] = rep
    elif scenario == 'samplesize':
        lo, hi = seed, nproc          # argv[3], argv[4] reused as the range of sample sizes
        c = curve(random.Random(1))
        bad = []
        for n in range(lo, hi + 1):
            c.sample_size = n
            m = len(c.evalpts)
            if m != n or c.sample_size != n:
                bad.append([n, m])
        s_ = surface(random.Random(2))
        for n in range(lo, min(hi, 130) + 1):
            s_.sample_size_u = n
            s_.sample_size_v = 3
            m = len(s_.evalpts)
            if m != n * 3:
                bad.append([n, m])
            s_.sample_size_u = 3
            s_.sample_size_v = n
            m = len(s_.evalpts)
            if m != n * 3:
                bad.append([n, m])
        out['bad'] = bad
    elif scenario == 'tessellate':
        from geomdl import multi
        surfs = [surface(rng) for _ in range(3)]
        for s in surfs:
            s.sample_size = 6
        m = multi.SurfaceContainer(*surfs)
        m.sample_size = 6
        m.tessellate(num_procs=nproc)
        out['verts'] = [[list(v.data) for v in s.vertices] for s in m]
        out['faces'] = [[list(f.data) for f in s.faces] for s in m]
    elif scenario == 'voxelize':
        from geomdl import BSpline, voxelize, construct
        s0 = surface(rng, 5, 4)
        from geomdl import operations
        s1 = operations.translate(s0, [0, 0, 3.0])
        vol = construct.construct_volume('w', s0, s1, degree=1)
        grid, filled = voxelize.voxelize(vol, grid_size=(4, 4, 4), num_procs=nproc, tol=0.26)
        out['filled'] = list(filled); out['n'] = len(grid)
        # the user's padding must reach the workers: several paddings and the default one (a padding that is dropped or replaced
        # by the default in the multi-process path shows as soon as one of them changes the filled set)
        out['by_tol'] = {}
        for tl in (0.11, 0.6, 1.7):
            _, fl = voxelize.voxelize(vol, grid_size=(4, 4, 4), num_procs=nproc, tol=tl)
            out['by_tol'][str(tl)] = list(fl)
        _, fl0 = voxelize.voxelize(vol, grid_size=(4, 4, 4), num_procs=nproc)
        out['default_tol'] = list(fl0)
        # a grid whose number of voxels (45) is not divisible by 2, 4 or 8
        grid2, filled2 = voxelize.voxelize(vol, grid_size=(5, 3, 3), num_procs=nproc, tol=0.26)
        out['filled2'] = list(filled2); out['n2'] = len(grid2)
    print(json.dumps(out))


if __name__ == '__main__':
    main()
