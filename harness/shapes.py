"""Random spline shape definitions (plain dicts of Fractions) and builders of real geomdl objects."""
from fractions import Fraction as F
from core import q, qs, qpts, fr, show_list, show_pts
import gen as G


def rand_curve(rng, rational=None, maxp=5, dim=None, max_interior=4, clamped=True, allow_range=True, max_mult=None):
    p = rng.randint(1, maxp)
    kv, n = G.knots(rng, p, max_interior=max_interior, clamped=clamped, allow_range=allow_range, max_mult=max_mult)
    rat = (rng.random() < .5) if rational is None else rational
    dim = dim or rng.choice([2, 3, 3])
    P = G.points(rng, n, dim)
    if rat:
        P = G.homogeneous(P, G.weights(rng, n))
    G.count('shape', 'curve-rat' if rat else 'curve')
    return dict(kind='curve', rat=rat, p=p, kv=kv, n=n, P=P, dim=dim)


def rand_surface(rng, rational=None, maxp=4, dim=3, max_interior=3, allow_range=True, max_mult=None, clamped=True):
    while True:
        pu, pv = rng.randint(1, maxp), rng.randint(1, maxp)
        kvu, su = G.knots(rng, pu, max_interior=max_interior, allow_range=allow_range, max_mult=max_mult, clamped=clamped)
        kvv, sv = G.knots(rng, pv, max_interior=max_interior, allow_range=allow_range, max_mult=max_mult, clamped=clamped)
        if su != sv and pu != pv:     # a u/v mix-up must show
            break
    rat = (rng.random() < .5) if rational is None else rational
    P = G.points(rng, su * sv, dim)
    if rat:
        P = G.homogeneous(P, G.weights(rng, su * sv))
    G.count('shape', 'surface-rat' if rat else 'surface')
    return dict(kind='surface', rat=rat, pu=pu, pv=pv, kvu=kvu, kvv=kvv, su=su, sv=sv, P=P, dim=dim)


def rand_volume(rng, rational=None, maxp=3, dim=3, max_interior=2, allow_range=True, clamped=True):
    while True:
        ps = [rng.randint(1, maxp) for _ in range(3)]
        ks = [G.knots(rng, p, max_interior=max_interior, allow_range=allow_range, clamped=clamped) for p in ps]
        sizes = [k[1] for k in ks]
        if len(set(sizes)) == 3:
            break
    rat = (rng.random() < .5) if rational is None else rational
    n = sizes[0] * sizes[1] * sizes[2]
    P = G.points(rng, n, dim)
    if rat:
        P = G.homogeneous(P, G.weights(rng, n))
    G.count('shape', 'volume-rat' if rat else 'volume')
    return dict(kind='volume', rat=rat, pu=ps[0], pv=ps[1], pw=ps[2], kvu=ks[0][0], kvv=ks[1][0], kvw=ks[2][0],
                su=sizes[0], sv=sizes[1], sw=sizes[2], P=P, dim=dim)


def mixed_sign_shape(rng):
    """a rational line / bilinear patch (degree 1, clamped) whose weight function W = 1 + (w - 1) u vanishes at u0 = 1/(1 - w),
    w < 0: (shape, parameters with W = 0, parameters with W != 0)"""
    w = rng.choice([F(-1), F(-3), F(-7)])      # u0 = 1/2, 1/4, 1/8: W(u0) is exactly 0 in doubles too (float companion)
    u0 = 1 / (1 - w)
    pt = lambda dim: [F(rng.randint(-6, 6), rng.choice([1, 2])) for _ in range(dim)]
    if rng.random() < .5:
        dim = rng.choice([2, 3])
        a, b = pt(dim), pt(dim)
        d = dict(kind='curve', rat=True, p=1, kv=[F(0), F(0), F(1), F(1)], n=2, P=[a + [F(1)], [x * w for x in b] + [w]], dim=dim)
        return d, [u0], [u0 / 2]
    a, b, c_, e = pt(3), pt(3), pt(3), pt(3)
    # weights 1, 1 (u = 0 row) and w, w (u = 1 row): W(u, v) = 1 + (w - 1) u for every v
    P = [a + [F(1)], b + [F(1)], [x * w for x in c_] + [w], [x * w for x in e] + [w]]
    d = dict(kind='surface', rat=True, pu=1, pv=1, kvu=[F(0), F(0), F(1), F(1)], kvv=[F(0), F(0), F(1), F(1)], su=2, sv=2, P=P, dim=3)
    v = F(rng.randint(0, 4), 4)
    return d, [u0, v], [u0 / 2, v]


def empty_last_shape(rng):
    """(definition, index of the direction with the empty last span)"""
    r = rng.random()
    rat = rng.random() < .4
    if r < .5:
        p = rng.randint(1, 4)
        kv, n = G.knots_empty_last(rng, p)
        P = G.points(rng, n, rng.choice([2, 3]))
        if rat:
            P = G.homogeneous(P, G.weights(rng, n))
        return dict(kind='curve', rat=rat, p=p, kv=kv, n=n, P=P, dim=len(P[0]) - (1 if rat else 0)), 0
    nd = 2 if r < .85 else 3
    k = rng.randrange(nd)
    degs, kvs, sizes = [], [], []
    for i in range(nd):
        p = rng.randint(1, 3 if nd == 2 else 2)
        if i == k:
            kv, n = G.knots_empty_last(rng, p)
        else:
            kv, n = G.knots(rng, p, max_interior=2 if nd == 2 else 1, allow_range=False, clamped=rng.random() < .7)
        degs.append(p); kvs.append(kv); sizes.append(n)
    tot = 1
    for n in sizes:
        tot *= n
    P = G.points(rng, tot, 3)
    if rat:
        P = G.homogeneous(P, G.weights(rng, tot))
    if nd == 2:
        return dict(kind='surface', rat=rat, pu=degs[0], pv=degs[1], kvu=kvs[0], kvv=kvs[1], su=sizes[0], sv=sizes[1], P=P, dim=3), k
    return dict(kind='volume', rat=rat, pu=degs[0], pv=degs[1], pw=degs[2], kvu=kvs[0], kvv=kvs[1], kvw=kvs[2],
                su=sizes[0], sv=sizes[1], sw=sizes[2], P=P, dim=3), k


def unit_range(kv):
    return kv[0] == 0 and kv[-1] == 1


def build(d, **kw):
    """real geomdl object for a definition; knot vectors outside [0,1] are kept (normalize_kv=False)"""
    from geomdl import BSpline, NURBS
    mod = NURBS if d['rat'] else BSpline
    if d['kind'] == 'curve':
        norm = kw.pop('normalize_kv', unit_range(d['kv']))
        c = mod.Curve(normalize_kv=norm, **kw)
        c.degree = d['p']
        if d['rat']:
            c.ctrlptsw = qpts(d['P'])
        else:
            c.ctrlpts = qpts(d['P'])
        c.knotvector = qs(d['kv'])
        return c
    if d['kind'] == 'surface':
        norm = kw.pop('normalize_kv', unit_range(d['kvu']) and unit_range(d['kvv']))
        s = mod.Surface(normalize_kv=norm, **kw)
        s.degree_u, s.degree_v = d['pu'], d['pv']
        s.set_ctrlpts(qpts(d['P']), d['su'], d['sv'])
        s.knotvector_u = qs(d['kvu'])
        s.knotvector_v = qs(d['kvv'])
        return s
    if d['kind'] == 'volume':
        norm = kw.pop('normalize_kv', unit_range(d['kvu']) and unit_range(d['kvv']) and unit_range(d['kvw']))
        v = mod.Volume(normalize_kv=norm, **kw)
        v.degree_u, v.degree_v, v.degree_w = d['pu'], d['pv'], d['pw']
        v.set_ctrlpts(qpts(d['P']), d['su'], d['sv'], d['sw'])
        v.knotvector_u = qs(d['kvu'])
        v.knotvector_v = qs(d['kvv'])
        v.knotvector_w = qs(d['kvw'])
        return v
    raise ValueError(d['kind'])


def args(d):
    """the shape part of a driver line"""
    r = '1' if d['rat'] else '0'
    if d['kind'] == 'curve':
        return "%s %d %s %s" % (r, d['p'], show_list(d['kv']), show_pts(d['P']))
    if d['kind'] == 'surface':
        return "%s %d %d %s %s %d %d %s" % (r, d['pu'], d['pv'], show_list(d['kvu']), show_list(d['kvv']), d['su'], d['sv'], show_pts(d['P']))
    return "%s %d %d %d %s %s %s %d %d %d %s" % (r, d['pu'], d['pv'], d['pw'], show_list(d['kvu']), show_list(d['kvv']), show_list(d['kvw']),
                                                 d['su'], d['sv'], d['sw'], show_pts(d['P']))


def dirs(d):
    """per direction: (degree, knot vector, size)"""
    if d['kind'] == 'curve':
        return [(d['p'], d['kv'], d['n'])]
    if d['kind'] == 'surface':
        return [(d['pu'], d['kvu'], d['su']), (d['pv'], d['kvv'], d['sv'])]
    return [(d['pu'], d['kvu'], d['su']), (d['pv'], d['kvv'], d['sv']), (d['pw'], d['kvw'], d['sw'])]


def rand_params(rng, d):
    return [G.param(rng, kv, p, n) for (p, kv, n) in dirs(d)]


def from_obj(o):
    """definition dict (homogeneous points for rational objects) read back from a geomdl object"""
    rat = bool(o.rational)
    P = [[c.q if hasattr(c, 'q') else F(c) for c in pt] for pt in (o.ctrlptsw if rat else o.ctrlpts)]
    tof = lambda l: [x.q if hasattr(x, 'q') else F(x) for x in l]
    if o.pdimension == 1:
        return dict(kind='curve', rat=rat, p=o.degree, kv=tof(o.knotvector), n=len(P), P=P, dim=o.dimension)
    if o.pdimension == 2:
        return dict(kind='surface', rat=rat, pu=o.degree_u, pv=o.degree_v, kvu=tof(o.knotvector_u), kvv=tof(o.knotvector_v),
                    su=o.ctrlpts_size_u, sv=o.ctrlpts_size_v, P=P, dim=o.dimension)
    return dict(kind='volume', rat=rat, pu=o.degree_u, pv=o.degree_v, pw=o.degree_w, kvu=tof(o.knotvector_u),
                kvv=tof(o.knotvector_v), kvw=tof(o.knotvector_w), su=o.ctrlpts_size_u, sv=o.ctrlpts_size_v,
                sw=o.ctrlpts_size_w, P=P, dim=o.dimension)


def views_why(o):
    """the three views of a rational object (ctrlptsw / ctrlpts / weights, the latter two possibly cached) must describe the
    same net: None, or a sentence saying what is inconsistent (non-rational objects: None)"""
    if not o.rational:
        return None
    tof = lambda x: x.q if hasattr(x, 'q') else F(x)
    pw, pts, ws = o.ctrlptsw, o.ctrlpts, o.weights
    if len(pts) != len(pw) or len(ws) != len(pw):
        return "the object reports %d homogeneous control points but %d points / %d weights" % (len(pw), len(pts), len(ws))
    for k, (h, x, w) in enumerate(zip(pw, pts, ws)):
        if tof(h[-1]) != tof(w) or any(tof(a) != tof(b) * tof(w) for a, b in zip(h, x)):
            return "control point %d: ctrlpts / weights are not the homogeneous point divided by / its weight" % k
    return None


# ------------------------------------------------------------------ independent exact evaluation (oracle)
def eval_ref(d, params):
    """the definition: tensor-product sum of Cox-de Boor functions times control points / weight function"""
    ds = dirs(d)
    Ns = []
    for (p, kv, n), u in zip(ds, params):
        Ns.append([G.cox_de_boor(kv, p, i, u, kv[n]) for i in range(n)])
    P = d['P']
    dim = len(P[0])
    acc = [F(0)] * dim
    if d['kind'] == 'curve':
        for i, Ni in enumerate(Ns[0]):
            if Ni:
                acc = [a + Ni * c for a, c in zip(acc, P[i])]
    elif d['kind'] == 'surface':
        sv = d['sv']
        for a_, Na in enumerate(Ns[0]):
            if Na:
                for b_, Nb in enumerate(Ns[1]):
                    if Nb:
                        acc = [x + Na * Nb * c for x, c in zip(acc, P[b_ + sv * a_])]
    else:
        su, sv = d['su'], d['sv']
        for a_, Na in enumerate(Ns[0]):
            if Na:
                for b_, Nb in enumerate(Ns[1]):
                    if Nb:
                        for c_, Nc in enumerate(Ns[2]):
                            if Nc:
                                acc = [x + Na * Nb * Nc * c for x, c in zip(acc, P[b_ + sv * (a_ + su * c_)])]
    if d['rat']:
        return [c / acc[-1] for c in acc[:-1]]
    return acc
