#!/usr/bin/env python3
"""Float-mode companion (DESIGN.md section 4.5): runs a property module's impl() on the given cases with
the UNMODIFIED implementation in ordinary IEEE doubles (no exact-number layer installed, `core.q`
returns a float) in a separate interpreter and prints the outputs as a JSON list.

usage: floatrun.py <pid> <cases.json>        (VERIF_REPO selects the tree, default /repo)

The parent (core.float_companion) compares every number of every output with the exact-mode output of
the same implementation: a deviation beyond the property's tolerance means the floating-point code path
(number formatting / parsing, float() conversions, rounding, int() truncation, math functions) does
something the exact run cannot see.
"""
import sys, os, json, importlib
VERIF = os.path.dirname(os.path.dirname(os.path.abspath(__file__)))
sys.path.insert(0, os.path.join(VERIF, 'harness'))
import core
core.FLOAT_MODE[0] = True
sys.path.insert(0, core.REPO)


def main():
    pid, path = sys.argv[1], sys.argv[2]
    mod = importlib.import_module('props.' + pid.lower())
    cases = [core.Case.from_json(c) for c in json.load(open(path))]
    import geomdl
    here = os.path.realpath(geomdl.__file__)
    assert here.startswith(os.path.realpath(core.REPO) + os.sep), here
    out = []

    for c in cases:
        out.append(str(core.safe(mod.impl, c)))
    json.dump(out, sys.stdout)


if __name__ == '__main__':
    main()
