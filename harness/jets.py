"""Independent exact derivative oracle: span polynomials as Taylor coefficient lists around the
parameter, Cox-de Boor recursion on the span, series division for rational shapes."""
from fractions import Fraction as F
from math import factorial
import gen as G


def basis_jets(kv, p, n, u, order):
    """Taylor coefficients (powers of t = x - u, up to `order`) of N_{i,p} restricted to the span of u
    (right-hand span; last non-empty span at the domain end).  Returns (span, {i: [c0..c_order]})"""
    k = G.span_of(kv, p, n, u)
    m = order
    tab = {i: ([F(1)] + [F(0)] * m if i == k else [F(0)] * (m + 1)) for i in range(k - p, k + p + 2)}
    for q in range(1, p + 1):
        new = {}
        for i in range(k - p, k + p + 2 - q):
            acc = [F(0)] * (m + 1)
            if i < 0 or i + q + 1 >= len(kv):
                new[i] = acc; continue
            d1 = kv[i + q] - kv[i]
            if d1 != 0:
                a0 = (u - kv[i]) / d1; a1 = 1 / d1            # (x - U_i)/d1 = a0 + a1 t
                src = tab[i]
                for e in range(m + 1):
                    acc[e] += a0 * src[e] + (a1 * src[e - 1] if e > 0 else 0)
            d2 = kv[i + q + 1] - kv[i + 1]
            if d2 != 0:
                b0 = (kv[i + q + 1] - u) / d2; b1 = -1 / d2
                src = tab[i + 1]
                for e in range(m + 1):
                    acc[e] += b0 * src[e] + (b1 * src[e - 1] if e > 0 else 0)
            new[i] = acc
        tab = new
    return k, {i: tab[i] for i in range(k - p, k + 1)}


def curve_ders(d, u, order):
    """exact derivatives 0..order of a curve definition (dict of shapes.py) at u"""
    p, kv, n, P = d['p'], d['kv'], d['n'], d['P']
    k, J = basis_jets(kv, p, n, u, order)
    dim = len(P[0])
    A = [[sum(J[i][e] * P[i][c] for i in range(k - p, k + 1)) for c in range(dim)] for e in range(order + 1)]
    if not d['rat']:
        return [[factorial(e) * x for x in A[e]] for e in range(order + 1)]
    C = []
    for e in range(order + 1):
        v = [A[e][c] for c in range(dim - 1)]
        for i in range(1, e + 1):
            v = [x - A[i][-1] * y for x, y in zip(v, C[e - i])]
        C.append([x / A[0][-1] for x in v])
    return [[factorial(e) * x for x in C[e]] for e in range(order + 1)]


def surface_ders(d, u, v, order):
    """exact mixed derivatives S^(k,l), 0 <= k,l <= order"""
    ku, Ju = basis_jets(d['kvu'], d['pu'], d['su'], u, order)
    kv_, Jv = basis_jets(d['kvv'], d['pv'], d['sv'], v, order)
    P, sv = d['P'], d['sv']
    dim = len(P[0])
    A = [[[sum(Ju[a][k] * Jv[b][l] * P[b + sv * a][c] for a in range(ku - d['pu'], ku + 1) for b in range(kv_ - d['pv'], kv_ + 1))
           for c in range(dim)] for l in range(order + 1)] for k in range(order + 1)]
    if not d['rat']:
        return [[[factorial(k) * factorial(l) * x for x in A[k][l]] for l in range(order + 1)] for k in range(order + 1)]
    C = [[None] * (order + 1) for _ in range(order + 1)]
    for k in range(order + 1):
        for l in range(order + 1):
            v_ = [A[k][l][c] for c in range(dim - 1)]
            for i in range(k + 1):
                for j in range(l + 1):
                    if i == 0 and j == 0:
                        continue
                    w = A[i][j][-1]
                    v_ = [x - w * y for x, y in zip(v_, C[k - i][l - j])]
            C[k][l] = [x / A[0][0][-1] for x in v_]
    return [[[factorial(k) * factorial(l) * x for x in C[k][l]] for l in range(order + 1)] for k in range(order + 1)]
