"""Trimmed tessellation (C15): generators, implementation runs and exact oracles for the streams
`trimcell` (one call of _tessellate.surface_trim_tessellate) and `trimgrid` (tessellate.TrimTessellate: the cell loop of
make_triangle_mesh with the trimming function, then fix_numbering).

Everything runs the real geomdl in exact rational arithmetic.  The numbers that stay doubles in the routine
(tol = 10e-8, tol ** 2, 1.0 + tol, the default tolerance of ray.intersect) are recomputed here and written into the
op line; the rounded square roots of ray._intersect3d (vector_magnitude of the cross product) are passed as a table
radicand -> root (core.impl_sqrt: the double the implementation computes, checked to be the root up to rounding)."""
import sys, math
from fractions import Fraction as F
from core import Case, q, qs, qpts, fr, show_list, show_pts
import core
import gen as G

TOL = F(10e-8)
TOLS = F(10e-8 ** 2)
HI = F(1.0 + 10e-8)
RTOL = F((1 << 8) * sys.float_info.epsilon)
BAND = F(1, 2 ** 50)


# ------------------------------------------------------------------ text
def show_trims(trims):
    return "|".join("%d:%s" % (1 if r else 0, show_pts(p)) for p, r in trims) if trims else "-"


def show_flags(f):
    return "".join('1' if b else '0' for b in f)


def show_cell(flags, vlst, tlst):
    return "fl=%s V=%s T=%s" % (",".join(show_flags(f) for f in flags),
                                ";".join("%d@%s,%s" % (i, fr(u), fr(v)) for i, (u, v) in vlst) if vlst else "-",
                                ";".join("%d:%s" % (i, ",".join(str(x) for x in t)) for i, t in tlst) if tlst else "-")


def _fx(x):
    return x.q if hasattr(x, 'q') else F(x)


# ------------------------------------------------------------------ square-root table
def _rad(a1, a2, b1, b2):
    c = (a2[0] - a1[0]) * (b2[1] - b1[1]) - (a2[1] - a1[1]) * (b2[0] - b1[0])
    return c, c * c


def sq_table(cells, trims):
    """radicand -> double root for every (edge, trim segment) pair of the given cells (corner uv quadruples)"""
    from geomdl import linalg
    tab = {}
    for cs in cells:
        edges = [(cs[0], cs[1]), (cs[1], cs[2]), (cs[2], cs[3]), (cs[3], cs[0])]
        for pts, _r in trims:
            for s1, s2 in zip(pts, pts[1:]):
                for e1, e2 in edges:
                    c, rad = _rad(e1, e2, s1, s2)
                    if rad not in tab:
                        tab[rad] = core.impl_sqrt(rad, lambda: linalg.vector_magnitude(qs([0, 0, c])))
                        if rad != 0:
                            G.count('trim_sqrt', 'exact' if tab[rad] * tab[rad] == rad else 'rounded')
    return tab


def show_sq(tab):
    return ";".join("%s,%s" % (fr(k), fr(v)) for k, v in sorted(tab.items())) if tab else "-"


def consts():
    return "%s %s %s %s" % (fr(TOL), fr(TOLS), fr(HI), fr(RTOL))


# ------------------------------------------------------------------ generators
DIRS = [(12, 1), (9, 5), (5, 8), (1, 11), (-3, 10), (-8, 7), (-11, 2), (-10, -4), (-6, -9), (-1, -12), (4, -10), (9, -6), (11, -3)]


def star_polygon(rng, cx, cy, rmax, k=None):
    """simple (star-shaped) closed polygon with rational vertices in general position around (cx, cy)"""
    k = k or rng.randint(3, 7)
    ds = sorted(rng.sample(DIRS, k), key=lambda d: math.atan2(d[1], d[0]))
    pts = []
    for (a, b) in ds:
        r = rmax * F(rng.randint(40, 100), 100) / 13
        pts.append([cx + r * a, cy + r * b])
    if rng.random() < .4:
        pts.reverse()                      # clockwise
    return pts + [pts[0]]


def grid_uv(su, sv, s):
    """exact parameters of the grid vertices as make_triangle_mesh accumulates them, in id order"""
    nu, nv = len(range(0, su, s)), len(range(0, sv, s))
    ju, jv = F(s, su - 1), F(s, sv - 1)
    return nu, nv, [[i * ju, j * jv] for i in range(nu) for j in range(nv)]


def grid_cells(su, sv, s):
    nu, nv, uv = grid_uv(su, sv, s)
    return [[uv[j + i * nv], uv[j + (i + 1) * nv], uv[j + 1 + (i + 1) * nv], uv[j + 1 + i * nv]]
            for i in range(nu - 1) for j in range(nv - 1)]


def gen_trims(rng, su, sv, s, kind):
    nu, nv, uv = grid_uv(su, sv, s)
    du, dv = F(s, su - 1), F(s, sv - 1)
    off = lambda: F(rng.randint(1, 30), 31 * 37)
    # offsets around the tolerances of the routine: tol = 1e-7 (parameter window, snapping), tol**2 = 1e-14 (corner offsets)
    tiny = lambda: rng.choice([F(0), F(0), F(3, 10 ** 8), -F(3, 10 ** 8), F(3, 10 ** 7), -F(3, 10 ** 7), F(99, 10 ** 9), F(101, 10 ** 9),
                               F(5, 10 ** 15), -F(5, 10 ** 15), F(3, 10 ** 14), -F(3, 10 ** 14), F(1, 10 ** 14), -F(1, 10 ** 14)])
    trims = []
    if kind == 'general':
        for _ in range(rng.choice([1, 1, 1, 2, 2, 3])):
            cx, cy = F(rng.randint(15, 85), 101), F(rng.randint(15, 85), 103)
            trims.append([star_polygon(rng, cx, cy, F(rng.randint(8, 45), 100)), False])
    elif kind == 'reversed':
        cx, cy = F(rng.randint(30, 70), 101), F(rng.randint(30, 70), 103)
        trims.append([star_polygon(rng, cx, cy, F(rng.randint(25, 60), 100)), True])
        if rng.random() < .5:     # a hole inside the kept region
            trims.insert(rng.randint(0, 1), [star_polygon(rng, cx + off() / 9, cy - off() / 9, F(rng.randint(4, 12), 100)), False])
        if rng.random() < .25:
            trims.append([star_polygon(rng, F(rng.randint(10, 90), 101), F(rng.randint(10, 90), 103), F(rng.randint(10, 30), 100)), True])
    elif kind == 'corner':
        # trim vertices exactly ON grid vertices, and an edge passing exactly through a grid vertex
        idx = rng.sample(range(len(uv)), min(len(uv), rng.randint(3, 4)))
        c = [sum(uv[i][0] for i in idx) / len(idx), sum(uv[i][1] for i in idx) / len(idx)]
        pts = sorted([list(uv[i]) for i in idx], key=lambda p: math.atan2(float(p[1] - c[1]), float(p[0] - c[0])))
        r = rng.random()
        if r < .4:
            k = rng.randrange(len(pts))
            pts[k] = [pts[k][0] + off() * du, pts[k][1] - off() * dv]
        elif r < .7:
            pts = [[p[0] + tiny(), p[1] + tiny()] for p in pts]      # within / just outside the tolerances of a grid vertex
        trims.append([pts + [pts[0]], rng.random() < .2])
    elif kind == 'incell':
        # trims entirely inside one cell (around its centre, around a triangle centre, next to a corner)
        for _ in range(rng.choice([1, 2])):
            i, j = rng.randrange(nu - 1), rng.randrange(nv - 1)
            a = uv[j + i * nv]
            where = rng.choice(['centre', 'tri1', 'tri2', 'corner'])
            if where == 'centre':
                cx, cy, r = a[0] + du / 2, a[1] + dv / 2, min(du, dv) * F(rng.randint(10, 45), 100)
            elif where == 'tri1':      # centre of triangle (v1, v2, v3) = a + (2/3 du, 1/3 dv)
                cx, cy, r = a[0] + 2 * du / 3 + off() * du / 50, a[1] + dv / 3, min(du, dv) * F(rng.randint(5, 20), 100)
            elif where == 'tri2':
                cx, cy, r = a[0] + du / 3, a[1] + 2 * dv / 3 - off() * dv / 50, min(du, dv) * F(rng.randint(5, 20), 100)
            else:
                cx, cy, r = a[0] + du * F(1, 7), a[1] + dv * F(1, 9), min(du, dv) * F(rng.randint(12, 30), 100)
            trims.append([star_polygon(rng, cx, cy, r), rng.random() < .15])
    elif kind == 'gridline':
        # axis-aligned rectangle whose sides lie exactly ON grid lines (collinear edge / segment pairs) or just off them
        i0, i1 = sorted(rng.sample(range(nu), 2)) if nu > 2 else (0, 1)
        j0, j1 = sorted(rng.sample(range(nv), 2)) if nv > 2 else (0, 1)
        e = [rng.choice([F(0), F(0), off() * du / 100, -off() * du / 100, tiny(), tiny()]) for _ in range(4)]
        a, b, c, d_ = i0 * du + e[0], i1 * du + e[1], j0 * dv + e[2], j1 * dv + e[3]
        pts = [[a, c], [b, c], [b, d_], [a, d_]]
        if rng.random() < .5:
            pts.reverse()
        trims.append([pts + [pts[0]], rng.random() < .25])
    elif kind == 'spline':
        # closed B-spline trim curves (degree 2 / 3): the routine only reads their evaluated points
        for _ in range(rng.choice([1, 1, 2])):
            cx, cy = F(rng.randint(25, 75), 101), F(rng.randint(25, 75), 103)
            p = rng.choice([2, 2, 3])
            cp = star_polygon(rng, cx, cy, F(rng.randint(15, 45), 100), k=rng.randint(max(4, p + 1), 7))
            n = len(cp)
            kv = [F(0)] * (p + 1) + [F(i, n - p) for i in range(1, n - p)] + [F(1)] * (p + 1)
            ss = rng.randint(5, 12)
            trims.append(dict(curve=dict(p=p, cp=cp, kv=kv, ss=ss), rev=rng.random() < .15))
    elif kind == 'outside':
        # partly outside the unit square / crossing the boundary
        cx, cy = rng.choice([F(0), F(1), F(1, 2)]) + off(), rng.choice([F(0), F(1)]) - off()
        trims.append([star_polygon(rng, cx, cy, F(rng.randint(20, 50), 100)), False])
    elif kind == 'odd':
        # self-intersecting (bow tie), open polyline, degenerate (two points, one point, empty)
        cx, cy = F(rng.randint(30, 70), 101), F(rng.randint(30, 70), 103)
        p = star_polygon(rng, cx, cy, F(rng.randint(20, 45), 100), k=4)
        r = rng.random()
        if r < .4:
            p[1], p[2] = p[2], p[1]
        elif r < .7:
            p = p[:-1]                       # not closed
        elif r < .8:
            p = p[:2]
        else:
            p = p[:1]
        trims.append([p, rng.random() < .2])
        if rng.random() < .5:
            trims.append([star_polygon(rng, F(rng.randint(15, 85), 101), F(rng.randint(15, 85), 103), F(rng.randint(8, 30), 100)), False])
    return trims


GRID_KINDS = ['general'] * 6 + ['reversed'] * 3 + ['corner'] * 4 + ['incell'] * 3 + ['gridline'] * 3 + ['spline'] * 3 + ['outside', 'odd']


def build_curve(c):
    from geomdl import BSpline
    crv = BSpline.Curve()
    crv.degree = c['p']
    crv.ctrlpts = qpts(c['cp'])
    crv.knotvector = qs(c['kv'])
    crv.sample_size = c['ss']
    return crv


def resolve_trims(trims):
    """spline trims -> (their evaluated polyline, reversed), computed by geomdl's evaluation in exact mode (evaluation is
    property C01; the trimming routine only reads `evalpts`); polygonal trims unchanged.  Also returns the curve data."""
    res, curves = [], []
    for t in trims:
        if isinstance(t, dict):
            pts = [[_fx(x) for x in pt] for pt in build_curve(t['curve']).evalpts]
            res.append([pts, t['rev']]); curves.append(t['curve'])
        else:
            res.append(t); curves.append(None)
    return res, curves


def gen_grid(rng, quick, n):
    out = []
    for _ in range(n):
        s = rng.choice([1, 1, 1, 2, 3])
        hi = 5 if quick else 8
        ku, kv = rng.randint(1, hi), rng.randint(1, hi)
        if ku == kv:
            kv = kv % hi + 1
        su, sv = ku * s + 1, kv * s + 1
        if rng.random() < .15:
            su += rng.randint(0, s - 1)           # spacing not dividing size - 1
        kind = rng.choice(GRID_KINDS)
        trims, curves = resolve_trims(gen_trims(rng, su, sv, s, kind))
        G.count('trimgrid', kind)
        via = rng.choice(['class', 'class', 'surface'])
        d = dict(su=su, sv=sv, s=s, trims=trims, sub=kind, via=via)
        if any(curves):
            d['curves'] = curves
        tab = sq_table(grid_cells(su, sv, s), trims)
        line = "mesh trim %s %s %s %d %d %d" % (consts(), show_sq(tab), show_trims(trims), su, sv, s)
        out.append(Case('trimgrid', line, d))
    return out


def gen_cell(rng, quick, n):
    """one call with free corner vertices (convex ccw quadrilaterals mostly, also rectangles and odd ones), free
    initial flags and numbering"""
    out = []
    for _ in range(n):
        r = rng.random()
        if r < .5:
            a, b = F(rng.randint(0, 6), 10), F(rng.randint(0, 6), 10)
            w, h = F(rng.randint(1, 4), 10), F(rng.randint(1, 4), 10)
            cs = [[a, b], [a + w, b], [a + w, b + h], [a, b + h]]
            sub = 'rect'
        elif r < .85:
            cx, cy = F(rng.randint(30, 70), 100), F(rng.randint(30, 70), 100)
            cs = star_polygon(rng, cx, cy, F(rng.randint(15, 40), 100), k=4)[:4]
            sub = 'quad'
        else:
            cs = [[F(rng.randint(0, 10), 10), F(rng.randint(0, 10), 10)] for _ in range(4)]
            sub = 'any'
        ids = rng.sample(range(40), 4)
        fl = []
        for _k in range(4):
            x = rng.random()
            fl.append([False, False, False] if x < .6 else [rng.random() < .5, rng.random() < .5, rng.random() < .5])
        kind = rng.choice(['general', 'general', 'reversed', 'incell', 'odd', 'touch'])
        if kind == 'touch':
            # a trim with a vertex exactly on a corner and an edge through another corner
            m = [(cs[0][0] + cs[2][0]) / 2 + F(1, 97), (cs[0][1] + cs[2][1]) / 2]
            p = [list(cs[0]), [2 * cs[1][0] - m[0], 2 * cs[1][1] - m[1]], m]
            trims = [[p + [p[0]], rng.random() < .2]]
        elif kind == 'incell':
            m = [sum(c[0] for c in cs) / 4, sum(c[1] for c in cs) / 4]
            trims = [[star_polygon(rng, m[0] + F(1, 211), m[1], F(rng.randint(3, 9), 100)), rng.random() < .2]]
        else:
            trims = gen_trims(rng, 4, 5, 1, kind)
        vidx, tidx = rng.randint(40, 60), rng.randint(0, 30)
        tab = sq_table([cs], trims)
        corners = "|".join("%d:%s,%s:%s" % (i, fr(c[0]), fr(c[1]), show_flags(f)) for i, c, f in zip(ids, cs, fl))
        line = "mesh trimcell %s %s %s %s %d %d" % (consts(), show_sq(tab), show_trims(trims), corners, vidx, tidx)
        G.count('trimcell', sub + ':' + kind)
        out.append(Case('trimcell', line, dict(cs=cs, ids=ids, fl=fl, trims=trims, vidx=vidx, tidx=tidx, sub=kind)))
    return out


# ------------------------------------------------------------------ implementation side
def make_trims(trims, curves=None, unset_default=False):
    import geomdl.freeform as freeform
    res = []
    for k, (pts, rev) in enumerate(trims):
        if curves and curves[k]:
            t = build_curve(curves[k])
        else:
            t = freeform.Freeform()
            t.evaluate(points=qpts(pts))
        if rev or not (unset_default and k % 2 == 0):
            t.opt = ['reversed', 1 if rev else 0]      # otherwise left unset: TrimTessellate.tessellate fills in the default sense 0
        res.append(t)
    return res


def _vflags(v):
    return [bool(v.inside), bool(v.opt_get('trim')), bool(v.opt_get('no_trim'))]


def run_cell(d):
    from geomdl import _tessellate, elements
    vs = []
    for i, c, f in zip(d['ids'], d['cs'], d['fl']):
        v = elements.Vertex()
        v.id = i
        v.uv = qs(c)
        v.inside = f[0]
        if f[1]:
            v.opt = ['trim', True]
        if f[2]:
            v.opt = ['no_trim', True]
        vs.append(v)
    vl, tl = _tessellate.surface_trim_tessellate(vs[0], vs[1], vs[2], vs[3], d['vidx'], d['tidx'], make_trims(d['trims']), {})
    return ([_vflags(v) for v in vs], [(v.id, (_fx(v.uv[0]), _fx(v.uv[1]))) for v in vl], [(t.id, list(t.data)) for t in tl])


def run_grid(d):
    """-> (per-cell records, final vertices [(old id, new id, uv)], faces)"""
    from geomdl import tessellate
    import props.c15 as C15
    trace = []
    old = {}
    tt = tessellate.TrimTessellate()
    real = tt._tsl_trim_func

    def rec(v1, v2, v3, v4, vidx, tidx, trims, args):
        for v in (v1, v2, v3, v4):
            old.setdefault(id(v), (v.id, v))
        vl, tl = real(v1, v2, v3, v4, vidx, tidx, trims, args)
        for v in vl:
            old.setdefault(id(v), (v.id, v))
        trace.append(dict(corners=[(old[id(v)][0], (_fx(v.uv[0]), _fx(v.uv[1]))) for v in (v1, v2, v3, v4)],
                          flags=[_vflags(v) for v in (v1, v2, v3, v4)], vidx=vidx, tidx=tidx,
                          verts=[(v.id, (_fx(v.uv[0]), _fx(v.uv[1]))) for v in vl], tris=[(t.id, list(t.data)) for t in tl]))
        return vl, tl
    tt._tsl_trim_func = rec
    trims = make_trims(d['trims'], d.get('curves'), unset_default=True)
    if d.get('via') == 'surface':
        # through the public surface API: Surface.trims, Surface.tessellator, Surface.tessellate
        sd = dict(rat=False, pu=1, pv=2, Uu=[F(0), F(0), F(1), F(1)], Uv=[F(0), F(0), F(0), F(1), F(1), F(1)], cu=2, cv=3,
                  P=[[F(i), F(j), F(i * j)] for i in range(2) for j in range(3)], w=None)
        srf = C15._build(sd, d['su'], d['sv'])
        srf.trims = trims
        srf.tessellator = tt
        srf.tessellate(vertex_spacing=d['s'])
    else:
        tt.tessellate(C15._synthetic(d['su'], d['sv']), size_u=d['su'], size_v=d['sv'], vertex_spacing=d['s'], trims=trims)
    verts = [(old[id(v)][0], v.id, (_fx(v.uv[0]), _fx(v.uv[1]))) for v in tt.vertices]
    return trace, verts, [list(f.data) for f in tt.faces]


def impl(c):
    d = c.data
    if c.kind == 'trimcell':
        return show_cell(*run_cell(d))
    trace, verts, faces = run_grid(d)
    cells = " | ".join(show_cell(t['flags'], t['verts'], t['tris']) for t in trace)
    return "%s || old=%s uv=%s F=%s" % (cells, ",".join(str(v[0]) for v in verts) if verts else "-",
                                        ";".join("%s,%s" % (fr(v[2][0]), fr(v[2][1])) for v in verts) if verts else "-",
                                        ";".join(",".join(str(i) for i in f) for f in faces) if faces else "-")


# ------------------------------------------------------------------ exact oracles (independent of the Lean model)
def crossing_inside(poly, p):
    """even-odd test: edges crossed by the ray from p to +x (half-open rule in y); None when p is on the boundary"""
    n = 0
    for a, b in zip(poly, poly[1:]):
        cr = (b[0] - a[0]) * (p[1] - a[1]) - (p[0] - a[0]) * (b[1] - a[1])
        if cr == 0 and min(a[0], b[0]) <= p[0] <= max(a[0], b[0]) and min(a[1], b[1]) <= p[1] <= max(a[1], b[1]):
            return None
        if (a[1] <= p[1]) != (b[1] <= p[1]):
            x = a[0] + (p[1] - a[1]) * (b[0] - a[0]) / (b[1] - a[1])
            if x > p[0]:
                n += 1
    return n % 2 == 1


def winding(poly, p):
    """winding number by summing quadrant changes (independent of the crossing rule of wn_poly); None on the boundary"""
    def quad(v):
        x, y = v[0] - p[0], v[1] - p[1]
        if x > 0 and y >= 0: return 0
        if x <= 0 and y > 0: return 1
        if x < 0 and y <= 0: return 2
        if x >= 0 and y < 0: return 3
        return None
    tot = 0
    for a, b in zip(poly, poly[1:]):
        qa, qb = quad(a), quad(b)
        if qa is None or qb is None:
            return None
        dq = (qb - qa) % 4
        if dq == 3:
            dq = -1
        elif dq == 2:
            cr = (a[0] - p[0]) * (b[1] - p[1]) - (a[1] - p[1]) * (b[0] - p[0])
            if cr == 0:
                return None
            dq = 2 if cr > 0 else -2
        tot += dq
    return tot // 4


def seg_meets_box(a, b, lo, hi):
    """does the closed segment a-b meet the closed box [lo, hi] (Liang-Barsky, exact)"""
    t0, t1 = F(0), F(1)
    for k in range(2):
        dlt = b[k] - a[k]
        if dlt == 0:
            if a[k] < lo[k] or a[k] > hi[k]:
                return False
        else:
            ta, tb = (lo[k] - a[k]) / dlt, (hi[k] - a[k]) / dlt
            if ta > tb:
                ta, tb = tb, ta
            t0, t1 = max(t0, ta), min(t1, tb)
            if t0 > t1:
                return False
    return True


def closed(poly):
    return len(poly) >= 4 and poly[0] == poly[-1]


def band_check(cells, trims, tab):
    """assumption of the model of ray.intersect: the squared distance of the two evaluated points is not within
    relative 2^-50 of rtol^2 (only there `sqrt(x) < tol` and `x < tol^2` could differ in doubles)"""
    for cs in cells:
        edges = [(cs[0], cs[1]), (cs[1], cs[2]), (cs[2], cs[3]), (cs[3], cs[0])]
        for pts, _r in trims:
            for s1, s2 in zip(pts, pts[1:]):
                for e1, e2 in edges:
                    c, rad = _rad(e1, e2, s1, s2)
                    if abs(c) < RTOL:
                        continue
                    m2 = tab[rad] * tab[rad]
                    d1 = [e2[0] - e1[0], e2[1] - e1[1]]; d2 = [s2[0] - s1[0], s2[1] - s1[1]]
                    pd = [s1[0] - e1[0], s1[1] - e1[1]]
                    t1 = (pd[0] * d2[1] - pd[1] * d2[0]) * c / m2
                    t2 = (pd[0] * d1[1] - pd[1] * d1[0]) * c / m2
                    dsq = sum((e1[k] + d1[k] * t1 - s1[k] - d2[k] * t2) ** 2 for k in range(2))
                    if abs(dsq - RTOL * RTOL) <= BAND * RTOL * RTOL:
                        return "ASSUMPTION: squared distance of the evaluated intersection points within 2^-50 of tol^2"
    return None


def oracle_cell(d):
    try:
        flags, vl, tl = run_cell(d)
    except Exception as e:
        return "surface_trim_tessellate raises %s: %s" % (type(e).__name__, str(e)[:100])
    why = band_check([d['cs']], d['trims'], sq_table([d['cs']], d['trims']))
    if why:
        return why
    return _cell_props(d['cs'], d['ids'], flags, d['vidx'], d['tidx'], vl, tl, d['trims'], free=True)


def _on_cell_edges(cs, p, slack):
    """p lies on (the line of) one of the four edges, within the parameter range (-tol, 1+tol), up to the snapping"""
    for a, b in zip(cs, cs[1:] + cs[:1]):
        dx, dy = b[0] - a[0], b[1] - a[1]
        n2 = dx * dx + dy * dy
        if n2 == 0:
            if abs(p[0] - a[0]) <= slack and abs(p[1] - a[1]) <= slack:
                return True
            continue
        # unsnapped point q = a + t d; snapping moves each coordinate by at most tol
        t = ((p[0] - a[0]) * dx + (p[1] - a[1]) * dy) / n2
        qx, qy = a[0] + t * dx, a[1] + t * dy
        if abs(p[0] - qx) <= slack and abs(p[1] - qy) <= slack and -2 * TOL - slack < t < 1 + 2 * TOL + slack:
            return True
    return False


def _cell_props(cs, ids, flags, vidx, tidx, vl, tl, trims, free=False):
    """properties of one call: ids, new vertices on the edges, triangle centres outside every non-reversed trim"""
    if all(f[0] for f in flags):
        if vl or tl:
            return "all four corners are inside, yet the cell returns %d vertices / %d triangles" % (len(vl), len(tl))
        return None
    uv = {}
    new = []
    for (i, p) in vl:
        uv[i] = p
        if not (i in ids and p == tuple(cs[ids.index(i)])):
            new.append((i, p))
    if [i for i, _ in new] != list(range(vidx, vidx + len(new))):
        return "new vertex ids %s are not vidx.. consecutively (vidx=%d)" % ([i for i, _ in new], vidx)
    for i, p in new:
        if not _on_cell_edges(cs, p, 2 * TOL):
            return "new vertex %d at (%s,%s) is not on an edge of its cell (within the tolerance)" % (i, fr(p[0]), fr(p[1]))
    last = tidx - 1
    for tid, t in tl:
        if not (tidx <= tid < tidx + max(0, len(vl) - 2)) or tid <= last:
            return "triangle id %d outside tidx..tidx+n-3 or not increasing" % tid
        last = tid
        if len(t) != 3 or any(i not in uv for i in t):
            return "triangle %s references a vertex the cell did not return" % t
        ctr = [sum(uv[i][k] for i in t) / 3 for k in range(2)]
        for pts, rev in trims:
            if not rev and closed(pts):
                w = winding(pts, ctr)
                if w is not None and w != 0:
                    return "kept triangle %s has its centre (%s,%s) inside a trim (winding number %d)" % (t, fr(ctr[0]), fr(ctr[1]), w)
    return None


def oracle_grid(d):
    su, sv, s, trims = d['su'], d['sv'], d['s'], d['trims']
    try:
        trace, verts, faces = run_grid(d)
    except Exception as e:
        return "trimmed tessellation (%s) raises %s: %s" % (d.get('sub'), type(e).__name__, str(e)[:100])
    for k, c in enumerate(d.get('curves') or []):
        if c and [[_fx(x) for x in pt] for pt in build_curve(c).evalpts] != d['trims'][k][0]:
            return "spline trim %d: evalpts differ from the polyline the model was given" % k
    cells = grid_cells(su, sv, s)
    why = band_check(cells, trims, sq_table(cells, trims))
    if why:
        return why
    nu, nv, guv = grid_uv(su, sv, s)
    if len(trace) != (nu - 1) * (nv - 1):
        return "%d calls of the trimming function for %d cells" % (len(trace), (nu - 1) * (nv - 1))
    # numbering handed to the calls continues; final numbering consecutive; faces reference final vertices
    vidx, tidx = nu * nv, 0
    for k, t in enumerate(trace):
        if (t['vidx'], t['tidx']) != (vidx, tidx):
            return "cell %d is called with vidx=%d tidx=%d, the running counts are %d / %d" % (k, t['vidx'], t['tidx'], vidx, tidx)
        vidx += len(t['verts']); tidx += len(t['tris'])
        if [c[1] for c in t['corners']] != [tuple(p) for p in cells[k]]:
            return "cell %d: corner parameters differ from the grid" % k
        why = _cell_props(cells[k], [c[0] for c in t['corners']], t['flags'], t['vidx'], t['tidx'], t['verts'], t['tris'], trims)
        if why:
            return "cell %d: %s" % (k, why)
    if [v[1] for v in verts] != list(range(len(verts))):
        return "final vertex ids are not consecutive"
    if len(set(v[0] for v in verts)) != len(verts):
        return "a vertex is kept twice by fix_numbering"
    if any(len(f) != 3 or any(i < 0 or i >= len(verts) for i in f) for f in faces):
        return "a face references a vertex that was not kept"
    if sorted(set(i for f in faces for i in f)) != list(range(len(verts))):
        return "a kept vertex is used by no face"
    if len(faces) != sum(len(t['tris']) for t in trace):
        return "face count differs from the sum over the cells"
    # vertex positions through the surface: the surface point at the stored parameters
    # "within one sampling cell": a cell the trim polylines stay away from (by more than the tolerance) is either kept
    # as the two triangles of the untrimmed tessellation or dropped entirely, according to where it lies
    plain = all(closed(p) for p, _ in trims)
    nrev = sum(1 for _, r in trims if r)
    for k, t in enumerate(trace):
        cs = cells[k]
        # the cell enlarged by tol**2 (theorem C15.trim_cell_no_trim_enters_is_whole: this margin suffices)
        lo = [min(c[0] for c in cs) - TOLS, min(c[1] for c in cs) - TOLS]
        hi = [max(c[0] for c in cs) + TOLS, max(c[1] for c in cs) + TOLS]
        met = any(seg_meets_box(a, b, lo, hi) for pts, _ in trims for a, b in zip(pts, pts[1:]))
        if met or not plain:
            G.count('trim_cell', 'met' if met else 'odd-trims')
            continue
        ctr = [(cs[0][0] + cs[2][0]) / 2, (cs[0][1] + cs[2][1]) / 2]
        ins = [winding(p, ctr) != 0 for p, _ in trims]
        in_hole = any(i for i, (_, r) in zip(ins, trims) if not r)
        if nrev == 0:
            keep = not in_hole
        elif nrev == 1 and not in_hole:
            keep = [i for i, (_, r) in zip(ins, trims) if r][0]
        elif in_hole:
            keep = False
        else:
            G.count('trim_cell', 'several-reversed')
            continue
        ids = [c[0] for c in t['corners']]
        want = [[ids[0], ids[1], ids[2]], [ids[0], ids[2], ids[3]]] if keep else []
        got = [tr[1] for tr in t['tris']]
        G.count('trim_cell', 'away-kept' if keep else 'away-dropped')
        if got != want:
            return ("cell %d is not met by any trim polyline and lies %s the trimmed region, but contributes the triangles %s "
                    "(the untrimmed tessellation has %s there)" % (k, 'outside' if keep else 'inside', got, want))
    return None


def oracle(c):
    return oracle_cell(c.data) if c.kind == 'trimcell' else oracle_grid(c.data)
