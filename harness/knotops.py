"""Shared pieces of the knot-operation checks C04..C07: shape text, probes, before/after comparison."""
import itertools
from fractions import Fraction as F
from core import q, fr, show_list, show_pts
import shapes as S

KIND = {'curve': 'c', 'surface': 's', 'volume': 'v'}


def show_shape(d):
    ds = S.dirs(d)
    return "%s %s %s %s" % (",".join(str(p) for p, _, _ in ds), ";".join(show_list(kv) for _, kv, _ in ds),
                            ",".join(str(n) for _, _, n in ds), show_pts(d['P']))


def probe_params(d, extra=None, per_dir=None):
    """per direction: every knot of the domain, extra values, span midpoints (thinned for 2-D/3-D)"""
    res = []
    nd = len(S.dirs(d))
    cap = per_dir or {1: 40, 2: 9, 3: 5}[nd]
    for i, (p, kv, n) in enumerate(S.dirs(d)):
        ks = sorted(set(kv[p:n + 1]) | set(extra[i] if extra else []))
        ks = [x for x in ks if kv[p] <= x <= kv[n]]
        mids = [(a + b) / 2 for a, b in zip(ks, ks[1:])]
        allp = sorted(set(ks + mids))
        if len(allp) > cap:
            step = max(1, len(allp) // cap)
            allp = sorted(set(allp[::step] + [allp[-1]]))
        res.append(allp)
    return res


def same_points(before, after, grid, amap=None):
    """None if both definitions evaluate identically on the grid, else a description; `amap` maps the
    parameters of `before` to those of `after` (per direction affine maps) when the domains differ"""
    for combo in itertools.product(*grid):
        a = S.eval_ref(before, list(combo))
        cb = list(combo) if amap is None else [m(x) for m, x in zip(amap, combo)]
        b = S.eval_ref(after, cb)
        if a != b:
            return "point at %s moved from %s to %s" % (tuple(map(fr, combo)), show_list(a), show_list(b))
    return None


def rand_shape(rng, allow_range=True):
    r = rng.random()
    if r < .45:
        return S.rand_curve(rng, maxp=5, allow_range=allow_range)
    if r < .85:
        return S.rand_surface(rng, maxp=3, max_interior=2, allow_range=allow_range)
    return S.rand_volume(rng, maxp=2, max_interior=1, allow_range=allow_range)


def opt(xs):
    return ",".join('None' if x is None else fr(x) for x in xs)
