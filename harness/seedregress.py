#!/usr/bin/env python3
"""Regression over the recorded seeded changes (/verif/seeded/*): every change that a check caught when it was
recorded must still be caught by that check.

usage: seedregress.py [parallelism] [name-prefix ...]        e.g. seedregress.py 4 r3- r4-
For each seeded/<name>/{patch.diff,meta.json}: apply the patch in a scratch worktree of /repo's HEAD (never /repo
itself), run the FIRST check that caught it at recording time with VERIF_REPO=<worktree>, expect exit 1.
Patches that no longer apply to HEAD (the lines they touch were repaired since) are listed and skipped.
"""
import sys, os, json, subprocess, glob
from concurrent.futures import ThreadPoolExecutor
VERIF = os.path.dirname(os.path.dirname(os.path.abspath(__file__)))


def sh(cmd, cwd=None, env=None, timeout=3600):
    p = subprocess.run(cmd, shell=True, cwd=cwd, env=env, capture_output=True, text=True, timeout=timeout)
    return p.returncode, p.stdout + p.stderr


def work(args):
    lane, names = args
    wt = '/tmp/seedregress_wt_%d_%d' % (os.getpid(), lane)
    sh('git -C /repo worktree remove --force %s' % wt)
    rc, o = sh('git -C /repo worktree add --detach %s HEAD' % wt)
    assert rc == 0, o
    res = []
    try:
        for name in names:
            d = os.path.join(VERIF, 'seeded', name)
            meta = json.load(open(os.path.join(d, 'meta.json')))
            caught_by = [k for k, v in sorted(meta.get('checks', {}).items()) if isinstance(v, dict) and v.get('exit') == 1]
            own = meta.get('breaks') or meta.get('property')
            if own in caught_by:
                caught_by = [own] + [k for k in caught_by if k != own]
            if not caught_by:
                res.append((name, 'never-caught', '')); continue
            sh('git checkout -- . && git clean -fdq', cwd=wt)
            rc, o = sh('git apply %s' % os.path.join(d, 'patch.diff'), cwd=wt)
            if rc != 0:
                res.append((name, 'patch-does-not-apply', '')); continue
            env = dict(os.environ, VERIF_REPO=wt)
            verdict = 'LOST'
            detail = ''
            for chk in caught_by[:2]:
                rcc, oc = sh('./check %s --tier quick' % chk, cwd=VERIF, env=env)
                detail = "%s exit=%d %s" % (chk, rcc, (oc.strip().splitlines() or [''])[-1][:120])
                if rcc == 1:
                    verdict = 'still-caught'
                    break
            if verdict == 'LOST':
                # a later fix: commit may have removed what the change relied on: the change's own demo then passes with the patch
                demos = sorted(glob.glob(os.path.join(d, 'demo*')))
                if demos:
                    rcd, _ = sh('/venv/bin/python %s %s' % (demos[0], wt), timeout=900)
                    if rcd == 0:
                        verdict = 'no-longer-breaks'
            res.append((name, verdict, detail))
            print("%-14s %-22s %s" % (name, verdict, detail), flush=True)
    finally:
        sh('git -C /repo worktree remove --force %s' % wt)
    return res


def main():
    par = int(sys.argv[1]) if len(sys.argv) > 1 else 4
    prefixes = sys.argv[2:]
    names = sorted(os.path.basename(p) for p in glob.glob(os.path.join(VERIF, 'seeded', '*')) if os.path.isdir(p))
    if prefixes:
        names = [n for n in names if any(n.startswith(p) for p in prefixes)]
    only = os.environ.get('SEED_PROPS')          # e.g. SEED_PROPS=C01,C06: only the changes recorded for these properties
    if only:
        names = [n for n in names if any(('%s-' % q_) in n for q_ in only.split(','))]
    lanes = [(i, names[i::par]) for i in range(par)]
    with ThreadPoolExecutor(par) as ex:
        out = [r for rs in ex.map(work, lanes) for r in rs]
    lost = [r for r in out if r[1] == 'LOST']
    print("\n%d changes: %d still caught, %d LOST, %d patches no longer apply, %d no longer break the property (their own demo passes), %d never caught" % (
        len(out), sum(1 for r in out if r[1] == 'still-caught'), len(lost),
        sum(1 for r in out if r[1] == 'patch-does-not-apply'), sum(1 for r in out if r[1] == 'no-longer-breaks'),
        sum(1 for r in out if r[1] == 'never-caught')))
    for r in lost:
        print("LOST", r)
    return 1 if lost else 0


if __name__ == '__main__':
    sys.exit(main())
