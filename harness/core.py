"""Shared machinery of every check (DESIGN.md sections 4, 9, 10).

flow of one check run
  1. build the Lean library target of the property + the import-free driver (`lake build`)
  2. audit: forbidden tokens in the Lean sources, `#print axioms` of every property theorem
  3. correspondence: corpus + generated cases; the real geomdl (from /repo's working tree, exact
     rational arithmetic) against the model's executable definitions (the Lean driver); outputs
     compared as strings
  4. search: the property's exact oracle on the implementation for every case (and more cases
     when a proof obligation or the correspondence is broken)
  5. verdict, replay file, evidence file, KNOWN-FINDING lines
exit codes: 0 held / only known findings; 1 violation; 2 infrastructure failure
"""
import sys, os, json, random, subprocess, time, hashlib, traceback, re, importlib

VERIF = os.path.dirname(os.path.dirname(os.path.abspath(__file__)))
REPO = os.environ.get('VERIF_REPO', '/repo')
LEAN = os.path.join(VERIF, 'lean')
DRIVER = os.path.join(LEAN, '.lake', 'build', 'bin', 'driver')
ALLOWED_AXIOMS = {'propext', 'Classical.choice', 'Quot.sound'}
FORBIDDEN = re.compile(r'\b(sorry|admit|native_decide|bv_decide|implemented_by|unsafe)\b|^\s*axiom\s|maxHeartbeats\s+0')

sys.path.insert(0, REPO)
sys.path.insert(0, os.path.join(VERIF, 'harness'))

from fractions import Fraction as F


# ---------------------------------------------------------------- exact numbers / text form
def setup_exact():
    from qnum import install
    install()
    import geomdl
    here = os.path.realpath(geomdl.__file__)
    if not here.startswith(os.path.realpath(REPO) + os.sep):
        raise RuntimeError("geomdl imported from %s, not from %s" % (here, REPO))


FLOAT_MODE = [False]      # set by harness/floatrun.py: build plain doubles instead of exact numbers


def q(x):
    if FLOAT_MODE[0]:
        return float(x)
    from qnum import Q
    return Q(F(x))


def qs(xs):
    return [q(x) for x in xs]


def qpts(P):
    return [[q(c) for c in pt] for pt in P]


def fr(x):
    """canonical text of an exact number"""
    from qnum import Q
    if isinstance(x, Q):
        x = x.q
    elif isinstance(x, bool):
        x = F(int(x))
    elif isinstance(x, float):
        x = F(x)
    elif isinstance(x, int):
        x = F(x)
    return "%d/%d" % (x.numerator, x.denominator) if x.denominator != 1 else str(x.numerator)


def show_list(v):
    return ",".join(fr(x) for x in v) if len(v) else "-"


def show_pts(P):
    return ";".join(show_list(p) for p in P) if len(P) else "-"


def show_pts2(T):
    return "|".join(show_pts(p) for p in T) if len(T) else "-"


def impl_sqrt(exact_radicand, compute):
    """The double the IMPLEMENTATION obtains for a square root (`compute()` calls the real routine, e.g.
    linalg.vector_magnitude / point_distance, in exact mode and returns the double as an exact number).  math.sqrt of
    the summed squares, math.hypot, x ** 0.5 or a compensated sum may differ in the last digit: the model is fed with
    what the implementation really used.  It must be the square root up to rounding (relative 2^-50), otherwise the
    correctly rounded textbook value is returned and the difference shows up as a disagreement."""
    import math
    ref = F(math.sqrt(float(exact_radicand)))
    try:
        got = compute()
        got = got.q if hasattr(got, 'q') else F(got)
    except Exception:
        return ref
    if exact_radicand == 0:
        return got if got == 0 else ref
    if got > 0 and abs(got * got - exact_radicand) <= exact_radicand * F(1, 2 ** 49):
        return got
    return ref


class Case(object):
    """one operation: `line` goes to the Lean driver verbatim, `data` lets impl()/oracle() rebuild
    the same input for the real code, `kind` is the op class used in the statistics"""
    __slots__ = ('kind', 'line', 'data', 'tags')

    def __init__(self, kind, line, data=None, tags=()):
        self.kind = kind
        self.line = line
        self.data = data if data is not None else {}
        self.tags = tuple(tags)

    def to_json(self):
        return dict(kind=self.kind, line=self.line, data=enc(self.data), tags=list(self.tags))

    @staticmethod
    def from_json(d):
        return Case(d['kind'], d['line'], dec(d['data']), d.get('tags', ()))


def enc(o):
    if isinstance(o, F):
        return {"$q": fr(o)}
    if isinstance(o, dict):
        return {k: enc(v) for k, v in o.items()}
    if isinstance(o, (list, tuple)):
        return [enc(v) for v in o]
    return o


def dec(o):
    if isinstance(o, dict):
        if "$q" in o and len(o) == 1:
            return F(o["$q"])
        return {k: dec(v) for k, v in o.items()}
    if isinstance(o, list):
        return [dec(v) for v in o]
    return o


# ---------------------------------------------------------------- Lean side
def run(cmd, cwd=None, timeout=3600, inp=None):
    p = subprocess.run(cmd, cwd=cwd, input=inp, capture_output=True, text=True, timeout=timeout)
    return p.returncode, p.stdout, p.stderr


def lean_build(targets):
    t0 = time.time()
    rc, out, err = run(['lake', 'build'] + list(targets) + ['driver'], cwd=LEAN, timeout=7200)
    log = (out + err)
    errors = [l for l in log.splitlines() if l.startswith('error:') or ': error' in l]
    return dict(ok=(rc == 0), wall_s=round(time.time() - t0, 1), cmd='cd lean && lake build %s driver' % ' '.join(targets),
                errors=errors[:20])


def lean_sources_audit():
    hits = []
    for root, _, files in os.walk(LEAN):
        if '.lake' in os.path.relpath(root, LEAN).split(os.sep):
            continue
        for f in files:
            if not f.endswith('.lean'):
                continue
            path = os.path.join(root, f)
            depth = 0
            for n, line in enumerate(open(path, encoding='utf-8'), 1):
                # strip comments (block comments tracked across lines, `--` to end of line)
                txt = ''
                i = 0
                while i < len(line):
                    if line.startswith('/-', i):
                        depth += 1; i += 2; continue
                    if line.startswith('-/', i) and depth > 0:
                        depth -= 1; i += 2; continue
                    if depth == 0 and line.startswith('--', i):
                        break
                    if depth == 0:
                        txt += line[i]
                    i += 1
                if FORBIDDEN.search(txt):
                    hits.append("%s:%d: %s" % (os.path.relpath(path, LEAN), n, line.strip()))
    return hits


def theorems_of(module):
    """names of the theorems declared in a Props file (these are the obligations)"""
    path = os.path.join(LEAN, module.replace('.', os.sep) + '.lean')
    names = []
    ns = []
    for line in open(path, encoding='utf-8'):
        m = re.match(r'^namespace\s+(\S+)', line)
        if m:
            ns.append(m.group(1)); continue
        m = re.match(r'^end\s+(\S+)', line)
        if m and ns and ns[-1] == m.group(1):
            ns.pop(); continue
        m = re.match(r'^\s*(?:@\[[^\]]*\]\s*)?(?:private\s+|protected\s+)?theorem\s+(\S+)', line)
        if m:
            names.append('.'.join(ns + [m.group(1)]))
    return names


def local_imports(module, seen=None):
    """the module and, transitively, every NurbsVerif module it imports"""
    seen = seen if seen is not None else []
    if module in seen:
        return seen
    seen.append(module)
    path = os.path.join(LEAN, module.replace('.', os.sep) + '.lean')
    if os.path.exists(path):
        for line in open(path, encoding='utf-8'):
            m = re.match(r'^import\s+(NurbsVerif\.\S+)', line)
            if m:
                local_imports(m.group(1), seen)
    return seen


def axioms_audit(module, names):
    """`#print axioms` for every theorem; returns {name: [axioms]} or raises"""
    os.makedirs(os.path.join(LEAN, '.lake', 'audit'), exist_ok=True)
    path = os.path.join(LEAN, '.lake', 'audit', module.split('.')[-1] + '_audit.lean')
    with open(path, 'w') as f:
        f.write('import %s\n' % module)
        for n in names:
            f.write('#print axioms %s\n' % n)
    rc, out, err = run(['lake', 'env', 'lean', path], cwd=LEAN, timeout=1800)
    res = {}
    txt = out + err
    for m in re.finditer(r"'([^']+)' depends on axioms: \[([^\]]*)\]", txt, re.S):
        res[m.group(1)] = [a.strip() for a in m.group(2).replace('\n', ' ').split(',') if a.strip()]
    for m in re.finditer(r"'([^']+)' does not depend on any axioms", txt):
        res[m.group(1)] = []
    return rc, res, txt


def run_driver(lines):
    if not lines:
        return []
    rc, out, err = run([DRIVER], inp="\n".join(lines) + "\n", timeout=3600)
    res = out.splitlines()
    if rc != 0 or len(res) != len(lines):
        raise RuntimeError("driver failed rc=%s, %d answers for %d lines: %s" % (rc, len(res), len(lines), err[:500]))
    return res


# ---------------------------------------------------------------- implementation side
class Hang(BaseException):
    """raised by the per-case limit (BaseException: not swallowed by `except Exception` in the library);
    `cpu` tells which limit fired"""
    def __init__(self, cpu=True):
        BaseException.__init__(self)
        self.cpu = cpu


CASE_LIMIT_S = float(os.environ.get('VERIF_CASE_LIMIT', '30'))          # CPU seconds of this process per case
WALL_LIMIT_S = float(os.environ.get('VERIF_WALL_LIMIT', str(max(600.0, 20 * CASE_LIMIT_S))))   # backstop for cases that wait for children
HANGS = [0]          # confirmed CPU-time hangs; after 3 the run stops feeding cases to the implementation
STALLS = []          # wall-clock stalls (loaded machine, children): infrastructure, never a verdict


def _limited_once(f, a):
    import signal

    def on_cpu(signum, frame):
        raise Hang(cpu=True)

    def on_wall(signum, frame):
        raise Hang(cpu=False)
    old_p = signal.signal(signal.SIGPROF, on_cpu)
    old_a = signal.signal(signal.SIGALRM, on_wall)
    signal.setitimer(signal.ITIMER_PROF, CASE_LIMIT_S)
    signal.setitimer(signal.ITIMER_REAL, WALL_LIMIT_S)
    try:
        return f(*a)
    finally:
        signal.setitimer(signal.ITIMER_PROF, 0)
        signal.setitimer(signal.ITIMER_REAL, 0)
        signal.signal(signal.SIGPROF, old_p)
        signal.signal(signal.SIGALRM, old_a)


def limited(f, *a):
    """f(*a) under a limit on the CPU time this process spends in it (a change that makes the implementation loop
    forever must end as a reported failing input, not as a hanging check) plus a generous wall-clock backstop for
    cases that wait for child processes.  A time-out is believed only when a second attempt times out too; a
    wall-clock time-out is a property of the machine (load, memory pressure), not of the code: it is recorded as a
    stall and the run ends as an infrastructure failure (exit 2), never as a violation."""
    try:
        return _limited_once(f, a)
    except Hang:
        pass
    try:
        return _limited_once(f, a)          # once more, alone
    except Hang as h:
        if not h.cpu:
            STALLS.append(getattr(f, '__name__', str(f)))
        raise


def safe(f, *a):
    try:
        return limited(f, *a)
    except Hang as h:
        if h.cpu:
            HANGS[0] += 1
            return "HANG"
        return "STALL"
    except Exception as e:  # the error branch is part of the correspondence
        return "ERR"


def err_class(f, *a):
    try:
        f(*a)
        return None
    except Exception as e:
        return type(e).__name__


def git_state():
    try:
        rc, head, _ = run(['git', '-C', REPO, 'rev-parse', 'HEAD'])
        rc, diff, _ = run(['git', '-C', REPO, 'diff', 'HEAD'])
        return dict(head=head.strip(), dirty_sha1=hashlib.sha1(diff.encode()).hexdigest()[:12] if diff else None)
    except Exception:
        return {}


def load_known():
    path = os.path.join(VERIF, 'known_findings.json')
    if not os.path.exists(path):
        return []
    return json.load(open(path))['findings']


# ---------------------------------------------------------------- float-mode companion
_NUM = re.compile(r'-?\d+(?:/\d+)?')


def _float_close(exact, flt, tol):
    """same text skeleton, every number within tol * max(1, magnitudes on the line)"""
    if exact == flt:
        return True
    if (exact in ('ERR', 'HANG')) != (flt in ('ERR', 'HANG')):
        return False
    if _NUM.sub('#', exact) != _NUM.sub('#', flt):
        return False
    a = [F(t) for t in _NUM.findall(exact)]
    b = [F(t) for t in _NUM.findall(flt)]
    scale = max([F(1)] + [abs(x) for x in a])
    return all(abs(x - y) <= tol * scale for x, y in zip(a, b))


class FloatRunnerFailed(Exception):
    pass


def float_companion(mod, cases, impl_out, tier):
    """runs the cases of the kinds listed in mod.FLOAT_KINDS through the implementation in plain doubles
    (separate interpreter) and compares with the exact-mode outputs; returns (report, [(case, why)])"""
    kinds = getattr(mod, 'FLOAT_KINDS', None)
    if not kinds or os.environ.get('VERIF_FLOAT', '1') == '0':
        return None, []
    tol = F(getattr(mod, 'FLOAT_TOL', 1e-7))
    flt = getattr(mod, 'FLOAT_FILTER', None)       # a module may leave out ill-conditioned cases (and must say why)
    sel = [c for c in cases if c.line and c.kind in kinds and impl_out.get(id(c)) not in (None, 'HANG', 'SKIPPED-AFTER-HANGS')
           and (flt is None or flt(c))]
    # stratified: the budget is shared round-robin among the kinds (a plain prefix would spend it on the first stream)
    budget = 150 if tier == 'quick' else 1500
    by_kind = {}
    for c in sel:
        by_kind.setdefault(c.kind, []).append(c)
    picked = []
    rank = 0
    while len(picked) < budget and any(rank < len(v) for v in by_kind.values()):
        for k in sorted(by_kind):
            if rank < len(by_kind[k]) and len(picked) < budget:
                picked.append(by_kind[k][rank])
        rank += 1
    sel = picked
    if not sel:
        return dict(cases=0), []
    import tempfile
    with tempfile.NamedTemporaryFile('w', suffix='.json', delete=False) as f:
        json.dump([c.to_json() for c in sel], f)
        path = f.name
    try:
        rc, out, err = run([sys.executable, os.path.join(VERIF, 'harness', 'floatrun.py'), mod.PID, path], timeout=3600)
    finally:
        os.unlink(path)
    if rc != 0:
        raise FloatRunnerFailed("floatrun.py ended with status %s: %s" % (rc, (err or out)[-300:]))
    res = json.loads(out)
    if len(res) != len(sel):
        raise FloatRunnerFailed("floatrun.py answered %d of %d cases" % (len(res), len(sel)))
    bad = []
    worst = F(0)
    for c, fo in zip(sel, res):
        eo = impl_out[id(c)]
        if not _float_close(eo, fo, tol):
            bad.append((c, "floating point: the implementation run in doubles deviates from its exact run by more than %s (exact %s, doubles %s)"
                        % (float(tol), eo[:120], fo[:120])))
    return dict(cases=len(sel), by_kind={k: sum(1 for c in sel if c.kind == k) for k in sorted(by_kind)}, kinds=sorted(kinds), tolerance=float(tol), deviations=len(bad),
                rule="same implementation, same inputs, IEEE doubles instead of exact rationals (harness/floatrun.py); every number of the output "
                     "within tolerance * max(1, largest magnitude on the line) of the exact run"), bad


# ---------------------------------------------------------------- the check
def check_property(mod, tier, seed, replay=None):
    t0 = time.time()
    pid = mod.PID
    setup_exact()
    rng = random.Random((seed * 1000003) ^ int(hashlib.sha1(pid.encode()).hexdigest()[:8], 16))
    os.makedirs(os.path.join(VERIF, 'evidence'), exist_ok=True)
    os.makedirs(os.path.join(VERIF, 'replays'), exist_ok=True)
    problems = []      # broken obligations / correspondence (each: dict(kind=..., detail=...))
    prop_module = getattr(mod, 'LEAN_MODULE', 'NurbsVerif.Props.' + pid)

    # 0. property specific generation step that must precede the build (C12: regenerate Gen/Effects.lean)
    if hasattr(mod, 'pre_build'):
        # the generated Lean file is shared by every run that uses this /verif: two concurrent runs for
        # DIFFERENT source trees (VERIF_REPO) must not check one tree against the other's table - the whole
        # check (generate, build, kernel check, audit, dynamic validation) runs under an exclusive lock
        import fcntl
        _gen_lock = open(os.path.join(LEAN, '.gen.lock'), 'w')
        fcntl.flock(_gen_lock, fcntl.LOCK_EX)
        check_property._held = _gen_lock          # released when the process ends
        for pr in (mod.pre_build(tier) or {}).get('problems', []):
            problems.append(pr)

    # 1. build
    build = lean_build([prop_module] + list(getattr(mod, 'EXTRA_TARGETS', [])))
    names = theorems_of(prop_module)
    axioms = {}
    if not build['ok']:
        problems.append(dict(kind='lean-build', detail=build['errors']))
        if not os.path.exists(DRIVER):
            print("infrastructure failure: no driver binary; build log: %s" % build['errors'])
            return 2
    # 2. audit
    hits = lean_sources_audit()
    if hits:
        problems.append(dict(kind='forbidden-token', detail=hits[:10]))
    discharged = []
    if build['ok']:
        rc, axioms, txt = axioms_audit(prop_module, names)
        for n in names:
            if n in axioms and set(axioms[n]) <= ALLOWED_AXIOMS:
                discharged.append(n)
            else:
                problems.append(dict(kind='axiom-audit', detail="%s: %s" % (n, axioms.get(n, 'not reported'))))
    # thorough tier: independent re-check of the compiled proofs (leanchecker replays the .olean files
    # of the property module and of every NurbsVerif module it imports through the kernel)
    recheck = None
    if tier == 'thorough' and build['ok']:
        mods = local_imports(prop_module)
        t1 = time.time()
        rcc, o1, e1 = run(['lake', 'env', 'leanchecker'] + mods, cwd=LEAN, timeout=7200)
        for attempt in range(2):
            if rcc == 0 or (rcc > 0 and (o1 + e1).strip()):
                break
            # killed by a signal / no diagnostic at all (observed when several thorough checks and other Lean
            # jobs exhaust the memory): this is the machine, not the proofs - wait and try again
            time.sleep(20 * (attempt + 1))
            rcc, o1, e1 = run(['lake', 'env', 'leanchecker'] + mods, cwd=LEAN, timeout=7200)
        if rcc != 0 and not (rcc > 0 and (o1 + e1).strip()):
            print("infrastructure failure: leanchecker ended with status %s and no diagnostic three times (out of memory?)" % rcc)
            return 2
        recheck = dict(cmd='lake env leanchecker <%d modules>' % len(mods), modules=len(mods), ok=(rcc == 0), wall_s=round(time.time() - t1, 1),
                       output=(o1 + e1)[-400:])
        if rcc != 0:
            problems.append(dict(kind='leanchecker', detail=(o1 + e1)[-800:]))
    # property specific static obligations (e.g. the C12 translator) -------------------
    extra = {}
    if hasattr(mod, 'static_checks'):
        extra = mod.static_checks(tier, rng) or {}
        for pr in extra.pop('problems', []):
            problems.append(pr)

    # anchored-line coverage of this run (measurement of the generators; harness/anchorcov.py)
    cov_rec = None
    cov_prop = None
    if os.environ.get('VERIF_COV', '1') != '0':
        try:
            import anchorcov
            cov_prop = anchorcov.load_property(VERIF, pid)
            if cov_prop:
                cfuncs, _ = anchorcov.anchored_functions(REPO, cov_prop)
                cov_rec = anchorcov.Recorder(cfuncs.keys())
                if not cov_rec.start():
                    cov_rec = None
        except Exception:
            cov_rec = None

    # 3. cases
    cases = []
    if replay:
        rp = json.load(open(replay))
        cases = [Case.from_json(c) for c in rp.get('cases', [])]
    else:
        cdir = os.path.join(VERIF, 'corpus', pid)
        if os.path.isdir(cdir):
            for fn in sorted(os.listdir(cdir)):
                if fn.endswith('.json'):
                    for c in json.load(open(os.path.join(cdir, fn)))['cases']:
                        cc = Case.from_json(c); cc.tags = cc.tags + ('corpus',)
                        cases.append(cc)
        cases += list(mod.gen(rng, tier))
        floor = getattr(mod, 'MIN_CASES', 20)
        if len(cases) < floor:
            print("infrastructure failure: the generator produced %d cases (floor %d): nothing would be checked" % (len(cases), floor))
            return 2
        gf = getattr(mod, 'STATS', {}).get('gen_failures', 0)
        if gf and gf * 5 > len(cases):
            print("infrastructure failure: %d generated histories were dropped because generating them raised (%d kept)" % (gf, len(cases)))
            return 2
    with_line = [c for c in cases if c.line]
    model_out = run_driver([c.line for c in with_line])
    mo = {id(c): o for c, o in zip(with_line, model_out)}
    diffs = []
    diag_diffs = []
    kinds = {}
    errs = 0
    outs = []
    impl_out = {}
    for c in with_line:
        io = safe(mod.impl, c) if HANGS[0] < 3 else 'SKIPPED-AFTER-HANGS'
        impl_out[id(c)] = io
        kinds[c.kind] = kinds.get(c.kind, 0) + 1
        if io == 'ERR':
            errs += 1
        if io == 'STALL':
            continue
        if mo[id(c)] == 'OUT':
            # the driver op declares the input OUTSIDE ITS MODEL (e.g. the knot-operation models search spans without the
            # step back of the repaired find_span_linear: insertion / removal at u = U_n of a knot vector with an empty last
            # span): no model answer to compare - the case is judged by the property's oracle alone, and counted
            outs.append(c)
            continue
        if io != mo[id(c)]:
            # streams tagged 'diagnostic' pin behaviour OUTSIDE the property's quantifier (what exactly happens on
            # malformed input, above the guard of a routine, for a knot that is not removable, ...): a disagreement
            # there is reported in the evidence and never becomes a verdict
            (diag_diffs if 'diagnostic' in c.tags else diffs).append(c)
    if diffs:
        problems.append(dict(kind='correspondence', detail=[dict(line=c.line, impl=impl_out[id(c)], model=mo[id(c)]) for c in diffs[:5]],
                             count=len(diffs)))
    # 4. search with the property's own oracle
    failures = []   # (case, why, finding_id or None)
    oracle_runs = 0
    float_rep = None
    try:
        float_rep, fbad = float_companion(mod, with_line, impl_out, tier)
        for c, why in fbad:
            failures.append((c, why, mod.classify(c, why) if hasattr(mod, 'classify') else None))
    except Exception as e:
        print("infrastructure failure: the float-mode companion did not run: %s: %s" % (type(e).__name__, e))
        return 2

    def probe(c):
        try:
            why = limited(mod.oracle, c)
        except Hang as h:
            if not h.cpu:
                return None
            HANGS[0] += 1
            why = "the implementation did not return within %.1f s of CPU time on this input (confirmed by a second attempt)" % CASE_LIMIT_S
        except Exception as e:
            why = "oracle raised %s: %s" % (type(e).__name__, e)
            if os.environ.get('VERIF_DEBUG'):
                traceback.print_exc()
        if why:
            fid = mod.classify(c, why) if hasattr(mod, 'classify') else None
            failures.append((c, why, fid))
        return why

    if hasattr(mod, 'oracle'):
        for c in diffs + [c for c in cases if c not in diffs]:
            if HANGS[0] >= 3 and failures:
                break
            oracle_runs += 1
            probe(c)
        if problems and not [f for f in failures if f[2] is None] and not replay:
            # something is broken but no failing input yet: widen the search
            extra_n = 4 if tier == 'quick' else 12
            for k in range(extra_n):
                for c in mod.gen(random.Random(rng.random()), tier):
                    oracle_runs += 1
                    if probe(c):
                        break
                if [f for f in failures if f[2] is None]:
                    break
    anchored = None
    if cov_rec is not None:
        try:
            cov_rec.stop()
            anchored = anchorcov.report(REPO, cov_prop, cov_rec.hit)
        except Exception as e:
            anchored = dict(error=str(e))
    if STALLS and not failures and not problems:
        print("infrastructure failure: %d case(s) exceeded the wall-clock backstop of %.0f s twice without using their CPU-time limit (machine load / waiting for child processes): %s"
              % (len(STALLS), WALL_LIMIT_S, ", ".join(sorted(set(STALLS)))[:200]))
        return 2
    known = [k for k in load_known() if pid in k['property'].split(',')]
    open_ids = {k['id'] for k in known if k['status'] == 'open'}
    new_fail = [f for f in failures if f[2] not in open_ids]
    known_fail = [f for f in failures if f[2] in open_ids]

    # 5. verdict
    rc = 0
    lines = []
    gs = git_state()
    if new_fail:
        c, why, fid = shrink_pick(new_fail)
        h = hashlib.sha1((c.line or json.dumps(enc(c.data), sort_keys=True)).encode()).hexdigest()[:10]
        path = os.path.join('replays', '%s-%s.json' % (pid, h))
        rcases = [c]
        if 'same-data-again' in c.tags or 'needs-prefix' in c.tags:
            k_ = cases.index(c)
            rcases = cases[max(0, k_ - 1):k_ + 1]      # the failure depends on the case run just before it
        json.dump(dict(property=pid, seed=seed, tier=tier, oracle=why, cases=[x.to_json() for x in rcases],
                       impl=impl_out.get(id(c)), model=mo.get(id(c)), repo=gs,
                       broken=[p['kind'] for p in problems]), open(os.path.join(VERIF, path), 'w'), indent=1)
        lines.append("VIOLATION property=%s replay=%s" % (pid, path))
        rc = 1
    elif problems:
        h = hashlib.sha1(json.dumps(problems, sort_keys=True, default=str).encode()).hexdigest()[:10]
        path = os.path.join('replays', '%s-unproved-%s.json' % (pid, h))
        json.dump(dict(property=pid, seed=seed, tier=tier, no_longer_checks=problems,
                       cases=[c.to_json() for c in diffs[:3]], repo=gs,
                       searched=oracle_runs), open(os.path.join(VERIF, path), 'w'), indent=1, default=str)
        lines.append("VIOLATION property=%s replay=%s no-failing-input-found" % (pid, path))
        rc = 1
    # known findings: re-run the listed witnesses
    kf_report = []
    for k in known:
        if k['status'] != 'open':
            continue
        still = None
        if hasattr(mod, 'witness'):
            try:
                still = mod.witness(k['id'])
            except Exception as e:
                still = "witness raised %s" % type(e).__name__
        if still:
            lines.append("KNOWN-FINDING: property=%s %s %s" % (pid, k['id'], k['what']))
            kf_report.append(dict(id=k['id'], still_fails=True, detail=str(still)))
        else:
            kf_report.append(dict(id=k['id'], still_fails=False, detail='listed witness no longer fails (resolved?)'))

    # evidence
    nontrivial = len({c.line for c in with_line if impl_out[id(c)] != 'ERR'})
    samples = [dict(op=c.line if len(c.line) < 400 else c.line[:400] + '…', impl=str(impl_out[id(c)])[:200]) for c in with_line[:3]]
    ev = dict(
        property_id=pid, tier=tier, seed=seed, level='proof',
        coverage=dict(
            obligations=len(names) + len(extra.get('obligations', [])),
            discharged=len(discharged) + len([o for o in extra.get('obligations', []) if o.get('ok')]),
            checker_cmd=build['cmd'] + " ; lake env lean .lake/audit/%s_audit.lean (#print axioms)" % pid,
            trusted_base=["Lean 4.33 kernel", "axioms: propext, Classical.choice, Quot.sound (audited per theorem)",
                          "Mathlib definitions used by the statements",
                          "correspondence harness (exact rational execution of /repo via harness/qnum.py, Lean driver)"]
                         + list(getattr(mod, 'TRUSTED', [])),
            theorems=[dict(name=n, axioms=axioms.get(n)) for n in names],
            partial=getattr(mod, 'PARTIAL', []),
            static=extra,
            correspondence=dict(cases=len(with_line), by_kind=kinds, error_cases=errs, disagreements=len(diffs),
                                outside_model=dict(count=len(outs), rule="driver answer OUT: input outside the model (stated in the driver op), not compared, judged by the oracle alone",
                                                   samples=[dict(line=c.line[:300], impl=str(impl_out[id(c)])[:160]) for c in outs[:5]]),
                                diagnostic_disagreements=[dict(line=c.line[:300], impl=str(impl_out[id(c)])[:120], model=str(mo[id(c)])[:120]) for c in diag_diffs[:10]],
                                diagnostic_disagreement_count=len(diag_diffs),
                                distinct_nontrivial=nontrivial,
                                rule="structured random generation (harness/props/%s.py); non-trivial = distinct op line on which the implementation returns a value (not an error)" % pid.lower()),
            evaluations=len(cases), distinct_nontrivial=nontrivial,
            oracle_runs=oracle_runs, oracle_failures=len(failures), known_findings=kf_report,
            samples=samples,
            generator=getattr(mod, 'STATS', {}),
            anchored_lines=anchored,
            float_companion=float_rep,
            lean_build=build, leanchecker=recheck, problems=problems,
        ),
        assumptions=list(getattr(mod, 'ASSUMPTIONS', [])) + [
            "theorems are about exact arithmetic over an ordered field; IEEE rounding is not modelled",
            "model fidelity is checked by the correspondence on the generated inputs only"],
        wall_s=round(time.time() - t0, 2),
        violations=(1 if rc else 0),
    )
    # evidence/ describes /repo itself; runs against another tree (VERIF_REPO: seeded changes, refactorings,
    # candidate repairs) write next to it into an ignored directory
    evdir = 'evidence' if os.path.realpath(REPO) == os.path.realpath('/repo') else 'evidence_alt'
    os.makedirs(os.path.join(VERIF, evdir), exist_ok=True)
    json.dump(ev, open(os.path.join(VERIF, evdir, pid + '.json'), 'w'), indent=1, default=str)
    for l in lines:
        print(l)
    print("%s %s: %d theorems (%d discharged), %d cases (%d disagreements), %d oracle runs (%d failures, %d known), %.1fs"
          % (pid, 'VIOLATED' if rc else 'ok', len(names), len(discharged), len(with_line), len(diffs), oracle_runs,
             len(failures), len(known_fail), time.time() - t0))
    return rc


def shrink_pick(fails):
    """smallest failing case by text length (generators are asked to emit small cases first)"""
    return min(fails, key=lambda f: len(f[0].line or json.dumps(enc(f[0].data))))


def main(argv):
    import argparse
    ap = argparse.ArgumentParser()
    ap.add_argument('pid')
    ap.add_argument('--tier', default=os.environ.get('VERIF_TIER', 'quick'))
    ap.add_argument('--replay', default=None)
    a = ap.parse_args(argv)
    seed = int(os.environ.get('VERIF_SEED', '1'))
    mod = importlib.import_module('props.' + a.pid.lower())
    try:
        return check_property(mod, a.tier if a.tier in ('quick', 'thorough') else 'quick', seed, a.replay)
    except Exception:
        traceback.print_exc()
        return 2


if __name__ == '__main__':
    sys.exit(main(sys.argv[1:]))
