#!/usr/bin/env python3
"""prints the anchored lines a check run never reached, with their source text:  covshow.py C01 [C02 ...]"""
import json, sys, os
VERIF = os.path.dirname(os.path.dirname(os.path.abspath(__file__)))
REPO = os.environ.get('VERIF_REPO', '/repo')
for pid in sys.argv[1:]:
    e = json.load(open(os.path.join(VERIF, 'evidence', pid + '.json')))
    a = e['coverage'].get('anchored_lines') or {}
    print("== %s  %s/%s lines hit" % (pid, a.get('lines_hit'), a.get('executable_lines')))
    for f, fs in (a.get('per_function') or {}).items():
        src = open(os.path.join(REPO, f)).read().splitlines()
        for q, r in fs.items():
            if r['missed']:
                print("  %s %s  (%d/%d)" % (f, q, r['hit'], r['executable']))
                for l in r['missed']:
                    print("     %5d  %s" % (l, src[l - 1].strip()[:110]))
