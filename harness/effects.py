"""C12 translator: Python AST of geomdl's object layer  ->  lean/NurbsVerif/Gen/Effects.lean

For every public setter / mutator / cache-filling reader of the six spline classes and the three
containers the possible EVENT PATHS  `clear cache | write field | fill cache`  are extracted in program
order by a small symbolic executor over the `ast` of abstract.py, BSpline.py, NURBS.py, multi.py and
operations.py (DESIGN 4.6):

* methods / properties are resolved along the MRO of the receiver's class; `self.m(...)`,
  `self.prop = v`, `self.prop`, `super(C, self).m(...)`, `operations.f(obj, ...)`, local helper functions
  and the `self._insert_knot_func(self, ...)` indirection are inlined with the receiver tracked through
  aliases (`geom = obj`, `for g in geom`, `geom[0]`);
* `X = kwargs.get('flag', default)` / `if X:` is evaluated when the call site passes literal keyword
  arguments (the `reset(evalpts=True, ctrlpts=True)` idiom), `isinstance(obj, abstract.Curve)`,
  `obj.rational`, `obj.pdimension` are evaluated from the class; every other branch forks;
* loops contribute zero or one iteration (the abstract effect of a path is idempotent, see
  Model/Effects.lean: every single-cache transformer is idempotent);
* an explicit `raise` ends a path (kept separately as a "raising" path); `try/except` continues a
  raising path in the handlers.

The vocabulary (which private attribute is which field / cache) is the table VOCAB below.  A write to
a private attribute that is not in the vocabulary, a construct the executor does not understand on the
receiver, or a missing entry point makes the translation FAIL LOUDLY (TranslatorError) - the check then
reports the broken obligation instead of silently checking a stale table.

Also here: the dynamic tracer that validates the translator against running objects (`Tracer`).
"""
import ast, os, sys, itertools

MODULES = ['abstract', 'BSpline', 'NURBS', 'multi', 'operations']


class TranslatorError(Exception):
    pass


# ------------------------------------------------------------------ vocabulary
FIELD_ATTRS = {'_degree': 'degree', '_knot_vector': 'knots', '_control_points': 'net',
               '_control_points_size': 'sizes', '_delta': 'delta', '_trims': 'trims', '_elements': 'elems'}
CACHE_ATTRS = {'_eval_points': 'evalpts', '_bounding_box': 'bbox', '_control_points2D': 'cp2d'}
CACHE_KEYS = {'geom': {'ctrlpts': 'cpCache', 'weights': 'wCache'},
              'container': {'evalpts': 'cEval', 'vertices': 'cVerts', 'faces': 'cFaces'}}
# sub-object holding a cache: attribute -> {method: event}
SUBOBJ = {'_tsl_component': {'reset': ('clear', 'tess'), 'tessellate': ('fill', 'tess'),
                             'is_tessellated': None, 'vertices': None, 'faces': None}}
# private attributes that are neither definition nor cache (writes produce no event)
IGNORED_ATTRS = {'_dimension': 'spatial dimension, a function of the net',
                 '_iter_index': 'iterator position', '_name': 'label', '_id': 'label', '_opt_data': 'user data',
                 '_vis_component': 'visualisation (not covered)', '_precision': 'constructor option',
                 '_geometry_type': 'label'}
# attributes holding a constant set once in __init__ (evaluated from the class)
CONST_ATTRS = {'_rational', '_pdim'}
FUNC_ATTRS = {'_insert_knot_func', '_remove_knot_func'}     # default taken from __init__'s kwargs.get(.., operations.f)
LIST_MUTATORS = {'append', 'extend', 'insert', 'pop', 'remove', 'clear', 'sort', 'reverse', '__setitem__'}

FLDS = ['degree', 'knots', 'net', 'sizes', 'delta', 'trims', 'elems']
CCHS = ['evalpts', 'bbox', 'cp2d', 'cpCache', 'wCache', 'tess', 'cEval', 'cVerts', 'cFaces']

GEOM_CLASSES = [('BSpline', 'Curve'), ('NURBS', 'Curve'), ('BSpline', 'Surface'), ('NURBS', 'Surface'),
                ('BSpline', 'Volume'), ('NURBS', 'Volume')]
CONT_CLASSES = [('multi', 'CurveContainer'), ('multi', 'SurfaceContainer'), ('multi', 'VolumeContainer')]

# public property setters that are NOT analysed, with the reason (everything else with a setter is)
EXCLUDED_SETTERS = {
    'id': 'label', 'name': 'label', 'opt': 'user data', 'vis': 'visualisation component (not covered)',
    'evaluator': 'evaluator component: replacing the algorithm is not an edit of the definition',
    'tessellator': 'tessellation component: replacing it is not an edit of the definition',
    'trims': 'trim curves are not among the edits the property lists',
    'cpsize': 'documented expert setter ("assume the user is doing this right"), part of set_ctrlpts protocol',
    'ctrlpts_size_u': 'documented expert setter, part of set_ctrlpts protocol',
    'ctrlpts_size_v': 'documented expert setter, part of set_ctrlpts protocol',
    'ctrlpts_size_w': 'documented expert setter, part of set_ctrlpts protocol',
}
# public methods analysed as mutators (if the class has them) and cache-filling readers
MUTATOR_METHODS = ['set_ctrlpts', 'reverse', 'transpose', 'insert_knot', 'remove_knot', 'add', 'append']
READER_METHODS = ['evaluate', 'tessellate']
READER_PROPS = ['ctrlpts', 'ctrlptsw', 'weights', 'ctrlpts2d', 'evalpts', 'bbox', 'vertices', 'faces']
# operations.f(obj, ...) with the object as receiver: name -> (literal kwargs, classes)
OPERATIONS = {
    'insert_knot': ({}, 'geom'), 'remove_knot': ({}, 'geom'), 'refine_knotvector': ({}, 'geom'),
    'translate': ({'inplace': True}, 'geom'), 'rotate': ({'inplace': True}, 'geom'),
    'scale': ({'inplace': True}, 'geom'), 'transpose': ({'inplace': True}, 'surface'),
    'flip': ({'inplace': True}, 'surface'),
}
EXCLUDED_NOTE = {
    'operations.* on containers': 'edit the elements, never the container: cross-object staleness is finding F-12b (history oracle)',
    'reset': 'public but not an edit the property lists; it is inlined wherever a mutator calls it',
    'add_trim': 'trim curves are not among the edits the property lists',
}

# writes that store the value the field already has (checked at run time by the tracer: the written
# value must equal the old one) - (defining class, function, attribute): reason
BENIGN_WRITES = {('multi.SurfaceContainer', 'tessellate', '_elements'):
                 'the same element objects are written back after tessellation (num_procs == 1)'}

MAX_PATHS = 20000


# ------------------------------------------------------------------ abstract values
class V(object):
    """abstract value"""
    __slots__ = ('k', 'v')

    def __init__(self, k, v=None):
        self.k = k; self.v = v

    def __repr__(self):
        return "V(%s,%r)" % (self.k, self.v)

    def key(self):
        v = self.v
        if isinstance(v, (list, tuple)):
            v = tuple(x.key() if isinstance(x, V) else id(x) for x in v)
        elif isinstance(v, dict):
            v = tuple(sorted((k, x.key()) for k, x in v.items()))
        elif isinstance(v, (ast.AST, KW)):
            v = id(v)
        return (self.k, v)


UNK = V('unk')
RECV = V('recv')
OTHER = V('other')          # some object that is not the receiver
CACHE = V('cachedict')      # recv._cache


def CONST(x):
    return V('const', x)


class KW(object):
    """keyword arguments of a frame: known entries + whether unknown further entries may exist"""

    def __init__(self, known, open_):
        self.known = dict(known); self.open = open_


class ClassInfo(object):
    def __init__(self, module, name, node):
        self.module = module; self.name = name; self.node = node
        self.base = None
        self.methods = {}; self.getters = {}; self.setters = {}; self.aliases = {}

    def __repr__(self):
        return "%s.%s" % (self.module, self.name)


class Source(object):
    def __init__(self, repo):
        self.repo = repo
        self.trees = {}
        self.classes = {}
        self.functions = {}     # (module, name) -> FunctionDef
        for m in MODULES:
            path = os.path.join(repo, 'geomdl', m + '.py')
            if not os.path.exists(path):
                raise TranslatorError("source file %s is missing" % path)
            self.trees[m] = ast.parse(open(path, encoding='utf-8').read(), path)
        for m, tree in self.trees.items():
            for node in tree.body:
                if isinstance(node, ast.ClassDef):
                    self.classes[(m, node.name)] = self._class(m, node)
                elif isinstance(node, ast.FunctionDef):
                    self.functions[(m, node.name)] = node
        for ci in self.classes.values():
            ci.base = self._resolve_base(ci)

    def _class(self, m, node):
        ci = ClassInfo(m, node.name, node)
        for it in node.body:
            if isinstance(it, ast.FunctionDef):
                kind = 'method'
                for d in it.decorator_list:
                    if isinstance(d, ast.Name) and d.id == 'property':
                        kind = 'getter'
                    elif isinstance(d, ast.Attribute) and d.attr == 'setter':
                        kind = 'setter'
                    elif isinstance(d, ast.Attribute) and d.attr == 'deleter':
                        kind = 'deleter'
                if kind == 'getter':
                    ci.getters[it.name] = it
                elif kind == 'setter':
                    ci.setters[it.name] = it
                elif kind == 'method':
                    ci.methods[it.name] = it
            elif isinstance(it, ast.Assign) and len(it.targets) == 1 and isinstance(it.targets[0], ast.Name) \
                    and isinstance(it.value, ast.Name):
                ci.aliases[it.targets[0].id] = it.value.id       # `append = add`
        return ci

    def _resolve_base(self, ci):
        for b in ci.node.bases:
            if isinstance(b, ast.Attribute) and isinstance(b.value, ast.Name) and (b.value.id, b.attr) in self.classes:
                return self.classes[(b.value.id, b.attr)]
            if isinstance(b, ast.Name) and (ci.module, b.id) in self.classes:
                return self.classes[(ci.module, b.id)]
        return None

    def mro(self, ci):
        out = []
        while ci is not None:
            out.append(ci); ci = ci.base
        return out

    def lookup(self, ci, kind, name, after=None):
        """(defining class, FunctionDef) of a method/getter/setter along the MRO (after class `after`)"""
        chain = self.mro(ci)
        if after is not None:
            if after not in chain:
                raise TranslatorError("super(%s, self) used on a receiver of class %s" % (after, ci))
            chain = chain[chain.index(after) + 1:]
        for c in chain:
            tab = getattr(c, kind)
            if name in tab:
                return c, tab[name]
            if kind == 'methods' and name in c.aliases and c.aliases[name] in c.methods:
                return c, c.methods[c.aliases[name]]
        return None, None

    def is_property(self, ci, name):
        return self.lookup(ci, 'getters', name)[1] is not None

    def const_attr(self, ci, attr):
        """value of an attribute assigned a literal in the most derived __init__ (and nowhere else)"""
        for c in self.mro(ci):
            for fn in list(c.methods.values()) + list(c.getters.values()) + list(c.setters.values()):
                for n in ast.walk(fn):
                    if isinstance(n, (ast.Assign, ast.AugAssign)):
                        tg = n.targets if isinstance(n, ast.Assign) else [n.target]
                        for t in tg:
                            if isinstance(t, ast.Attribute) and t.attr == attr and fn.name != '__init__':
                                raise TranslatorError("%s is assigned outside __init__ (%s.%s)" % (attr, c, fn.name))
        for c in self.mro(ci):
            init = c.methods.get('__init__')
            if init is None:
                continue
            for n in ast.walk(init):
                if isinstance(n, ast.Assign) and len(n.targets) == 1 and isinstance(n.targets[0], ast.Attribute) \
                        and n.targets[0].attr == attr and isinstance(n.value, ast.Constant):
                    return n.value.value
        raise TranslatorError("no literal assignment to %s in the constructors of %s" % (attr, ci))

    def func_attr(self, ci, attr):
        """`self._insert_knot_func = kwargs.get('insert_knot_func', operations.insert_knot)` -> ('operations','insert_knot')"""
        for c in self.mro(ci):
            init = c.methods.get('__init__')
            if init is None:
                continue
            for n in ast.walk(init):
                if isinstance(n, ast.Assign) and len(n.targets) == 1 and isinstance(n.targets[0], ast.Attribute) \
                        and n.targets[0].attr == attr:
                    v = n.value
                    if isinstance(v, ast.Call) and isinstance(v.func, ast.Attribute) and v.func.attr == 'get' and len(v.args) == 2:
                        d = v.args[1]
                        if isinstance(d, ast.Attribute) and isinstance(d.value, ast.Name) and (d.value.id, d.attr) in self.functions:
                            return (d.value.id, d.attr)
                    raise TranslatorError("unexpected initialisation of %s in %s" % (attr, c))
        raise TranslatorError("%s is not initialised in the constructors of %s" % (attr, ci))

    def caches_of(self, ci):
        """the caches an object of this class has: every cache attribute / cache key / cache sub-object
        mentioned anywhere in the classes of its MRO"""
        kind = 'container' if self.isinstance_of(ci, 'multi', 'AbstractContainer') else 'geom'
        have = set()
        for c in self.mro(ci):
            for n in ast.walk(c.node):
                if isinstance(n, ast.Attribute) and n.attr in CACHE_ATTRS:
                    have.add(CACHE_ATTRS[n.attr])
                if isinstance(n, ast.Attribute) and n.attr in SUBOBJ:
                    have.add('tess')
                if isinstance(n, ast.Subscript) and isinstance(n.value, ast.Attribute) and n.value.attr == '_cache' \
                        and isinstance(n.slice, ast.Constant):
                    if n.slice.value not in CACHE_KEYS[kind]:
                        raise TranslatorError("cache key %r of %s is not in the vocabulary" % (n.slice.value, c))
                    have.add(CACHE_KEYS[kind][n.slice.value])
        if kind == 'container':
            have -= set(CACHE_ATTRS.values())      # GeomdlBase has no _eval_points etc.
        return [c for c in CCHS if c in have]

    def isinstance_of(self, ci, module, name):
        return any(c.module == module and c.name == name for c in self.mro(ci))


# ------------------------------------------------------------------ symbolic execution
class State(object):
    """one path under construction: events so far, variable bindings, control status, and what the
    path itself tells about each cache (`know`: cache -> 'e' emptied / 'f' filled by the last event on it)"""
    __slots__ = ('ev', 'env', 'status', 'ret', 'know')

    def __init__(self, ev=(), env=None, status='n', ret=None, know=()):
        self.ev = ev; self.env = env if env is not None else {}; self.status = status; self.ret = ret
        self.know = know

    def emit(self, e):
        know = self.know
        if e[0] in ('clear', 'fill'):
            d = dict(know); d[e[1]] = 'e' if e[0] == 'clear' else 'f'
            know = tuple(sorted(d.items()))
        if self.ev and self.ev[-1] == e:
            return self
        return State(self.ev + (e,), self.env, self.status, self.ret, know)

    def bind(self, name, val):
        env = dict(self.env)
        if val.k == 'unk':
            env.pop(name, None)          # unknown == unbound (keeps the state space small)
        else:
            env[name] = val
        return State(self.ev, env, self.status, self.ret, self.know)

    def with_status(self, st, ret=None):
        return State(self.ev, self.env, st, ret, self.know)

    def with_env(self, env):
        return State(self.ev, env, self.status, self.ret, self.know)

    def known(self, cache):
        return dict(self.know).get(cache)

    def key(self):
        return (self.ev, self.status, tuple(sorted((k, v.key()) for k, v in self.env.items())),
                self.ret.key() if isinstance(self.ret, V) else None, self.know)


def dedupe(states):
    seen = {}
    for s in states:
        seen.setdefault(s.key(), s)
    out = list(seen.values())
    if len(out) > MAX_PATHS:
        raise TranslatorError("path explosion (%d states)" % len(out))
    return out


EMPTY_CALLS = {'list', 'dict', 'tuple', 'set'}


class Frame(object):
    """static context of one inlined function body"""

    def __init__(self, module, defcls, fname, kw, depth, stack):
        self.module = module      # module whose globals resolve bare names
        self.defcls = defcls      # class that defines the method (for super)
        self.fname = fname
        self.kw = kw              # KW or None; name of the **kwargs parameter is in kwname
        self.kwname = None
        self.depth = depth
        self.stack = stack        # tuple of function ids on the inlining stack


class Exec(object):
    def __init__(self, src, cls):
        self.src = src; self.cls = cls
        self.kind = 'container' if src.isinstance_of(cls, 'multi', 'AbstractContainer') else 'geom'
        self.notes = set()
        self.memo = {}

    # -------- helpers
    def fail(self, node, msg):
        raise TranslatorError("%s (class %s, line %s: %s)" % (msg, self.cls, getattr(node, 'lineno', '?'),
                                                             ast.unparse(node)[:120] if node is not None else ''))

    def is_empty_expr(self, node):
        """syntactically an empty container: self._init_array(), [], list(), None, dict()"""
        if isinstance(node, ast.Constant) and node.value is None:
            return True
        if isinstance(node, (ast.List, ast.Tuple, ast.Dict)) and not getattr(node, 'elts', getattr(node, 'keys', [])):
            return True
        if isinstance(node, ast.Call):
            if isinstance(node.func, ast.Name) and node.func.id in EMPTY_CALLS and not node.args:
                return True
            if isinstance(node.func, ast.Attribute) and node.func.attr == '_init_array':
                return True
        return False

    # -------- expression evaluation: returns list of (state, value)
    def ev(self, node, st, fr):
        if node is None:
            return [(st, CONST(None))]
        m = getattr(self, 'e_' + type(node).__name__, None)
        if m is None:
            # generic: evaluate children expressions left to right, value unknown
            outs = [st]
            for ch in ast.iter_child_nodes(node):
                if isinstance(ch, ast.expr):
                    outs = [s2 for s in outs for (s2, _) in self.ev(ch, s, fr)]
                elif isinstance(ch, ast.comprehension):
                    outs = [s2 for s in outs for (s2, _) in self.ev(ch.iter, s, fr)]
                    for cond in ch.ifs:
                        outs = [s2 for s in outs for (s2, _) in self.ev(cond, s, fr)]
            return [(s, UNK) for s in outs]
        return m(node, st, fr)

    def ev_seq(self, nodes, st, fr):
        """evaluate a list of expressions in order; returns list of (state, [values])"""
        outs = [(st, [])]
        for n in nodes:
            nxt = []
            for s, vals in outs:
                for s2, v in self.ev(n, s, fr):
                    nxt.append((s2, vals + [v]))
            outs = nxt
        return outs

    def e_Constant(self, node, st, fr):
        return [(st, CONST(node.value))]

    def e_Name(self, node, st, fr):
        if node.id in st.env:
            return [(st, st.env[node.id])]
        if node.id in ('True', 'False', 'None'):
            return [(st, CONST({'True': True, 'False': False, 'None': None}[node.id]))]
        if (fr.module, node.id) in self.src.functions:
            return [(st, V('modfunc', (fr.module, node.id)))]
        if (fr.module, node.id) in self.src.classes:
            return [(st, V('class', (fr.module, node.id)))]
        if node.id in MODULES:
            return [(st, V('module', node.id))]
        return [(st, UNK)]

    def e_Tuple(self, node, st, fr):
        return [(s, V('tuple', vals)) for s, vals in self.ev_seq(node.elts, st, fr)]

    def e_List(self, node, st, fr):
        return [(s, UNK) for s, vals in self.ev_seq(node.elts, st, fr)]

    @staticmethod
    def truth(v, s):
        """truth value of an abstract value on this path: a constant, or a cache the path itself has
        just emptied / filled (`if not self._cache['ctrlpts']:` after a fill on the same path)"""
        if v.k == 'const':
            return bool(v.v)
        if v.k == 'cacheref':
            kn = s.known(v.v)
            if kn is not None:
                return kn == 'f'
        if v.k == 'poslen':
            return True
        return None

    def e_UnaryOp(self, node, st, fr):
        out = []
        for s, v in self.ev(node.operand, st, fr):
            t = self.truth(v, s)
            if isinstance(node.op, ast.Not) and t is not None:
                out.append((s, CONST(not t)))
            else:
                out.append((s, UNK))
        return out

    def e_BoolOp(self, node, st, fr):
        is_and = isinstance(node.op, ast.And)
        outs = []           # finished (state, value)
        cur = [st]
        for i, vnode in enumerate(node.values):
            nxt = []
            last = (i == len(node.values) - 1)
            for s in cur:
                for s2, v in self.ev(vnode, s, fr):
                    tv = self.truth(v, s2)
                    if tv is not None:
                        if tv != is_and or last:      # short-circuit decided (or final value)
                            outs.append((s2, CONST(tv)))
                        else:
                            nxt.append(s2)
                    else:
                        outs.append((s2, UNK))                # may stop here ...
                        if not last:
                            nxt.append(s2)                    # ... or go on
            cur = nxt
        return outs

    def e_Compare(self, node, st, fr):
        out = []
        for s, vals in self.ev_seq([node.left] + list(node.comparators), st, fr):
            if len(vals) == 2 and isinstance(node.ops[0], (ast.Is, ast.IsNot)) and vals[0].k == 'cacheref' \
                    and vals[1].k == 'const' and vals[1].v is None and s.known(vals[0].v) is not None:
                out.append((s, CONST(isinstance(node.ops[0], ast.IsNot)))); continue     # emptied/filled: not None
            if len(vals) == 2 and vals[0].k == 'poslen' and vals[1].k == 'const' and vals[1].v == 0 \
                    and isinstance(node.ops[0], (ast.Eq, ast.NotEq, ast.Gt)):
                out.append((s, CONST(not isinstance(node.ops[0], ast.Eq)))); continue
            if all(v.k == 'const' for v in vals) and len(vals) == 2:
                a, b = vals[0].v, vals[1].v
                op = node.ops[0]
                try:
                    r = {ast.Eq: lambda: a == b, ast.NotEq: lambda: a != b, ast.Is: lambda: a is b,
                         ast.IsNot: lambda: a is not b, ast.Lt: lambda: a < b, ast.LtE: lambda: a <= b,
                         ast.Gt: lambda: a > b, ast.GtE: lambda: a >= b}[type(op)]()
                    out.append((s, CONST(r))); continue
                except Exception:
                    pass
            out.append((s, UNK))
        return out

    def e_IfExp(self, node, st, fr):
        out = []
        for s, c in self.ev(node.test, st, fr):
            t = self.truth(c, s)
            if t is not None:
                out += self.ev(node.body if t else node.orelse, s, fr)
            else:
                out += self.ev(node.body, s, fr) + self.ev(node.orelse, s, fr)
        return out

    def e_Lambda(self, node, st, fr):
        return [(st, UNK)]

    def e_Subscript(self, node, st, fr):
        out = []
        for s, vals in self.ev_seq([node.value, node.slice], st, fr):
            base, idx = vals
            if base.k == 'recv':
                if self.kind == 'geom':
                    out.append((s, RECV))        # Geometry.__getitem__ returns self
                else:
                    out.append((s, OTHER))       # an element of the container
            elif base.k == 'cachedict':
                if idx.k != 'const' or idx.v not in CACHE_KEYS[self.kind]:
                    self.fail(node, "unknown cache key")
                out.append((s, V('cacheref', CACHE_KEYS[self.kind][idx.v])))
            elif base.k == 'tuple':
                if idx.k == 'const' and isinstance(idx.v, int) and -len(base.v) <= idx.v < len(base.v):
                    out.append((s, base.v[idx.v]))
                else:
                    out.append((s, V('choice', base.v)))
            elif base.k in ('fieldref', 'cacheref', 'subobj', 'attrref'):
                out.append((s, V('part', base)))    # something inside a tracked attribute
            elif base.k == 'part':
                out.append((s, base))
            else:
                out.append((s, UNK))
        return out

    def e_Slice(self, node, st, fr):
        outs = [st]
        for ch in (node.lower, node.upper, node.step):
            if ch is not None:
                outs = [s2 for s in outs for (s2, _) in self.ev(ch, s, fr)]
        return [(s, UNK) for s in outs]

    def e_Attribute(self, node, st, fr):
        out = []
        for s, base in self.ev(node.value, st, fr):
            out += self.attr_load(node, s, fr, base, node.attr)
        return out

    def attr_load(self, node, s, fr, base, attr):
        if base.k == 'recv':
            if attr == '_cache':
                return [(s, CACHE)]
            if attr in CONST_ATTRS:
                return [(s, CONST(self.src.const_attr(self.cls, attr)))]
            if attr in FIELD_ATTRS:
                return [(s, V('fieldref', FIELD_ATTRS[attr]))]
            if attr in CACHE_ATTRS:
                return [(s, V('cacheref', CACHE_ATTRS[attr]))]
            if attr in SUBOBJ:
                return [(s, V('subobj', attr))]
            if attr in FUNC_ATTRS:
                self.notes.add("%s is taken to be its default %s.%s" % ((attr,) + self.src.func_attr(self.cls, attr)))
                return [(s, V('modfunc', self.src.func_attr(self.cls, attr)))]
            if attr == '__class__':
                return [(s, V('class', (self.cls.module, self.cls.name)))]
            c, g = self.src.lookup(self.cls, 'getters', attr)
            if g is not None:
                return self.inline(g, c.module, c, s, fr, [RECV], {}, None)
            c, mth = self.src.lookup(self.cls, 'methods', attr)
            if mth is not None:
                return [(s, V('method', attr))]
            if attr.startswith('_'):
                return [(s, V('attrref', attr))]
            self.fail(node, "attribute %s is not defined along the MRO" % attr)
        if base.k == 'subobj':
            tab = SUBOBJ[base.v]
            if attr not in tab:
                self.fail(node, "unknown member of sub-object %s" % base.v)
            if tab[attr] is None and attr in ('vertices', 'faces'):
                return [(s, V('part', base))]
            return [(s, V('submethod', (base.v, attr)))]
        if base.k == 'super':
            return [(s, V('supermethod', (base.v, attr)))]
        if base.k == 'module':
            if (base.v, attr) in self.src.functions:
                return [(s, V('modfunc', (base.v, attr)))]
            if (base.v, attr) in self.src.classes:
                return [(s, V('class', (base.v, attr)))]
            return [(s, UNK)]
        if base.k == 'kwargs':
            return [(s, V('kwmethod', attr))]
        if base.k in ('fieldref', 'cacheref', 'part'):
            return [(s, V('boundlist', (base, attr)))]
        return [(s, UNK)]

    def e_Call(self, node, st, fr):
        out = []
        # special forms first
        f = node.func
        if isinstance(f, ast.Name) and f.id == 'super':
            if len(node.args) == 2 and isinstance(node.args[0], ast.Name):
                key = (fr.module, node.args[0].id)
                if key not in self.src.classes:
                    self.fail(node, "super() of an unknown class")
                return [(st, V('super', key))]
            if not node.args and fr.defcls is not None:
                return [(st, V('super', (fr.defcls.module, fr.defcls.name)))]
            self.fail(node, "unsupported super() form")
        if isinstance(f, ast.Name) and f.id == 'isinstance' and len(node.args) == 2:
            res = []
            for s, vals in self.ev_seq(node.args, st, fr):
                x, t = vals
                if x.k == 'recv' and t.k == 'class':
                    res.append((s, CONST(self.src.isinstance_of(self.cls, t.v[0], t.v[1]))))
                else:
                    res.append((s, UNK))
            return res
        if isinstance(f, ast.Name) and f.id == 'len' and len(node.args) == 1:
            res = []
            for s, v in self.ev(node.args[0], st, fr):
                kn = s.known(v.v) if v.k == 'cacheref' else None
                res.append((s, CONST(0) if kn == 'e' else (V('poslen') if kn == 'f' else UNK)))
            return res
        if isinstance(f, ast.Name) and f.id == 'hasattr':
            return [(s, UNK) for s, _ in self.ev_seq(node.args, st, fr)]
        if isinstance(f, ast.Attribute) and f.attr == 'deepcopy' and isinstance(f.value, ast.Name) and f.value.id == 'copy':
            return [(s, OTHER) for s, _ in self.ev_seq(node.args, st, fr)]
        # general: callee, then arguments
        for s, fv in self.ev(f, st, fr):
            argnodes = [a.value if isinstance(a, ast.Starred) else a for a in node.args]
            starred = any(isinstance(a, ast.Starred) for a in node.args)
            kwnodes = [k.value for k in node.keywords]
            for s2, vals in self.ev_seq(argnodes + kwnodes, s, fr):
                args = vals[:len(argnodes)]
                kws = {}
                kwopen = False
                passthrough = None
                for k, v in zip(node.keywords, vals[len(argnodes):]):
                    if k.arg is None:
                        if v.k == 'kwargs':
                            passthrough = v.v
                        else:
                            kwopen = True
                    else:
                        kws[k.arg] = v
                if passthrough is not None:
                    known = dict(passthrough.known); known.update(kws)
                    kw = KW(known, passthrough.open)
                else:
                    kw = KW(kws, kwopen)
                out += self.call(node, s2, fr, fv, args, kw, starred)
        return out

    def call(self, node, s, fr, fv, args, kw, starred=False):
        k = fv.k
        if k == 'choice':
            res = []
            for alt in fv.v:
                res += self.call(node, s, fr, alt, args, kw, starred)
            return res
        if k == 'method':
            c, fn = self.src.lookup(self.cls, 'methods', fv.v)
            return self.inline(fn, c.module, c, s, fr, [RECV] + args, kw, node, starred)
        if k == 'supermethod':
            after = self.src.classes[fv.v[0]]
            c, fn = self.src.lookup(self.cls, 'methods', fv.v[1], after=after)
            if fn is None:
                self.fail(node, "super method not found")
            return self.inline(fn, c.module, c, s, fr, [RECV] + args, kw, node, starred)
        if k == 'modfunc':
            if any(a.k == 'recv' for a in args) or any(v.k == 'recv' for v in kw.known.values()):
                fn = self.src.functions[fv.v]
                return self.inline(fn, fv.v[0], None, s, fr, args, kw, node, starred)
            return [(s, UNK)]
        if k == 'localfunc':
            fn, mod = fv.v
            if any(a.k == 'recv' for a in args):
                return self.inline(fn, mod, None, s, fr, args, kw, node, starred)
            return [(s, UNK)]
        if k == 'submethod':
            evn = SUBOBJ[fv.v[0]][fv.v[1]]
            if evn is not None:
                s = s.emit(evn)
            return [(s, UNK)]
        if k == 'kwmethod':
            if fv.v in ('get', 'pop'):
                if args and args[0].k == 'const' and fr.kw is not None:
                    key = args[0].v
                    dflt = args[1] if len(args) > 1 else CONST(None)
                    if key in fr.kw.known:
                        return [(s, fr.kw.known[key])]
                    if not fr.kw.open:
                        return [(s, dflt)]
                return [(s, UNK)]
            return [(s, UNK)]
        if k == 'boundlist':
            base, meth = fv.v
            root = base
            while root.k == 'part':
                root = root.v
            if meth in LIST_MUTATORS or meth in ('update', 'setdefault', '__iadd__'):
                if root.k == 'fieldref':
                    return [(s.emit(('write', root.v)), UNK)]
                if root.k == 'cacheref':
                    return [(s.emit(('fill', root.v)), UNK)]
                if root.k == 'subobj':
                    return [(s.emit(('fill', 'tess')), UNK)]
            return [(s, UNK)]
        if k == 'class' or k == 'unk' or k == 'other' or k == 'const' or k == 'module' or k == 'tuple' or k == 'part' \
                or k == 'fieldref' or k == 'cacheref' or k == 'attrref':
            return [(s, OTHER if k == 'class' else UNK)]
        if k == 'recv':
            return [(s, UNK)]
        self.fail(node, "call of an unsupported callee kind %s" % k)

    # -------- inlining
    def inline(self, fn, module, defcls, s, fr, args, kw, node, starred=False):
        """execute the body of `fn`; returns list of (state, return value); a raising path is returned
        with status 'x' (the caller propagates it)"""
        fid = id(fn)
        depth = fr.stack.count(fid) if fr is not None else 0
        if depth >= 2:
            self.notes.add("recursion of %s cut at depth 2" % fn.name)
            return [(s, UNK)]
        if isinstance(kw, dict):
            kw = KW(kw, False)
        # the effect of a call depends on (function, abstract arguments) only: memoise it as a list of
        # (event suffix, raised?, return value) and replay the suffix on the incoming state
        mkey = None
        if depth == 0:
            mkey = (fid, tuple(a.key() for a in args), tuple(sorted((k, v.key()) for k, v in kw.known.items())) if kw else None,
                    kw.open if kw else None, starred, s.know)
            if mkey in self.memo:
                return self.replay(self.memo[mkey], s)
            res = self.inline_raw(fn, module, defcls, State(know=s.know), fr, args, kw, node, starred)
            self.memo[mkey] = [(st.ev, st.status, st.ret if st.status == 'x' else None, v) for st, v in res]
            return self.replay(self.memo[mkey], s)
        return self.inline_raw(fn, module, defcls, s, fr, args, kw, node, starred)

    def replay(self, summary, s):
        out = {}
        for evs, status, exc, v in summary:
            t = s
            for e in evs:
                t = t.emit(e)
            t = State(t.ev, s.env, status, exc, t.know)
            out.setdefault((t.key(), v.key()), (t, v))
        return list(out.values())

    def inline_raw(self, fn, module, defcls, s, fr, args, kw, node, starred=False):
        fid = id(fn)
        nf = Frame(module, defcls, fn.name, None, 0, (fr.stack if fr is not None else ()) + (fid,))
        a = fn.args
        env = {}
        params = [p.arg for p in a.args]
        defaults = [None] * (len(params) - len(a.defaults)) + list(a.defaults)
        kwknown = dict(kw.known) if kw is not None else {}
        for i, p in enumerate(params):
            if i < len(args) and not (starred and i >= len(args) - 0 and False):
                env[p] = args[i]
            elif p in kwknown:
                env[p] = kwknown.pop(p)
            elif defaults[i] is not None and isinstance(defaults[i], ast.Constant) and not starred and not (kw and kw.open):
                env[p] = CONST(defaults[i].value)
            else:
                env[p] = UNK
        if starred:
            # positional arguments of unknown number: parameters after the explicit ones are unknown
            for i, p in enumerate(params):
                if i >= len(args):
                    env[p] = UNK
        if a.vararg is not None:
            env[a.vararg.arg] = UNK
        if a.kwarg is not None:
            nf.kw = KW(kwknown, kw.open if kw is not None else False)
            nf.kwname = a.kwarg.arg
            env[a.kwarg.arg] = V('kwargs', nf.kw)
        saved = s.env
        st0 = State(s.ev, env, 'n', None, s.know)
        res = self.block(fn.body, [st0], nf)
        out = []
        for r in res:
            if r.status == 'x':
                out.append((State(r.ev, saved, 'x', r.ret, r.know), UNK))
            else:
                rv = r.ret if (r.status == 'r' and isinstance(r.ret, V)) else CONST(None)
                out.append((State(r.ev, saved, 'n', None, r.know), rv))
        # dedupe
        seen = {}
        for stt, v in out:
            seen.setdefault((stt.key(), v.key()), (stt, v))
        return list(seen.values())

    # -------- statements
    def block(self, stmts, states, fr):
        for stn in stmts:
            nxt = []
            for s in states:
                if s.status != 'n':
                    nxt.append(s)
                else:
                    nxt += self.stmt(stn, s, fr)
            states = dedupe(nxt)
        return states

    def after_expr(self, pairs):
        """split evaluation outcomes into continuing ones and raised ones"""
        go, raised = [], []
        for s, v in pairs:
            (raised if s.status == 'x' else go).append((s, v))
        return go, [s for s, _ in raised]

    def stmt(self, n, s, fr):
        m = getattr(self, 's_' + type(n).__name__, None)
        if m is None:
            self.fail(n, "statement kind %s is not understood" % type(n).__name__)
        return m(n, s, fr)

    def s_Pass(self, n, s, fr):
        return [s]

    s_Import = s_ImportFrom = s_Global = s_Nonlocal = s_Pass

    def s_Assert(self, n, s, fr):
        go, raised = self.after_expr(self.ev(n.test, s, fr))
        return [x for x, _ in go] + raised

    def s_Expr(self, n, s, fr):
        go, raised = self.after_expr(self.ev(n.value, s, fr))
        return [x for x, _ in go] + raised

    def s_Return(self, n, s, fr):
        go, raised = self.after_expr(self.ev(n.value, s, fr))
        return [x.with_status('r', v) for x, v in go] + raised

    def s_Raise(self, n, s, fr):
        outs = [s]
        if n.exc is not None:
            go, raised = self.after_expr(self.ev(n.exc, s, fr))
            outs = [x for x, _ in go] + raised
        name = None
        e = n.exc
        if isinstance(e, ast.Call):
            e = e.func
        if isinstance(e, ast.Name):
            name = e.id
        elif isinstance(e, ast.Attribute):
            name = e.attr
        return [x.with_status('x', CONST(name)) if x.status == 'n' else x for x in outs]

    @staticmethod
    def catches(h, exc):
        """does `except T` catch an exception whose class name is `exc` (None = unknown)?  Classes are
        compared by name; the builtin hierarchy is not consulted except for Exception/BaseException."""
        if h.type is None or exc is None:
            return True
        names = []
        for t in (h.type.elts if isinstance(h.type, ast.Tuple) else [h.type]):
            names.append(t.id if isinstance(t, ast.Name) else (t.attr if isinstance(t, ast.Attribute) else None))
        return any(nm is None or nm in ('Exception', 'BaseException') or nm == exc for nm in names)

    def s_Break(self, n, s, fr):
        return [s.with_status('b')]

    def s_Continue(self, n, s, fr):
        return [s.with_status('c')]

    def s_FunctionDef(self, n, s, fr):
        return [s.bind(n.name, V('localfunc', (n, fr.module)))]

    def s_Delete(self, n, s, fr):
        for t in n.targets:
            for sub in ast.walk(t):
                if isinstance(sub, ast.Name) and s.env.get(sub.id, UNK).k == 'recv':
                    self.fail(n, "del on the receiver")
        return [s]

    def s_If(self, n, s, fr):
        out = []
        go, raised = self.after_expr(self.ev(n.test, s, fr))
        out += raised
        for s2, c in go:
            t = self.truth(c, s2)
            if t is not None:
                out += self.block(n.body if t else n.orelse, [s2], fr)
            else:
                out += self.block(n.body, [s2], fr) + self.block(n.orelse, [s2], fr)
        return out

    def s_For(self, n, s, fr):
        if n.orelse:
            self.fail(n, "for/else")
        out = []
        go, raised = self.after_expr(self.ev(n.iter, s, fr))
        out += raised
        for s2, it in go:
            out.append(s2)                               # zero iterations
            # loop variable
            if it.k == 'recv':
                tv = RECV if self.kind == 'geom' else OTHER
            elif it.k == 'tuple':
                tv = V('choice', it.v)
            else:
                tv = UNK
            starts = self.assign_target(n.target, s2, fr, tv, None)
            for b in self.block(n.body, starts, fr):
                if b.status in ('b', 'c'):
                    b = b.with_status('n')
                out.append(b)                            # one iteration
        return out

    def s_While(self, n, s, fr):
        out = []
        go, raised = self.after_expr(self.ev(n.test, s, fr))
        out += raised
        for s2, c in go:
            out.append(s2)
            for b in self.block(n.body, [s2], fr):
                if b.status in ('b', 'c'):
                    b = b.with_status('n')
                out.append(b)
        return out

    def s_With(self, n, s, fr):
        outs = [s]
        for item in n.items:
            nxt = []
            for x in outs:
                go, raised = self.after_expr(self.ev(item.context_expr, x, fr))
                nxt += raised
                for s2, v in go:
                    if item.optional_vars is not None:
                        nxt += self.assign_target(item.optional_vars, s2, fr, UNK, None)
                    else:
                        nxt.append(s2)
            outs = nxt
        return self.block(n.body, [x for x in outs if x.status == 'n'], fr) + [x for x in outs if x.status != 'n']

    def s_Try(self, n, s, fr):
        out = []
        body = self.block(n.body, [s], fr)
        for b in body:
            if b.status == 'x' and n.handlers:
                exc = b.ret.v if isinstance(b.ret, V) and b.ret.k == 'const' else None
                caught = False
                for h in n.handlers:
                    if not self.catches(h, exc):
                        continue
                    caught = True
                    hs = b.with_status('n')
                    if h.name:
                        hs = hs.bind(h.name, UNK)
                    out += self.block(h.body, [hs], fr)
                    if exc is not None:
                        break
                if not caught or exc is None:
                    out.append(b)
            elif b.status == 'n' and n.orelse:
                out += self.block(n.orelse, [b], fr)
            else:
                out.append(b)
        if n.finalbody:
            fin = []
            for b in out:
                for f in self.block(n.finalbody, [b.with_status('n')], fr):
                    fin.append(f if f.status != 'n' else f.with_status(b.status, b.ret))
            out = fin
        return out

    def s_Assign(self, n, s, fr):
        out = []
        go, raised = self.after_expr(self.ev(n.value, s, fr))
        out += raised
        for s2, v in go:
            cur = [s2]
            for t in n.targets:
                cur = [y for x in cur for y in (self.assign_target(t, x, fr, v, n.value) if x.status == 'n' else [x])]
            out += cur
        return out

    def s_AnnAssign(self, n, s, fr):
        if n.value is None:
            return [s]
        go, raised = self.after_expr(self.ev(n.value, s, fr))
        out = list(raised)
        for s2, v in go:
            out += self.assign_target(n.target, s2, fr, v, n.value)
        return out

    def s_AugAssign(self, n, s, fr):
        out = []
        go, raised = self.after_expr(self.ev(n.value, s, fr))
        out += raised
        for s2, v in go:
            if isinstance(n.target, ast.Name):
                out.append(s2.bind(n.target.id, UNK))
            else:
                out += self.assign_target(n.target, s2, fr, UNK, n.value, aug=True)
        return out

    def assign_target(self, t, s, fr, val, rhs, aug=False):
        """returns list of states"""
        if isinstance(t, ast.Name):
            return [s.bind(t.id, val)]
        if isinstance(t, (ast.Tuple, ast.List)):
            cur = [s]
            for i, el in enumerate(t.elts):
                ev_ = val.v[i] if (val.k == 'tuple' and len(val.v) == len(t.elts)) else UNK
                cur = [y for x in cur for y in self.assign_target(el, x, fr, ev_, None)]
            return cur
        if isinstance(t, ast.Starred):
            return self.assign_target(t.value, s, fr, UNK, None)
        if isinstance(t, ast.Attribute):
            out = []
            go, raised = self.after_expr(self.ev(t.value, s, fr))
            out += raised
            for s2, base in go:
                out += self.attr_store(t, s2, fr, base, t.attr, val, rhs, aug)
            return out
        if isinstance(t, ast.Subscript):
            out = []
            go, raised = self.after_expr(self.ev_seq([t.value, t.slice], s, fr))
            out += raised
            for s2, vals in go:
                base, idx = vals
                out.append(self.item_store(t, s2, fr, base, idx, rhs, aug))
            return out
        self.fail(t, "assignment target not understood")

    def cache_event(self, cname, rhs, aug):
        if aug or rhs is None:
            return ('fill', cname)
        return ('clear', cname) if self.is_empty_expr(rhs) else ('fill', cname)

    def attr_store(self, t, s, fr, base, attr, val, rhs, aug):
        if base.k == 'recv':
            if attr in FIELD_ATTRS:
                bk = ("%s" % fr.defcls, fr.fname, attr)
                if bk in BENIGN_WRITES:
                    self.notes.add("%s.%s: write to %s taken as value-preserving: %s" % (bk[0], bk[1], attr, BENIGN_WRITES[bk]))
                    return [s]
                return [s.emit(('write', FIELD_ATTRS[attr]))]
            if attr in CACHE_ATTRS:
                return [s.emit(self.cache_event(CACHE_ATTRS[attr], rhs, aug))]
            if attr in IGNORED_ATTRS:
                return [s]
            if attr in SUBOBJ or attr == '_cache' or attr in CONST_ATTRS or attr in FUNC_ATTRS:
                self.fail(t, "a mutator replaces %s" % attr)
            c, st_ = self.src.lookup(self.cls, 'setters', attr)
            if st_ is not None:
                res = self.inline(st_, c.module, c, s, fr, [RECV, val], {}, t)
                return [x for x, _ in res]
            if self.src.is_property(self.cls, attr):
                self.fail(t, "assignment to the read-only property %s" % attr)
            self.fail(t, "write to attribute %s which is not in the field/cache vocabulary" % attr)
        if base.k in ('part', 'subobj'):
            root = base
            while root.k == 'part':
                root = root.v
            if root.k == 'subobj':
                return [s.emit(('fill', 'tess'))]       # e.g. self._tsl_component.vertices[i].data = ...
            if root.k == 'fieldref':
                return [s.emit(('write', root.v))]
            if root.k == 'cacheref':
                return [s.emit(('fill', root.v))]
        return [s]      # attribute of some other object

    def item_store(self, t, s, fr, base, idx, rhs, aug):
        if base.k == 'cachedict':
            if idx.k != 'const' or idx.v not in CACHE_KEYS[self.kind]:
                self.fail(t, "unknown cache key")
            return s.emit(self.cache_event(CACHE_KEYS[self.kind][idx.v], rhs, aug))
        root = base
        while root.k == 'part':
            root = root.v
        if root.k == 'fieldref':
            return s.emit(('write', root.v))
        if root.k == 'cacheref':
            # self._cache['weights'][:] = self._init_array()   /   self._eval_points[i] = ...
            full = isinstance(t.slice, ast.Slice) and t.slice.lower is None and t.slice.upper is None
            if full and not aug and rhs is not None and self.is_empty_expr(rhs):
                return s.emit(('clear', root.v))
            return s.emit(('fill', root.v))
        if root.k == 'subobj':
            return s.emit(('fill', 'tess'))
        if root.k == 'recv':
            self.fail(t, "item assignment on the receiver")
        return s

    # -------- entry points
    def run_entry(self, fn, module, defcls, args, kw):
        fr0 = Frame(module, defcls, '<entry>', None, 0, ())
        res = self.inline(fn, module, defcls, State(), fr0, args, kw, None)
        normal, raising = set(), set()
        for st, _ in res:
            (raising if st.status == 'x' else normal).add(st.ev)
        return sorted(normal), sorted(raising)


def n_params(fn):
    return len(fn.args.args)


def extract(repo):
    """returns (entries, meta): entries = list of dict(cls, op, paths, raising)"""
    src = Source(repo)
    entries = []
    notes = set()
    excluded = []
    for key in GEOM_CLASSES + CONT_CLASSES:
        if key not in src.classes:
            raise TranslatorError("class %s.%s not found" % key)
        cls = src.classes[key]
        ex = Exec(src, cls)
        cname = "%s.%s" % key
        is_cont = key in CONT_CLASSES
        caches = src.caches_of(cls)

        def add(op, fn, module, defcls, args, kw):
            normal, raising = ex.run_entry(fn, module, defcls, args, kw)
            entries.append(dict(cls=cname, op=op, caches=caches, paths=[list(p) for p in normal], raising=[list(p) for p in raising]))

        # setters
        seen = set()
        for c in src.mro(cls):
            for name in sorted(c.setters):
                if name in seen or name.startswith('_'):
                    continue
                seen.add(name)
                if name in EXCLUDED_SETTERS:
                    excluded.append((cname, 'set:' + name, EXCLUDED_SETTERS[name]))
                    continue
                dc, fn = src.lookup(cls, 'setters', name)
                if all(isinstance(b, ast.Pass) or (isinstance(b, ast.Expr) and isinstance(b.value, ast.Constant)) for b in fn.body):
                    excluded.append((cname, 'set:' + name, 'setter body is `pass` in %s' % dc))
                    continue
                add('set:' + name, fn, dc.module, dc, [RECV, UNK], KW({}, False))
        # mutator methods and reader methods
        for name in MUTATOR_METHODS + READER_METHODS:
            dc, fn = src.lookup(cls, 'methods', name)
            if fn is None:
                continue
            add(name, fn, dc.module, dc, [RECV] + [UNK] * (n_params(fn) - 1), KW({}, True))
        # getters that may fill caches
        for name in READER_PROPS:
            dc, fn = src.lookup(cls, 'getters', name)
            if fn is None:
                continue
            add('get:' + name, fn, dc.module, dc, [RECV], KW({}, False))
        # operations.f(obj, ...)
        if not is_cont:
            for name, (kws, scope) in sorted(OPERATIONS.items()):
                if scope == 'surface' and not src.isinstance_of(cls, 'abstract', 'Surface'):
                    continue
                if ('operations', name) not in src.functions:
                    raise TranslatorError("operations.%s not found" % name)
                fn = src.functions[('operations', name)]
                kw = KW({k: CONST(v) for k, v in kws.items()}, not kws)
                add('operations.' + name, fn, 'operations', None, [RECV] + [UNK] * (n_params(fn) - 1), kw)
        notes |= ex.notes
    # obligations on the shape of the table: the ops the property names must be present
    need = {
        'BSpline.Curve': ['set:degree', 'set:knotvector', 'set:ctrlpts', 'set:delta', 'set:sample_size', 'set_ctrlpts', 'reverse',
                          'insert_knot', 'remove_knot', 'operations.refine_knotvector', 'operations.translate', 'get:evalpts', 'get:bbox'],
        'NURBS.Curve': ['set:ctrlptsw', 'set:weights', 'set:ctrlpts', 'reverse', 'get:ctrlpts', 'get:weights'],
        'BSpline.Surface': ['set:degree_u', 'set:degree_v', 'set:knotvector_u', 'set:knotvector_v', 'set:ctrlpts2d', 'set:delta_u',
                            'set:sample_size_v', 'transpose', 'operations.transpose', 'operations.flip', 'get:vertices', 'tessellate'],
        'NURBS.Surface': ['set:ctrlptsw', 'set:weights', 'set:ctrlpts2d', 'transpose'],
        'BSpline.Volume': ['set:degree_w', 'set:knotvector_w', 'set:delta_w', 'set_ctrlpts', 'operations.insert_knot'],
        'NURBS.Volume': ['set:ctrlptsw', 'set:weights'],
        'multi.CurveContainer': ['add', 'set:delta', 'set:sample_size', 'get:evalpts'],
        'multi.SurfaceContainer': ['add', 'set:delta', 'set:delta_u', 'set:delta_v', 'set:sample_size_u', 'set:sample_size_v',
                                   'get:evalpts', 'get:vertices', 'get:faces', 'tessellate'],
        'multi.VolumeContainer': ['add', 'set:delta', 'set:delta_w', 'set:sample_size_w'],
    }
    have = {(e['cls'], e['op']) for e in entries}
    missing = [(c, o) for c, ops in need.items() for o in ops if (c, o) not in have]
    if missing:
        raise TranslatorError("entry points the property names are missing from the source: %s" % missing)
    # a mutator without any event is suspicious: every listed setter must write its field
    for e in entries:
        if e['op'].startswith('set:') and not any(p for p in e['paths']):
            raise TranslatorError("%s %s: no path with an event was extracted" % (e['cls'], e['op']))
    meta = dict(notes=sorted(notes), excluded=excluded, excluded_note=EXCLUDED_NOTE,
                n_entries=len(entries), n_paths=sum(len(e['paths']) + len(e['raising']) for e in entries))
    return entries, meta


# ------------------------------------------------------------------ Lean output
def ev_lean(e):
    k, x = e
    if k == 'write':
        assert x in FLDS
    else:
        assert x in CCHS
    return ".%s .%s" % (k, x)


def path_lean(p):
    return "[" + ", ".join(ev_lean(e) for e in p) + "]"


def to_lean(entries, meta, repo):
    out = ["import NurbsVerif.Model.Effects",
           "/-! GENERATED by harness/effects.py from geomdl/{abstract,BSpline,NURBS,multi,operations}.py of the tree under check – do not edit.",
           "    %d operations, %d event paths.  -/" % (meta['n_entries'], meta['n_paths']),
           "namespace Gen", "open Eff", ""]
    names = []
    for i, e in enumerate(entries):
        nm = "e%d" % i
        names.append(nm)
        out.append("def %s : OpSummary :=\n  { cls := \"%s\", op := \"%s\", caches := [%s]," % (
            nm, e['cls'], e['op'], ", ".join("." + c for c in e['caches'])))
        out.append("    paths := [" + ",\n      ".join(path_lean(p) for p in e['paths']) + "],")
        out.append("    raising := [" + ",\n      ".join(path_lean(p) for p in e['raising']) + "] }")
    out.append("")
    out.append("def effects : List OpSummary := [" + ", ".join(names) + "]")
    out.append("end Gen")
    return "\n".join(out) + "\n"


def generate(repo, lean_dir):
    entries, meta = extract(repo)
    path = os.path.join(lean_dir, 'NurbsVerif', 'Gen', 'Effects.lean')
    os.makedirs(os.path.dirname(path), exist_ok=True)
    txt = to_lean(entries, meta, repo)
    old = open(path).read() if os.path.exists(path) else None
    if old != txt:
        with open(path, 'w') as f:
            f.write(txt)
    return entries, meta


# ------------------------------------------------------------------ abstract interpretation in Python
# (mirror of Model/Effects.lean; used for diagnostics and to name the offending path in a report)
DEPS = {'evalpts': ['degree', 'knots', 'net', 'sizes', 'delta'], 'bbox': ['net'], 'cp2d': ['net', 'sizes'],
        'cpCache': ['net'], 'wCache': ['net'], 'tess': ['degree', 'knots', 'net', 'sizes', 'delta', 'trims'],
        'cEval': ['elems', 'delta'], 'cVerts': ['elems', 'delta'], 'cFaces': ['elems', 'delta']}
EAGER = {'cp2d'}


def step_c(c, s, e):
    k, x = e
    if k == 'write':
        return 'stale' if (x in DEPS[c] and s == 'fresh') else s
    if k == 'clear':
        return 'empty' if x == c else s
    return 'fresh' if x == c else s


def run_c(c, s, evs):
    for e in evs:
        s = step_c(c, s, e)
    return s


def path_ok(evs, caches=CCHS):
    return all(run_c(c, s, evs) != 'stale' for c in caches for s in ('empty', 'fresh'))


def eager_ok(evs, caches=CCHS):
    return all(run_c(c, 'fresh', evs) == 'fresh' for c in EAGER if c in caches)


def bad_paths(entries):
    bad = []
    for e in entries:
        for p in e['paths'] + e['raising']:
            if not path_ok(p, e['caches']):
                stale = [c for c in e['caches'] if run_c(c, 'fresh', p) == 'stale' or run_c(c, 'empty', p) == 'stale']
                bad.append(dict(cls=e['cls'], op=e['op'], path=["%s %s" % x for x in p], stale=stale))
        for p in e['paths']:
            if not eager_ok(p, e['caches']):
                bad.append(dict(cls=e['cls'], op=e['op'], path=["%s %s" % x for x in p], eager='cp2d not refilled'))
    return bad


if __name__ == '__main__':
    # python harness/effects.py [repo] [--write]   (--write regenerates lean/NurbsVerif/Gen/Effects.lean)
    args = [a for a in sys.argv[1:] if not a.startswith('--')]
    repo = args[0] if args else os.environ.get('VERIF_REPO', '/repo')
    if '--write' in sys.argv:
        generate(repo, os.path.join(os.path.dirname(os.path.dirname(os.path.abspath(__file__))), 'lean'))
    entries, meta = extract(repo)
    for e in entries:
        print("%-22s %-28s %4d paths %3d raising  maxlen %d" % (e['cls'], e['op'], len(e['paths']), len(e['raising']),
                                                                 max([len(p) for p in e['paths'] + e['raising']] or [0])))
    print(meta['n_entries'], 'entries', meta['n_paths'], 'paths')
    for n in meta['notes']:
        print('note:', n)
    for b in bad_paths(entries):
        print('BAD', b)
