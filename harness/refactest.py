#!/usr/bin/env python3
"""Runs every quick check against behaviour-preserving refactorings: none may raise an alarm.
usage: refactest.py <dir with r*/patch.diff> [parallelism]"""
import sys, os, json, subprocess, glob
VERIF = os.path.dirname(os.path.dirname(os.path.abspath(__file__)))


def sh(cmd, cwd=None, env=None, timeout=7200):
    p = subprocess.run(cmd, shell=True, cwd=cwd, env=env, capture_output=True, text=True, timeout=timeout)
    return p.returncode, p.stdout + p.stderr


def main():
    d = sys.argv[1]
    only = sys.argv[2:]
    checks = [c['property_id'] for c in json.load(open(os.path.join(VERIF, 'MANIFEST.json')))['checks']]
    wt = '/tmp/refacrun_wt_%d' % os.getpid()
    rc, o = sh('git -C /repo worktree add --detach %s HEAD' % wt)
    assert rc == 0, o
    try:
        for rd in sorted(glob.glob(os.path.join(d, 'r*')), key=lambda x: int(os.path.basename(x)[1:])):
            name = os.path.basename(rd)
            if only and name not in only:
                continue
            sh('git checkout -- . && git clean -fdq', cwd=wt)
            rc, o = sh('git apply %s' % os.path.join(rd, 'patch.diff'), cwd=wt)
            if rc != 0:
                print(name, 'patch does not apply', o[-200:]); continue
            env = dict(os.environ, VERIF_REPO=wt)
            alarms = []
            for chk in checks:
                rcc, oc = sh('./check %s --tier quick' % chk, cwd=VERIF, env=env)
                if rcc != 0:
                    alarms.append((chk, rcc, [l for l in oc.splitlines() if l.startswith('VIOLATION')][:1], oc.strip().splitlines()[-1][:160]))
            print(name, 'NO ALARM' if not alarms else 'ALARMS %s' % alarms, flush=True)
    finally:
        sh('git -C /repo worktree remove --force %s' % wt)


if __name__ == '__main__':
    main()
