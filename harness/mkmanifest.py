#!/usr/bin/env python3
"""Regenerates /verif/MANIFEST.json from the table below (run after adding a check)."""
import json, os
VERIF = os.path.dirname(os.path.dirname(os.path.abspath(__file__)))
BASE = "cd /repo && /venv/bin/python -m pytest -ra -q -p no:cacheprovider --timeout=900 --continue-on-collection-errors"
TRUST = ("Trusted: Lean 4.33 kernel; axioms propext, Classical.choice, Quot.sound only (audited with #print axioms on every run; "
         "no sorry/admit/native_decide/bv_decide/own axioms); Mathlib definitions in the statements; the hand-written model's fidelity is "
         "CHECKED on every run by the exact-rational correspondence (harness/qnum.py runs the unmodified /repo working tree in Fractions, "
         "the Lean driver runs the model on the same op lines, outputs compared as strings) but only on the generated inputs; IEEE rounding, "
         "the 18-decimals print/parse, math.sqrt/cos/sin are modelled as exact / passed as inputs, not verified. ")

# id -> (design section, level text, property specific note)   -- claimed checks
CLAIMED = {
    'C01': ("7/C01",
            "Lean theorems over the executable model (any degree, any non-decreasing knot function, any span, any parameter, any dimension, any ordered field): "
            "each coordinate of the curve point computed by A3.1 equals the sum over ALL control points of Cox-de Boor basis function times control point; the "
            "surface point equals the double and the volume point the triple tensor-product sum with the flat layout v + size_v*(u + size_u*w); for positive weights the weight function is positive and the "
            "rational point is the quotient of the two sums; the sampled parameters are n strictly increasing values starting and ending exactly on the domain ends; "
            "entry points: evaluate_list / the curve grid is the map of evaluate_single, the surface grid has |us|*|vs| points with point (i,j) at flat index i*|vs|+j (volume: u slowest, w fastest), its first and last "
            "points are the surface points at the domain corners, and entry 0 of Curve.derivatives(u, order) is the evaluated point for every order. "
            "END TO END: evaluate_single (linear span search + span evaluation) equals the Cox-de Boor tensor sum for every parameter of the half-open domain, and on the closed domain the sum with the recursion of the span found - at the right end the last non-empty span "
            "(left-limit convention; cdbSpan = cdb on the half-open span, = A2.2 for every parameter); rational: weight positive and point = quotient of the sums; curves, surfaces, volumes. "
            "The model is tied to Curve/Surface/Volume evaluate_single / evaluate_list / evalpts / derivatives(order=0) (BSpline and NURBS) by exact correspondence.",
            "The zeroth derivative of surfaces is covered coordinatewise by C02 (surface_derivatives_are_true_mixed_derivatives at k = l = 0 and surface_span_polynomial_is_the_surface). Not proved: the object layer's dispatch to the model functions (tied by correspondence + exact oracle). "
            "Known finding F-01 (sample size under normalize_kv=False) is reported as KNOWN-FINDING."),
    'C04': ("7/C04",
            "Lean theorems insert_preserves_curve (function level: spans found by the library's linear search before and after, EVERY parameter of the domain incl. both ends), insert_sequence_preserves (ANY sequence of admissible insertions, by induction over the request list, well-formedness preserved) and insert_preserves_curve_point: for every degree, sorted knot vector, control polygon of any dimension (homogeneous points for rational curves), "
            "insertion parameter with any prior multiplicity s, any count r with r+s<=p, and EVERY evaluation parameter, the point computed by A2.2/A3.1 from the model of "
            "helpers.knot_insertion / knot_insertion_kv equals the original point (polar-form refinement theorem, no bound on anything); plus: knot vector gains exactly r "
            "copies (multiset), stays sorted, net grows by r, over-multiplicity requests are rejected; surfaces in both directions and VOLUMES in all three directions "
            "(insert_u/v/w_preserves_volume_point at given spans, insert_u/v/w_preserves_volume with the linear-search spans for every parameter triple of the domain; the whole homogeneous point is preserved, hence rational shapes; "
            "insertKnotDir_volume ties the object-level model to mapVol with A5.1 on every iso-curve). The model (including the per-direction gather/scatter for surfaces "
            "and volumes and the partial application when a later direction is rejected) is tied to operations.insert_knot and the insert_knot methods by exact correspondence. The LIST-OF-ROWS branch of helpers.knot_insertion that operations.insert_knot uses for volumes is modelled (knotInsertionRows; gather / scatter volRows, volUnrows, mapVolRows with the code's index expressions; ops rowsins / rowsvol against the real helper called with rows) and PROVED equal to the per-iso-curve model (knotInsertionRows_isocurve without hypothesis, mapVolRows_insert_eq_mapVol, insertKnotVolRows_is_insertKnotDir), so the volume theorems are about what the rows branch computes. insert_sequence_preserves states the final state CurveWF and both domain ends unchanged; insert_net_length: r more points, each of the same dimension.",
            "Surfaces: proved for both directions (insert_u/insert_v_preserves_surface_point: the gather / scatter of iso-curves of the model preserves every surface point). Volumes: proved for all three directions. Object level: one insert_knot call on any subset of the directions of a surface / volume and any sequence of such calls preserve well-formedness, domain and every evaluated point and complete, under DirReqOk per requested direction (insertKnot_preserves_surface/_volume, insert_call_sequence_preserves_*); a rejected later direction leaves the earlier ones applied with the same points (insertKnot_partial_application_*). Not covered: u = U_n, check=False beyond p - s, curve objects at Shape level (curves are proved at helper level); A5.1's in-place loops (point and rows branch) vs the index-by-index form are tied by correspondence."),
    'C05': ("7/C05",
            "Lean theorems over the executable model, for any degree, dimension, density and ordered field: the admissibility predicate RefineOk is DISCHARGED for the knot list X the library generates (counting argument under tolerance separation, any order); "
            "knotRefinement and knotRefinementOf (explicit knot_list / add_knot_list) preserve every curve point on the whole domain (hypotheses: well-formed curve, clamped end, 0 <= tol, knots pairwise equal or more than tol apart); the refined knot vector is sorted and "
            "equals the old one plus X as a multiset, both sizes grow by |X|, every interior knot of the result has multiplicity exactly the degree, the distinct domain knots are the density-fold bisection of the old ones (closed form l_i + (l_{i+1}-l_i) r / 2^d); "
            "refine_knotvector leaves density-0 directions untouched (any dimension); refineDir in u and v and refine_knotvector on any subset of a surface's directions preserve every surface point and the domain. "
            "The model of helpers.knot_refinement used by the object-level theorems is specification-level (the list X the code computes, inserted one knot at a time with the A5.1 model proved shape preserving in C04). "
            "The A5.4 LOOPS of helpers.knot_refinement are additionally TRANSCRIBED LITERALLY (refineA54 / knotRefinementA54, driver ops refa54 / refa54h, compared with the real helper in exact arithmetic) and PROVED equal to the specification-level model - "
            "knot vector (any sorted X in the domain) and control points (every outer pass is one A5.1 insertion; insertion order is irrelevant because each new control point is the original polar value at consecutive new knots) - for curve-level calls, "
            "knot vector clamped at the start, no value more than p+1 times; the literal model itself is proved shape preserving. Both models are tied to the code by exact correspondence through operations.refine_knotvector on curves, surfaces and volumes "
            "(all direction subsets, densities 1..3) and at helper level with explicit knot lists. The list-of-rows branch of A5.4 (volumes) is transcribed literally as well (refineA54Rows / knotRefinementRows / refineVolRows, ops rowsref / rowsrefh / rowsvol) and proved: every iso-curve of A5.4 on rows is A5.4 of that iso-curve with the same knot vector, and one direction of refine_knotvector on a volume computed through the rows IS refineDir (refineVolRows_is_refineDir, refineVolRows_preserves_volume).",
            "Volumes: refineDir in every direction and refine_knotvector on any subset of the three directions preserve every volume point and the domain (refineDir_preserves_volume, refineKnotvector_preserves_volume; clamped end + tolerance separation per refined direction). Rows branch proved per iso-curve (the object-level equality needs the start-clamped, multiplicity <= p+1 knot vector of the A5.4 theorem); for knot lists X that would raise a knot above multiplicity p only the knot-vector theorem holds (guard on X). F-05a / F-05b (helper-level refinement with explicit knot lists) were reported with replays and fixed."),
    'C06': ("7/C06",
            "Lean theorems (all degrees, positions, prior multiplicities, counts, tolerances >= 0): knot removal A5.8 as coded INVERTS knot insertion A5.1 - r insertions then t <= r removals (called with the span k+r and multiplicity s+r that find_span_linear / "
            "find_multiplicity are proved to return on the refined knot vector) yield exactly the control net of r-t insertions, t = r the original net, for curves, both surface directions and all three volume directions; knot vector and net sizes drop by exactly "
            "the count (net length unconditionally); evaluated curve points are unchanged for every parameter (via C04); operations.insert_knot followed by operations.remove_knot returns the original curve object (Shape-level round trip). "
            "The model knotRemoval mirrors the repaired code (F-06; the check reported the violation with a replay on the pinned tree first) and is tied to operations.remove_knot / remove_knot methods by exact correspondence, including the removal of knots that are not "
            "removable and removals in several directions in one call. The exact oracle additionally checks removal after refinement, insert r / remove t <= r in every direction of curves, surfaces, volumes: knot vector, sizes, evaluated points, control points. The list-of-rows branch of A5.8 used for volumes is transcribed as coded (knotRemovalRows: one removability flag per step from the first point of the rows, object sharing between temp and ctrlpts_new; ops rowsrem / rowsvol against the real helper called with rows, removable or not) and PROVED equal to the per-iso-curve model whenever every iso-curve passes the removability test at every step - which inserted knots always do (inserted_knots_all_removable) - hence r insertions then t <= r removals, both through the rows branches, give the net of r-t insertions in all three directions (volume_u/v/w_rows_insert_r_remove_t, removeKnotVolRows_is_removeKnotDir); where the branches differ (only the first iso-curve removable; the first one not removable; 2+ removals of an unremovable knot writing through a row shared between temp and ctrlpts_new) is REFUTED on kernel-decided witnesses replayed on the implementation.",
            "Not proved in Lean: removability of knots not inserted immediately before the removal (refinement; inserted knots after which other knots were inserted; 'whenever removable at all' needs uniqueness of B-spline coefficients) - oracle + correspondence; "
            "the Shape-level round trip, partial removal (t <= r) and the evaluated-point corollary are proved for curves, either direction of a surface and any direction of a volume with one requested direction per call; several directions in / several out in one call is not proved (oracle + correspondence). Volumes: the object-level model decides per iso-curve; the rows-level model follows the code (first iso-curve) and is compared on unremovable knots too; no agreement theorem for 2+ removals with a failed step (the two branches of the code genuinely differ there)."),
    'C07': ("7/C07",
            "Lean theorems, END TO END through the model functions the correspondence runs (splitDir, decomposeDir, decomposeUV), spans found by find_span_linear, closed end parameters included: split_curve_pieces_coincide (both pieces = original under the affine maps "
            "of their domains, pieces clamped 0^{p+1}..1^{p+1}, sizes |P|+r+1), split_surface_u/v_pieces_coincide, decompose_curve_pieces / decompose_curve_count (exactly one Bezier piece per non-empty knot interval, in order, each coinciding with the original on its "
            "interval; knot-vector length is enough fuel), decompose_surface_u/v/uv_pieces (one strip / patch per interval / pair of intervals, u-major order, coincidence on the rectangle); find_multiplicity_exact (tolerance separation => exact multiplicity); plus the "
            "span-level theorems, rejection at domain ends, Bezier unchanged, window locality and affine invariance of A2.2. Hypotheses: degree >= 1, clamped well-formed knot vector in the split direction, inner multiplicity <= p, tolerance separation "
            "(decomposition: pairwise, domain <= 1, other direction normalised). The model is tied to operations.split_curve / split_surface_u / split_surface_v / decompose_curve / decompose_surface by exact correspondence; the exact oracle checks every piece against "
            "the original under the affine domain map, piece counts and order, input untouched; split parameters near knots probe the multiplicity tolerance.",
            "Not proved: unclamped knot vectors, degree 0, inner multiplicity > p, decompose_surface with an un-normalised other-direction knot vector, volumes (oracle + correspondence only)."),
    'C02': ("7/C02",
            "Lean theorems for EVERY shipped derivative routine AS CODED - A2.3 (basis_function_ders), A3.2 (CurveEvaluator.derivatives), A3.3/A3.4, A3.6 (SurfaceEvaluator.derivatives), A3.7 (surface_deriv_cpts), A3.8 (SurfaceEvaluator2.derivatives) transcribed loop by loop, "
            "each compared with the real function by its own exact stream: curve entry k = k-th iterated Polynomial.derivative of the span polynomial at u (every k <= order, zero above the degree; the derivative from the right at knots); surface entry [k][l] = mixed partial "
            "(pderivU^[k] pderivV^[l]) of the bivariate span polynomial in F[X][Y] at (u,v) (A3.6: all k, l <= order; A3.8: k + l <= order, the rest zero; every PKL entry A3.8 reads is assigned by A3.7); A2.3 = table of true derivatives of the basis polynomials, all divisors positive; "
            "the A4.2 and A4.4 list models solve the univariate / bivariate Leibniz systems of every order, whose solution is unique when the weight function does not vanish (= derivatives of the quotient A/w), also applied to the tables as coded; "
            "hodograph constructors: derivative_curve evaluated through the span search on U[1:-1] = first derivative of the original curve (span shifts by one), the three surfaces of derivative_surface evaluate to S_u, S_v, S_uv; operations.tangent = (point, first derivative(s)); "
            "operations.normal = cross product of the true partials, orthogonal to both; exact unit length of v/mag. Anchored-line coverage of C02: 302/302. Rational shapes END TO END: for NURBS curves and surfaces with positive weights, through the span search on the closed domain, the evaluated weight is positive and A4.2 / A4.4 applied to the derivative tables solve the Leibniz system of the TRUE derivatives (no hypothesis on the tables left).",
            "Outside the theorems: the setter re-normalisation of hodograph knot vectors that do not span [0,1] (driver applies knotNormalize where the code does; oracle maps the parameter affinely), the ZeroDivisionError guards of the constructors (F-02b, open), "
            "float sqrt and 18-decimal rounding of vector_normalize (oracle, 1e-12). The quotient view of rational derivatives goes through the Leibniz system and its uniqueness; "
            "F-02 (alternative surface evaluator, order > degree_u) was reported with a replay and fixed; F-02b (derivative_surface on C0 knots) is a recorded finding."),
    'C08': ("7/C08",
            "Lean theorems over the executable model, for every degree, elevation count, dimension, parameter and field of characteristic 0: binomial_coefficient = Nat.choose; "
            "degree elevation preserves the Bernstein form (list model bridged to the Finset identity), keeps both end points, returns p+1+t points; rows of points via flattening; "
            "rejection guards of both routines; the Bernstein form is A2.2 on the one-span clamped knot vector and the modelled curve evaluator returns it, so 'same curve' is the C01 "
            "notion; on the REPAIRED degree_reduction, reduce o elevate_1 = id for every degree >= 1 and t reductions invert an elevation by t for every t >= 1 (loop invariants of both "
            "sweeps, odd-degree average). F-08: the pinned routine is refuted at degree 5 (decide at Q, plus 'point 3 is zero' for every input). Model tied to helpers.degree_elevation / "
            "degree_reduction, linalg.binomial_coefficient, one-span operations.degree_operations and the curve evaluator by exact-rational correspondence; independent de Casteljau oracle.",
            "The model mirrors the repaired degree_reduction (fix: commit in /repo; the check reported the violation with a replay on the pinned tree first); rows of points are supported by the "
            "helper only in flattened form; binomial_coefficient's float division is exact only below 2^53 (degrees used <= 18); operations.degree_operations on multi-span curves is not part of this check."),
    'C16': ("7/C16",
            "Lean theorems for all sizes over any ordered field: Doolittle LU (L unit lower, U upper, L*U = A when pivots are non-zero), forward/backward substitution, lu_solve (returns iff pivots non-zero; "
            "A*x = b, also as a Mathlib Matrix statement), lu_factor (P*b), matrix_inverse (two-sided), matrix_pivot (one permutation sigma of the rows of A and of the identity; P*A; sign), "
            "history independence with the memoised identity as explicit cache state (every call in every history returns the pure answer), strictly diagonally dominant => lu_solve returns and solves, "
            "helpers (dot, cross incl. orthogonality, transpose involution, product = Matrix product, identity, binomial = Nat.choose, linspace); determinant = Matrix.det under 'no zero pivot after pivoting'. "
            "Refutations by decide +kernel of the pinned behaviours F-16a / F-16c (repaired by fix: commits after the check reported them with replays) and of F-16b (recorded finding). Model tied to linalg.* by exact correspondence incl. call histories. Every list-level theorem carries the decidable shape guard under which the code does not reject the input (isSquare, luSolveOk, luFactorOk, matrixInverseOk, matrixMultiplyOk, admissible); driver_guard: these are exactly the driver's ERR tests.",
            "Model mirrors the repaired code for F-16a/F-16c and the pinned code for F-16b (open finding; matrixDeterminant_eq_det_partial excludes exactly that region). Collocation matrices => non-zero pivots, "
            "the max-pivot property and the square-root helpers are oracle-only; frange, angle and triangle helpers are not covered."),
    'C10': ("7/C10",
            "Lean theorems: affine invariance of curve evaluation (if every control point of Q is the image of the corresponding point of P under one affine map of the coordinates, "
            "every evaluated point of Q is the image of the evaluated point of P; uses partition of unity; any degree / knots / span / parameter / dimension; covers translation, scaling and "
            "rotation about any centre with ANY c, s); the general lemmas for combinations with coefficients summing to one (surfaces, volumes) and for linear maps in homogeneous coordinates "
            "(rational shapes); the model's translate / rotate formulas; assembled theorems for curves, surfaces and volumes, rational and not: for any affine coordinate map f (translatePt, scalePt, rotatePt with any c, s, and "
            "compositions - each proved affine) eval(net.map (onCartesian rat f)) = f(eval net) after projection with weights unchanged; the model's three-step rotate is one such map (rotate_net_*), fully assembled for volumes. The model (maps act on Cartesian points, weights unchanged, rotation centre = evaluated start point, cos/sin passed as the "
            "doubles Python computes) is tied to operations.translate / rotate / scale on all six classes by exact correspondence; the oracle also checks inplace semantics, input snapshots and containers.",
            "Rational statements assume positive weights; the fully assembled rotate theorem is written for volumes (curves / surfaces follow from rotate_net_*, affine_maps_compose, transformed_*_point); object identity and containers are runtime notions (oracle only)."),
    'C18': ("7/C18",
            "Lean theorems (any degree, knots, span, parameter, dimension): for every linear functional the value at the evaluated curve point lies between any bounds of the functional on the p+1 active "
            "control points (convex hull via all separating directions); every coordinate lies within the bounds of the control net (bounding box); clamped start and end: with p equal knots at the span "
            "start / end A2.2 returns (1,0,..,0) / (0,..,0,1) and the evaluated point is the first / last active control point; rational coefficients N_i w_i / sum are non-negative and sum to one; "
            "the same hull theorem for surfaces and volumes (volume point = convex combination with the triple tensor coefficients), for rational curves / surfaces / volumes with positive weights (evaluated weight positive, projected point "
            "in the hull of the projected control points), and every evaluated point lies inside boundingBox of the (Cartesian) net (boundingBox proved to bound every net point). "
            "END TO END (span search + evaluation, every parameter of the closed domain incl. the right end): curvePoint / surfacePoint / volumePoint lie in boundingBox of the net and in the hull of the control points active on the spans the search finds, "
            "rational versions with positive weights; a clamped curve starts / ends at its first / last control point, corners of clamped surfaces / volumes are the corner control points. "
            "LENGTH: for every seminorm N (Euclidean over R is an instance; l1 proved an instance over every ordered field) and the model polylineLength / curveLength of operations.length_curve (tied by the exact 'lensum' correspondence): length >= chord (any point list; "
            "clamped curves: end-to-end chord, >= 2 samples); knot insertion never lengthens the control polygon (r copies, sequences); the polyline through curve points at any increasing parameters, in particular the linspace samples for every sample size, is <= the control polygon "
            "(degree >= 1, non-rational, end-clamped). "
            "Model function boundingBox tied to the bbox property by exact correspondence; the exact oracle checks hull (axes + random directions), bbox, clamped ends on curves, surfaces, volumes, rational or not. The Euclidean norm over R is PROVED an instance (euclid_is_seminorm: its distance is point_distance, radicand = normSq) with the real-number corollaries of both length bounds (length_curve_ge_chord_euclid, length_curve_le_control_polygon_euclid).",
            "Not a Lean theorem: that find_ctrlpts returns exactly the active control points (C20 has the index statement), the object layer's dispatch; the clamped start needs a non-empty first span. Not a theorem: float sqrt / summation respecting the length bounds (oracle, 1e-12 slack); rational curves in the length bounds."),
    'C09': ("7/C09",
            "Lean theorems (23, all discharged): the list helpers combine / separate / generate_* are mutually inverse; for EVERY history of the three setters, the three reads and reverse the views "
            "satisfy ctrlptsw = combine(ctrlpts, weights) (invariant by induction over the op list); setter round trips; bspline_to_nurbs / nurbs_to_bspline; unit weights evaluate identically and a common "
            "weight factor c != 0 moves no point (curve, surface, volume); the weighted grid applies each point's own weight and its cache is consistent; refutations by decide of the pinned GridWeighted and reverse. "
            "Tied to NURBS.* setters/getters, compatibility.*, convert.*, CPGen.GridWeighted by exact correspondence on object scripts.",
            "Model = repaired code (F-09, F-12a fixed by fix: commits after the check reported them with replays). Evaluation theorems are about the model evaluators on a given non-empty span; scripts keep the point count fixed "
            "(zip truncation in the setters is compared with the model but not judged)."),
    'C13': ("7/C13",
            "Lean theorems (37, all discharged) over an arbitrary point type, for all sizes and degrees: the flat layout v + sv*(u + su*w) is a bijection with explicit inverse; ctrlpts2d getter/setter, the control-point "
            "managers, flips, extraction of iso-curves / iso-surfaces all address flatIdx; the two flips are mutually inverse; transpose is an involution with S^T(v,u) = S(u,v); extract-then-construct is the identity "
            "for surfaces (both directions) and volumes (all three directions, repaired code); sweep boundary sections are the input and its translate; kernel-checked refutations of the pinned construct_volume('u'|'v') "
            "and sweep_vector(curve); volume evaluation equals the curve evaluation, in the remaining direction, over the points of the surfaces extract_surfaces builds (all three families), at span level and through the span search. Tied to construct.*, sweeping.sweep_vector, operations.transpose/flip, ctrlpts2d, control_points managers by exact correspondence (27 op kinds) plus an exact oracle on the public API. Surface evaluation through extract_curves; boundary iso-curves / iso-surfaces of clamped surfaces / volumes are the first / last extracted curve / surface (evaluated points, through the span search); sweep end sections are the input and its translate as evaluated points (non-rational evaluation on the stored points).",
            "Model mirrors the repaired code (F-13a, F-13b fixed by fix: commits after the check reported them with replays). The projected rational form of the boundary theorems, the weight split/recombine and knot-vector validation are oracle-only; "
            "transpose leaves sample sizes unswapped (recorded observation, not checked)."),
    'C17': ("7/C17",
            "Lean theorems: binary span search = linear span search (termination included) for every degree / knots / parameter under the tolerance hypothesis that F-17b violates; span search, A2.2 and curve / surface / volume POINT evaluation are "
            "invariant under increasing affine maps of knots and parameter (per direction), in particular under knotvector.normalize with the normalised parameter; curve and surface DERIVATIVES scale by the chain-rule factors (entry k by a^-k, entry [k][l] by a1^-k*a2^-l; basis derivative tables, A2.3 as coded, rational A4.2 / A4.4 structurally on their loops; "
            "with knotvector.normalize the order-k derivative is multiplied by (last-first)^k); knot insertion, removal and refinement return the SAME control points and the mapped knot vectors under an increasing affine map of the knots (helper level and one direction of "
            "insert_knot / remove_knot / refine_knotvector on curves, surfaces, volumes; tolerance of find_multiplicity scaled with the range, or unchanged under an explicit separation hypothesis), split_curve / split_surface_u/v return identical pieces; "
            "find_span_binsearch returns a legal span index on the whole domain for any tolerance >= 0 (termination needs neither sortedness nor the F-17b hypothesis); an LRU cache of ANY capacity is transparent for EVERY call history (the contract behind GEOMDL_CACHE_SIZE); "
            "both curve evaluator families return the same vectors (A3.2 over A2.3 as coded = A3.3/A3.4, every k <= requested order) and the two surface evaluator variants agree where both compute an entry (C02: both as coded). Correspondence: objects built with find_span_binsearch and with normalize_kv=True on affine knot ranges against the same model lines; the harness "
            "imports the package in sub-interpreters under GEOMDL_CACHE_SIZE in {unset,1,16,1024} and runs tessellation / voxelisation with num_procs in {1,2,4,8}, comparing results.",
            "Not theorems: the multi-direction folds of insert_knot / remove_knot / refine_knotvector and decompose_* under a change of the knot range (proved per direction / per split), refinement with the code's fixed tolerance (theorems scale it with the range), volume derivatives (library stub). Runtime parts (process pools, functools.lru_cache itself, environment) cannot be exhibited by a theorem: they are compared by the harness in floating point only. F-17a (import fails when GEOMDL_CACHE_SIZE is set) was "
            "reported with a replay and fixed; F-17b and F-01 are recorded findings reported by C03 / C01."),
    'C19': ("7/C19",
            "Lean theorems (15, all discharged): the repaired == is reflexive, symmetric for equal tolerance, a deep copy equals its source; eqShape_iff: on well-formed shapes equality holds exactly when kind, rationality, "
            "sizes and degrees match and every knot and homogeneous coordinate is within tolerance; changing a single net coordinate / weight / knot by more than the tolerance or a degree makes the shapes unequal; refutations of the pinned "
            "behaviour by decide. Tied to a == b, b == a, a != b on BSpline/NURBS Curve/Surface/Volume pairs (identical, deep copies, perturbations at 1/2 .. 10 times the tolerance, structural differences) by exact correspondence.",
            "Model = repaired __eq__ (F-19 fixed by a fix: commit after the check reported it with a replay); tolerance = value of 10 ** (-precision) passed to the model by the harness; mixed-precision pairs (asymmetric ==) are compared "
            "with the model but not judged; copy.deepcopy itself is checked by the oracle only."),
    'C15': ("7/C15",
            "Lean theorems (31) over the repaired model, for all grid sizes >= 2 and any spacing: vertex ids 0..V-1, every face index < V, faces exactly the two triangles of every cell, F = 2(nu-1)(nv-1), uniform positive "
            "orientation, area sum = the rectangle's, cell partition, duplicate-free edge list with explicit E, edge incidences (boundary 1, interior 2 in opposite directions), V - E + F = 1, quad mesh, export offsets and blocks, "
            "STL normal = cross product orthogonal to the edges, each vertex's copied evaluated point IS the surface point at its stored uv (vertex_is_surface_point, domain [0,1]^2); refutation of the pinned size expression for every dividing spacing >= 3. Exact correspondence with TriangularTessellate, "
            "QuadTessellate, Surface.tessellate, SurfaceContainer, export_obj/off/stl, triangle_normal; plus the whole-rectangle POINT-SET TILING (the closed triangles cover the rectangle spanned by the grid lines, nothing sticks out, "
            "a point interior to a face lies in no other face; [0,1]^2 when the spacing divides size-1) and the quad mesh vertex parameters (= grid sample parameters = the triangle mesher's for spacing 1; own driver op and exact correspondence with QuadTessellate .uv, after the repair F-15c).",
            "Trimmed tessellation is not modelled (exact oracle test on rectangular polygonal trims only; spline trims untested); when the spacing does not divide size-1 the grid ends before parameter 1 (code behaviour; the tiling theorems speak about the rectangle the grid spans); file syntax and binary STL packing are oracle-only. "
            "F-15 was reported with a replay and fixed; F-01 and F-15b (container sample size) are recorded findings."),
    'C20': ("7/C20",
            "Lean theorems (48) over any linearly ordered field: is_left = 2x2 determinant with sign meaning and affine covariance; convex_hull is CORRECT for every finite point list (vertices are input points, pairwise distinct, every input point is left-of-or-on every edge "
            "of the closed hull, strictly convex counter-clockwise when it has >= 3 vertices; Andrew's scan invariant; degenerate inputs characterised); wn_poly crossing rule, translation / reversal / start-vertex invariance, counter >= 1 for a point strictly left of all edges and "
            "= 0 for a point separated by a line (no convexity needed), for strictly convex polygons and points off the boundary True iff strictly inside with counter exactly 1 / 0, also on the output of convex_hull; ray status characterised "
            "(COLINEAR iff cross product below tol; with exact magnitude: INTERSECT iff line distance < tol, intersection identity p1 + t1 d1 = p2 + t2 d2, completeness, 2-D always coplanar); voxel in/out test = padded interval test, "
            "frange termination, coverage and exact value list, the grid covers the bounding box, filled iff some sampled point inside; find_ctrlpts = indices span-p..span which contain the support of the basis (Cox-de Boor local support). "
            "Correspondence and exact oracle on ray.intersect, linalg.is_left / wn_poly / convex_hull, voxelize.voxelize, operations.find_ctrlpts plus frange / grid / in-out helpers.",
            "wn_poly = inside for arbitrary simple NON-convex polygons is not proved (only the two convexity-free halves); ray theorems assume the exact square root (the rounded sqrt is passed to the model as an input). Open finding F-20a: use_cubes=True on a flat bounding box never returns."),
    'C11': ("7/C11",
            "Lean theorems, for every degree, size and dimension, whenever lu_solve returns: collocation_interpolates / interpolateCurve_interpolates - the curve evaluated (span by linear search, A2.2/A3.1) at the i-th parameter is the i-th data point; "
            "interpolateSurface_interpolates - the two-pass surface interpolation passes through every data point Q[j+sv*i] at (u_i, v_j); parameters run 0..1, non-decreasing for non-negative chord lengths (strictly increasing for distinct consecutive points); "
            "the averaged knot vectors (Eq. 9.8, 9.68/9.69) are clamped, of the right length and non-decreasing; approximate_curve keeps the end data points, its curve starts and ends at them, its interior control points satisfy the normal equations "
            "N^T N x = N^T R exactly as the code builds them, the residual is orthogonal to every interior basis function, and they MINIMISE the summed squared distance to the interior data points over all choices of interior control points "
            "(least_squares_pythagoras / least_squares_minimises over any ordered field; approximateCurve_minimises for the model function). "
            "The model (parametrisation with chord lengths as inputs, averaged knot vectors, collocation matrix, curve and two-pass surface interpolation, least-squares curve approximation via the normal equations) "
            "is tied to fitting.interpolate_curve / interpolate_surface / approximate_curve by exact correspondence (the sqrt doubles are recomputed by the harness and passed as exact values); the same data is also fitted twice in one process with different settings. approximate_surface is modelled (approximateSurface / lsqPass, op fit.asurf) and tied by exact correspondence; its corner control points and evaluated corners equal the corner data (unconditional for positive chord lengths, whenever the solver passes return); both passes solve their normal equations and minimise the squared residual of their line; the four boundary polygons are least-squares fits of the boundary data lines (oracle).",
            "Hypothesis, not proved: the collocation matrix / N^T N have non-zero Doolittle pivots (Schoenberg-Whitney; the harness checks lu_solve returns on every generated data set). The minimised sum runs over the interior data points (objective of Eq. 9.63); "
            "the version for the EVALUATED curve (approximateCurve_least_squares, using C03's basis_function_one = Cox-de Boor) needs positive chord lengths; the interpolation knot vector is non-decreasing under invp*p*u_(n-2) <= 1 (invp is the double 1.0/p). approximate_surface: no least-squares statement for the surface as a whole (A9.7 does not have that property); approximate_curve / approximate_surface raise IndexError when a direction has only 2 control points: recorded finding F-11a (model guarded: ERR for nc < 3)."),
    'C14': ("7/C14",
            "Lean theorems (43) over a token-level model (numbers are abstract tokens) of the smesh, vmesh (repaired), txt 1-D/2-D and csv files and of the dict form behind JSON (trims, delta, sense flags, containers): "
            "import o export = identity up to rational form (unit weights) and normalised knot vectors for every degree, size triple, net and container length; documented row/column order; END TO END: evaluate_single (library span search + A3.1 / A3.5 / volume evaluation + weight division) of the REIMPORTED shape at the normalised parameter = the exported shape's point, rational or not, "
            "curves / surfaces / volumes, smesh / vmesh / dict form, containers elementwise, every parameter of the closed domain; 2-D file helpers (repaired flip / weight / unweight; the pinned flip raises) for EVERY rectangular file; pinned vmesh reader and pinned 2-D file saver refuted by kernel decide on 2x3x4 and 2x3 witnesses. The real writers' file contents (tokenised, numbers canonicalised) and the real readers' results are "
            "compared with the model's; the oracle checks export-then-import at public level for JSON (curves, surfaces, volumes, containers, trims, delta), smesh, vmesh, txt, csv.",
            "Numbers are abstract tokens: the print/parse round trip is checked only by the float-mode companion at printed precision. Exact mode runs smesh/vmesh natively, txt/csv through an extended float shadow, JSON with dyadic inputs. "
            "YAML / libconfig / Jinja2 skipped (packages missing). Model mirrors the repaired code (F-14a, F-14b fixed by fix: commits after the check reported them with replays)."),
    'C12': ("7/C12",
            "The cache-effect table of every public mutator / reader of BSpline/NURBS Curve/Surface/Volume and the multi containers (224 operations, ~980 event paths of clear / write / fill) is REGENERATED from /repo's AST on every run "
            "by harness/effects.py and re-checked by the Lean kernel (all_paths_ok, decide +kernel): every path of every operation preserves 'no cache is stale' from every abstract state; lifted once and for all to every finite history "
            "(history_no_stale, induction over the operation list) and shown sound for a concrete field / cache model (history_inv: every non-empty cache equals the fresh value; getter_fresh; eager_kept; copy_inv); a failing table entry has a "
            "concrete stale witness (failing_path_has_witness). The translator is validated dynamically on every run against traced real objects (every logged event sequence must be an extracted path); a value-level history oracle compares "
            "every derived view after every step of random histories with a freshly built object in exact arithmetic and checks deep-copy independence; an abstract replay of observed cache states runs through the driver.",
            "Per-object discipline only: cross-object staleness of containers (F-12b) and in-place emptying of returned lists (F-12c) are open recorded findings seen by the oracle; deep-copy independence is oracle-checked, not proved; exceptions "
            "inside callees mid-mutator are not modelled; the field / cache vocabulary and 'a fill uses the current fields' are assumptions validated per step by the oracle; trims and expert setters are excluded. F-12a and F-12d were reported "
            "(failing all_paths_ok naming the operation + a concrete replay) and fixed."),
    'C03': ("7/C03",
            "Lean theorems over the executable model (any degree, any non-decreasing knot function, any parameter, any ordered field): linear span search returns the unique half-open interval; binary search (termination included) equals linear search under the "
            "tolerance hypothesis that F-17b violates (refuted without it by decide +kernel); A2.2 has p+1 non-negative values summing to 1 and equals the Cox-de Boor recursion with local support; all-degrees table index theorem; "
            "basis_function_one (A2.4, literal model with its zero-detection branches) equals Cox-de Boor on the domain and the A2.2 entry (closed form incl. the two boundary special cases, closed end of clamped vectors, no division by zero ever fires); "
            "basis_function_ders_one (A2.5, literal model) equals the k-th derivative column of the A2.3 specification table for order <= degree; the derivative rows of the table sum to 0 and row 0 is A2.2; "
            "knot vector utilities: generate has the documented length, is sorted, passes check, has end multiplicities exactly p+1 (clamped) and the closed-form entries; check is true exactly for the right length without descent; normalize is the affine map onto [0,1], "
            "strictly order preserving, idempotent; linspace spec. Model tied to helpers.find_span_* / basis_function* / basis_function_ders_one / knotvector.* by exact correspondence.",
            "A2.3 (basis_function_ders): the literal transcription is proved equal to the specification table in C02 (a23_as_coded_is_the_derivative_table). A2.4 = Cox-de Boor is stated with the hypotheses U p <= u, U 0 < U (p+1) and the last-knot exception "
            "(the code returns 1 for the last function at the last knot, the half-open definition gives 0; proved equal to the A2.2 entry there). A2.5 is proved for order <= degree on half-open spans. F-17b is a recorded finding."),
}
NOT_YET = {}
for i in range(1, 21):
    pid = 'C%02d' % i
    if pid not in CLAIMED:
        NOT_YET[pid] = "check not built yet at this commit (framework under construction; see DESIGN.md section 7 for the plan)"


def main():
    checks = []
    for pid in sorted(CLAIMED):
        sec, text, note = CLAIMED[pid]
        checks.append(dict(
            property_id=pid,
            quick_cmd="./check %s --tier quick" % pid,
            thorough_cmd="./check %s --tier thorough" % pid,
            evidence_file="evidence/%s.json" % pid,
            replay_cmd_template="./check %s --replay {path}" % pid,
            engine="lean4+exact-correspondence",
            level_claimed=dict(category="proof", text=text, design_ref="DESIGN.md section " + sec),
            level_note=TRUST + note,
            technique="machine-checked proof in Lean 4 about a hand-written executable model + exact-rational correspondence check against the implementation",
        ))
    man = dict(
        version=1,
        setup_cmd="/venv/bin/python harness/effects.py /repo --write && cd lean && lake build",
        hooks=dict(guard="GEOMDL_VERIF", enable="none needed: exact arithmetic is injected by the harness (harness/qnum.py); no source hooks",
                   baseline_off_cmd=BASE, source_commits=[], add_only=True),
        engines=[dict(name="lean4+exact-correspondence", path="lean/ harness/ check",
                      serves_properties=sorted(CLAIMED), kind_free_text="Lean 4 proofs about an executable model; differential correspondence in exact rational arithmetic")],
        checks=checks,
        not_applicable=[dict(property_id=p, reason=r) for p, r in sorted(NOT_YET.items())],
        notes="See DESIGN.md. Evidence files are rewritten by every run of a check.",
    )
    json.dump(man, open(os.path.join(VERIF, 'MANIFEST.json'), 'w'), indent=1)
    print("MANIFEST.json: %d checks, %d not claimed" % (len(checks), len(NOT_YET)))


if __name__ == '__main__':
    main()
