#!/usr/bin/env python3
"""Regenerates /verif/MANIFEST.json from the table below (run after adding a check)."""
import json, os
VERIF = os.path.dirname(os.path.dirname(os.path.abspath(__file__)))
BASE = "cd /repo && /venv/bin/python -m pytest -ra -q -p no:cacheprovider --timeout=900 --continue-on-collection-errors"
TRUST = ("Trusted: Lean 4.33 kernel; axioms propext, Classical.choice, Quot.sound only (audited with #print axioms on every run; "
         "no sorry/admit/native_decide/bv_decide/own axioms); Mathlib definitions in the statements; the hand-written model's fidelity is "
         "CHECKED on every run by the exact-rational correspondence (harness/qnum.py runs the unmodified /repo working tree in Fractions, "
         "the Lean driver runs the model on the same op lines, outputs compared as strings) but only on the generated inputs; IEEE rounding, "
         "the 18-decimals print/parse, math.sqrt/cos/sin are modelled as exact / passed as inputs, not verified. ")

# id -> (design section, level text, property specific note)   -- claimed checks
CLAIMED = {
    'C01': ("7/C01",
            "Lean theorems over the executable model (any degree, any non-decreasing knot function, any span, any parameter, any dimension, any ordered field): "
            "each coordinate of the curve point computed by A3.1 equals the sum over ALL control points of Cox-de Boor basis function times control point; the "
            "surface point equals the double tensor-product sum with the flat layout v + size_v*u; for positive weights the weight function is positive and the "
            "rational point is the quotient of the two sums; the sampled parameters are n strictly increasing values starting and ending exactly on the domain ends. "
            "The model is tied to Curve/Surface/Volume evaluate_single / evaluate_list / evalpts / derivatives(order=0) (BSpline and NURBS) by exact correspondence.",
            "Not proved: the volume (triple) version of the tensor theorem and the agreement of the object layer's entry points (both covered by correspondence + exact oracle). "
            "Known finding F-01 (sample size under normalize_kv=False) is reported as KNOWN-FINDING."),
    'C04': ("7/C04",
            "Lean theorems insert_preserves_curve (function level: spans found by the library's linear search before and after, EVERY parameter of the domain incl. both ends), insert_sequence_preserves (ANY sequence of admissible insertions, by induction over the request list, well-formedness preserved) and insert_preserves_curve_point: for every degree, sorted knot vector, control polygon of any dimension (homogeneous points for rational curves), "
            "insertion parameter with any prior multiplicity s, any count r with r+s<=p, and EVERY evaluation parameter, the point computed by A2.2/A3.1 from the model of "
            "helpers.knot_insertion / knot_insertion_kv equals the original point (polar-form refinement theorem, no bound on anything); plus: knot vector gains exactly r "
            "copies (multiset), stays sorted, net grows by r, over-multiplicity requests are rejected. The model (including the per-direction gather/scatter for surfaces "
            "and volumes and the partial application when a later direction is rejected) is tied to operations.insert_knot and the insert_knot methods by exact correspondence.",
            "Not proved: the lifting of the curve theorem to surfaces / volumes (model + correspondence + exact oracle only); A5.1's in-place loops vs the model's index-by-index form is tied by correspondence."),
    'C05': ("7/C05",
            "The executable model of helpers.knot_refinement is specification-level: the list X the code computes (default knot list, density bisection rounds, "
            "p - s copies) inserted one knot at a time with the A5.1 model whose shape preservation is proved for all inputs (C04). Lean theorems: the density round "
            "bisects every interval (length 2n-1, even entries = old knots, odd entries = midpoints strictly between), X has p - s copies per knot, refinement = fold of "
            "insertions, result sizes grow by |X|. That the code's A5.4 returns exactly these control points and knots is checked by exact correspondence through "
            "operations.refine_knotvector on curves, surfaces and volumes (all direction subsets, densities 1..2).",
            "refine_preserves_curve is proved for curves (fold of insertions, every parameter, under the per-knot admissibility predicate RefineOk); the lifting to surfaces / volumes and the discharge of RefineOk for the generated list X from sortedness + tolerance separation are not proved; A5.4's loops themselves are not modelled (spec-level model)."),
    'C06': ("7/C06",
            "Lean theorems: removing r knots at the position where r copies were inserted restores the knot vector; sizes. The model knotRemoval mirrors A5.8 as coded after "
            "the repair of defect F-06 (fix: commit in /repo; the check reported the violation with a replay on the pinned tree first) and is tied to operations.remove_knot / "
            "remove_knot methods by exact correspondence, including the removal of knots that are not removable. The exact oracle checks insert r / remove t<=r in every "
            "direction of curves, surfaces, volumes: knot vector, sizes, evaluated points, and restoration of every control point when t = r.",
            "Not proved in Lean: insert-then-remove restores the control points for all inputs (checked by oracle + correspondence only); 'whenever removable at all'. "
            "Volumes: only removable knots generated (the code derives one removability flag from the first iso-curve)."),
    'C07': ("7/C07",
            "Lean theorems: split at a domain end is rejected; decomposition of a Bezier shape returns it unchanged; window locality and affine invariance of A2.2 (the two "
            "ingredients, with C04, of 'each piece coincides with the original under the affine map of its domain'). The model (insertion to multiplicity p, knot/net slices, "
            "normalisation of the pieces' knot vectors, decomposition loop with u-major order for 'uv') is tied to operations.split_curve / split_surface_u / split_surface_v / "
            "decompose_curve / decompose_surface by exact correspondence; the exact oracle checks every piece against the original under the affine domain map, piece counts and order, input untouched.",
            "Not proved: the assembled theorem 'piece = original on its sub-interval' (oracle + correspondence only)."),
    'C02': ("7/C02",
            "Lean theorems: curve_derivatives_are_true_derivatives - entry k of the model of Curve.derivatives(u, order) (A3.3 + A3.4) equals the k-th iterated Polynomial.derivative of the span polynomial evaluated at u, "
            "for EVERY k <= order (zero above the degree), every degree, sorted knot vector, non-empty span, parameter, dimension (the derivative from the right at knots); the span polynomial evaluates to the curve point (ties to C01); "
            "the general polynomial identity behind it (derivative^[k] of the degree-p span polynomial = degree p-k span polynomial of the k-fold scaled differences); A4.2's rational derivatives solve the Leibniz system of every "
            "order. The model (A3.3/A3.4 for all orders, basis derivatives specified as derivatives of unit-control-point curves, A4.2, A4.4 as coded, tensor surface derivatives) is tied to Curve.derivatives / Surface.derivatives "
            "for both evaluator families (A3.2/A3.6 via A2.3 and A3.4/A3.8), rational and not, orders 0..degree+2, by exact correspondence; an independent exact jet-arithmetic oracle checks every returned vector, the hodograph constructors, tangent and normal.",
            "Not proved: the surface case and A4.2/A4.4 list models as Lean theorems about the model functions (scalar Leibniz theorem is); A2.3's table (spec-level model). Unit length of normalised vectors is floating point (oracle, 1e-12). "
            "F-02 (alternative surface evaluator, order > degree_u) was reported with a replay and fixed; F-02b (derivative_surface on C0 knots) is a recorded finding."),
    'C03': ("7/C03",
            "Lean theorems over the executable model (any degree, any non-decreasing knot function, any parameter, any ordered field): "
            "linear span search returns the unique half-open interval; binary search (termination included) equals linear search under the tolerance hypothesis that F-17b violates (refuted without it by decide +kernel); A2.2 has p+1 non-negative values summing to 1 and equals the Cox-de Boor "
            "recursion with local support; all-degrees table index theorem. Model tied to helpers.find_span_*/basis_function*/knotvector.* by exact "
            "correspondence; binary search, A2.3/A2.4/A2.5 and the knot-vector utilities are covered by correspondence + exact oracle only (listed as partial in the evidence).",
            "Not proved yet: A2.4/A2.5; derivative rows sum to zero (oracle + correspondence). F-17b is a recorded finding."),
}
NOT_YET = {}
for i in range(1, 21):
    pid = 'C%02d' % i
    if pid not in CLAIMED:
        NOT_YET[pid] = "check not built yet at this commit (framework under construction; see DESIGN.md section 7 for the plan)"


def main():
    checks = []
    for pid in sorted(CLAIMED):
        sec, text, note = CLAIMED[pid]
        checks.append(dict(
            property_id=pid,
            quick_cmd="./check %s --tier quick" % pid,
            thorough_cmd="./check %s --tier thorough" % pid,
            evidence_file="evidence/%s.json" % pid,
            replay_cmd_template="./check %s --replay {path}" % pid,
            engine="lean4+exact-correspondence",
            level_claimed=dict(category="proof", text=text, design_ref="DESIGN.md section " + sec),
            level_note=TRUST + note,
            technique="machine-checked proof in Lean 4 about a hand-written executable model + exact-rational correspondence check against the implementation",
        ))
    man = dict(
        version=1,
        setup_cmd="/venv/bin/python harness/effects.py /repo --write && cd lean && lake build",
        hooks=dict(guard="GEOMDL_VERIF", enable="none needed: exact arithmetic is injected by the harness (harness/qnum.py); no source hooks",
                   baseline_off_cmd=BASE, source_commits=[], add_only=True),
        engines=[dict(name="lean4+exact-correspondence", path="lean/ harness/ check",
                      serves_properties=sorted(CLAIMED), kind_free_text="Lean 4 proofs about an executable model; differential correspondence in exact rational arithmetic")],
        checks=checks,
        not_applicable=[dict(property_id=p, reason=r) for p, r in sorted(NOT_YET.items())],
        notes="See DESIGN.md. Evidence files are rewritten by every run of a check.",
    )
    json.dump(man, open(os.path.join(VERIF, 'MANIFEST.json'), 'w'), indent=1)
    print("MANIFEST.json: %d checks, %d not claimed" % (len(checks), len(NOT_YET)))


if __name__ == '__main__':
    main()
