"""Exact-number execution of the unmodified geomdl (see DESIGN.md section 4.1).

`Q` is a float subclass carrying a fractions.Fraction; `install()` shadows the names `float` and
`math` in every geomdl module so that explicit float() conversions and the 18-decimals
print/parse round trips keep exact values.  Nothing under /repo is modified."""
import sys, math
from fractions import Fraction
class Q(float):
    __slots__=('q',)
    def __new__(cls, v=0):
        if isinstance(v, Q): fr=v.q
        elif isinstance(v, float): fr=Fraction(v)
        elif isinstance(v, str): fr=Fraction(v)
        else: fr=Fraction(v)
        o=float.__new__(cls, float(fr)); o.q=fr; return o
    @staticmethod
    def _c(o):
        if isinstance(o, Q): return o.q
        if isinstance(o, bool): return Fraction(int(o))
        if isinstance(o, (int, Fraction)): return Fraction(o)
        if isinstance(o, float):
            if o!=o or o in (float('inf'),-float('inf')): return None
            return Fraction(o)
        return None
    def _bin(op, rev=False):
        def f(self, o):
            c=Q._c(o)
            if c is None: return NotImplemented
            return Q(op(c, self.q) if rev else op(self.q, c))
        return f
    import operator as _o
    __add__=_bin(_o.add); __radd__=_bin(_o.add,True)
    __sub__=_bin(_o.sub); __rsub__=_bin(_o.sub,True)
    __mul__=_bin(_o.mul); __rmul__=_bin(_o.mul,True)
    __truediv__=_bin(_o.truediv); __rtruediv__=_bin(_o.truediv,True)
    def __pow__(self, e, m=None):
        if isinstance(e,int) or (isinstance(e,(float,Q)) and float(e).is_integer()): return Q(self.q**int(e))
        return float(self)**float(e)
    def __neg__(self): return Q(-self.q)
    def __pos__(self): return self
    def __abs__(self): return Q(abs(self.q))
    def _cmp(op):
        def f(self,o):
            c=Q._c(o)
            if c is None:
                if isinstance(o,float): return op(float.__float__(self), o)
                return NotImplemented
            return op(self.q,c)
        return f
    __eq__=_cmp(_o.eq); __ne__=_cmp(_o.ne); __lt__=_cmp(_o.lt); __le__=_cmp(_o.le); __gt__=_cmp(_o.gt); __ge__=_cmp(_o.ge)
    def __hash__(self): return hash(self.q)
    def __bool__(self): return self.q!=0
    def __int__(self): return int(self.q)
    def __trunc__(self): return math.trunc(self.q)
    def __floor__(self): return math.floor(self.q)
    def __ceil__(self): return math.ceil(self.q)
    def __round__(self, n=None): return round(self.q) if n is None else Q(round(self.q,n))
    def __repr__(self): return "Q(%s)"%self.q
    __str__=__repr__
    def __deepcopy__(self, memo): return self
    def __copy__(self): return self
    def __reduce__(self): return (Q,(str(self.q),))
    def __format__(self, spec):
        return "Q:"+str(self.q)     # exact, survives float("...") via qfloat
# make `Fraction == Q`, `Fraction < Q` exact as well (Fraction's comparison methods test for
# numbers.Rational before they fall back to the float value)
import numbers as _numbers
Q.numerator = property(lambda self: self.q.numerator)
Q.denominator = property(lambda self: self.q.denominator)
_numbers.Rational.register(Q)
_float=float
class _QFMeta(type):
    def __instancecheck__(cls, inst): return isinstance(inst, _float)
    def __subclasscheck__(cls, sub): return issubclass(sub, _float)
class qfloat(float, metaclass=_QFMeta):
    def __new__(cls, x=0.0):
        if isinstance(x, Q): return x
        if isinstance(x, str) and x.startswith("Q:"): return Q(x[2:])
        if isinstance(x, Fraction): return Q(x)
        v=_float(x)
        if v!=v or v in (_float('inf'),-_float('inf')): return v
        return Q(v)
class _QMath:
    """proxy for the math module: same doubles, but typed Q so later arithmetic stays exact"""
    def __getattr__(self, name):
        f=getattr(math,name)
        if not callable(f): return f
        if name in ('floor','ceil','trunc'):
            return lambda x: f(x.q) if isinstance(x,Q) else f(x)
        def g(*a,**k):
            r=f(*[_float.__float__(x) if isinstance(x,Q) else x for x in a],**k)
            if isinstance(r,_float) and not isinstance(r,Q) and r==r and r not in (_float('inf'),-_float('inf')): return Q(r)
            return r
        return g
qmath=_QMath()
def install():
    import geomdl, pkgutil, importlib
    for m in pkgutil.iter_modules(geomdl.__path__):
        if m.name in ('vis',) or m.name.startswith('visualization'): continue
        try: mod=importlib.import_module('geomdl.'+m.name)
        except Exception as e: continue
        mod.float=qfloat
        if hasattr(mod,'math'): mod.math=qmath
