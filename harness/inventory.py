#!/usr/bin/env python3
"""Prints a markdown inventory of the property theorems (Props/Cxx.lean): name + doc comment."""
import re, os, glob
LEAN = os.path.join(os.path.dirname(os.path.dirname(os.path.abspath(__file__))), 'lean', 'NurbsVerif', 'Props')
for path in sorted(glob.glob(os.path.join(LEAN, 'C*.lean'))):
    pid = os.path.basename(path)[:-5]
    src = open(path, encoding='utf-8').read()
    items = []
    for m in re.finditer(r'(?:/--(.*?)-/\s*)?(?:@\[[^\]]*\]\s*)?theorem\s+(\S+)', src, re.S):
        doc = ' '.join((m.group(1) or '').split())
        items.append((m.group(2), doc[:230] + ('…' if len(doc) > 230 else '')))
    print("\n### %s (%d theorems)\n" % (pid, len(items)))
    for n, d in items:
        print("* `%s` — %s" % (n, d or '(see file)'))
