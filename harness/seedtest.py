#!/usr/bin/env python3
"""Confirms seeded changes and runs the checks against them.

usage: seedtest.py <seed_out_dir> [Cxx ...]      e.g. seedtest.py /tmp/seed_out C07 C08
For every <seed_out_dir>/Cxx/mK/{patch.diff,demo.py,meta.json}:
  * in a scratch worktree of /repo (never /repo itself): the patch applies, the unedited test-suite
    still reports 222 passed, demo.py exits 1 with the patch and 0 without it;
  * `VERIF_REPO=<worktree> ./check Cxx --tier quick` (and the checks listed in EXTRA for that
    property) is run with the patch applied; the VIOLATION lines are recorded;
  * a confirmed change is copied to /verif/seeded/Cxx-mK/ with meta.json extended by the results.
"""
import sys, os, json, subprocess, shutil, glob
VERIF = os.path.dirname(os.path.dirname(os.path.abspath(__file__)))
WT = '/tmp/seedrun_wt_%d' % os.getpid()
EXTRA = {'C01': ['C09', 'C12', 'C17', 'C18'], 'C03': ['C01', 'C17'], 'C12': ['C09', 'C01', 'C15'], 'C16': ['C11'], 'C02': ['C17'],
         'C17': ['C01', 'C02', 'C16', 'C20'], 'C18': ['C01', 'C12', 'C20'], 'C09': ['C10', 'C12']}


def sh(cmd, cwd=None, env=None, timeout=3600):
    p = subprocess.run(cmd, shell=True, cwd=cwd, env=env, capture_output=True, text=True, timeout=timeout)
    return p.returncode, p.stdout + p.stderr


def main():
    out_dir = sys.argv[1]
    props = sys.argv[2:] or sorted(os.path.basename(p) for p in glob.glob(os.path.join(out_dir, 'C*')))
    sh('git -C /repo worktree remove --force %s' % WT)
    rc, o = sh('git -C /repo worktree add --detach %s HEAD' % WT)
    assert rc == 0, o
    claimed = {c['property_id'] for c in json.load(open(os.path.join(VERIF, 'MANIFEST.json')))['checks']}
    summary = []
    try:
        for pid in props:
            for md in sorted(glob.glob(os.path.join(out_dir, pid, 'm*'))):
                name = "%s%s-%s" % (os.environ.get('SEED_PREFIX', ''), pid, os.path.basename(md))
                patch, demo = os.path.join(md, 'patch.diff'), os.path.join(md, 'demo.py')
                if not (os.path.exists(patch) and os.path.exists(demo)):
                    summary.append((name, 'incomplete', '')); continue
                sh('git checkout -- . && git clean -fdq', cwd=WT)
                rc0, o0 = sh('/venv/bin/python %s %s' % (demo, WT), timeout=600)
                rc, o = sh('git apply %s' % patch, cwd=WT)
                if rc != 0:
                    summary.append((name, 'patch does not apply', o[-200:])); continue
                rc1, o1 = sh('/venv/bin/python %s %s' % (demo, WT), timeout=600)
                rct, ot = sh('/venv/bin/python -m pytest -q -p no:cacheprovider --timeout=900 --continue-on-collection-errors 2>&1 | tail -1', cwd=WT)
                ok = (rc0 == 0 and rc1 == 1 and '222 passed' in ot)
                res = dict(demo_without=rc0, demo_with=rc1, suite=ot.strip())
                if not ok:
                    summary.append((name, 'NOT CONFIRMED', json.dumps(res))); continue
                env = dict(os.environ, VERIF_REPO=WT)
                detected = {}
                for chk in [pid] + EXTRA.get(pid, []):
                    if chk not in claimed:
                        detected[chk] = 'not-claimed'; continue
                    rcc, oc = sh('./check %s --tier quick' % chk, cwd=VERIF, env=env)
                    vl = [l for l in oc.splitlines() if l.startswith('VIOLATION')]
                    detected[chk] = dict(exit=rcc, violation=vl[:1], last=oc.strip().splitlines()[-1][:200] if oc.strip() else '')
                    for l in vl[:1]:
                        rp = l.split('replay=')[1].split()[0]
                        try:
                            rj = json.load(open(os.path.join(VERIF, rp)))
                            detected[chk]['oracle'] = rj.get('oracle')
                            detected[chk]['replay_line'] = ((rj.get('cases') or [{}])[0].get('line') or '')[:300]
                        except Exception:
                            pass
                caught = any(isinstance(v, dict) and v['exit'] == 1 for v in detected.values())
                dst = os.path.join(VERIF, 'seeded', name)
                os.makedirs(dst, exist_ok=True)
                shutil.copy(patch, dst); shutil.copy(demo, dst)
                meta = {}
                try:
                    meta = json.load(open(os.path.join(md, 'meta.json')))
                except Exception:
                    pass
                meta.update(dict(breaks=pid, confirmed=res, checks=detected, caught=caught,
                                 ran="scratch worktree of /repo HEAD: demo without patch (exit 0), git apply, demo with patch (exit 1), unedited test-suite (222 passed), VERIF_REPO=<worktree> ./check <id> --tier quick"))
                json.dump(meta, open(os.path.join(dst, 'meta.json'), 'w'), indent=1)
                summary.append((name, 'CAUGHT' if caught else 'MISSED', json.dumps({k: (v if isinstance(v, str) else (v['exit'], (v.get('oracle') or v['last'])[:110])) for k, v in detected.items()})))
    finally:
        sh('git -C /repo worktree remove --force %s' % WT)
    for s in summary:
        print("%-10s %-14s %s" % s)


if __name__ == '__main__':
    main()
