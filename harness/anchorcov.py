"""Anchored-line coverage of a check run (DESIGN.md section 4.4, last paragraph).

The correspondence check and the oracle only see what the generated cases execute.  For every
property, `properties.jsonl` names the code ranges (`anchors.mechanism[*].where`, line numbers of the
pinned commit) in which the property is implemented.  This module

  * maps those pinned ranges to the functions / methods that contain them (qualified names, computed
    from the pinned file `git show <base>:geomdl/<file>`), and looks the same functions up in the
    CURRENT working tree (so fix: commits and harmless refactorings that move lines do not matter; a
    function that no longer exists is reported by name),
  * records, with `sys.monitoring` (Python >= 3.12, one event per line, then disabled), which
    executable lines of those functions run while the check feeds its cases to the implementation
    and to the oracle,
  * reports per property: functions anchored, functions never entered, executable lines, lines hit,
    and the lines never reached (a changed line there could not be seen by this run).

This is a measurement of the generators, never a verdict: the numbers go to the evidence file.
"""
import sys, os, re, ast, json, subprocess

BASE_COMMIT = 'cdaf30b'      # the pinned snapshot (parent of every fix: commit)


def _parse_where(where):
    """'linalg.py:694 linspace; BSpline.py:103-168, 568-655' -> {file: [(lo, hi), ...]}"""
    out = {}
    for part in where.split(';'):
        part = part.strip()
        m = re.match(r'^(\w+\.py)\s*:?\s*(.*)$', part)
        if not m:
            continue
        fn, rest = m.group(1), m.group(2)
        rngs = []
        for r in re.finditer(r'(\d+)(?:\s*-\s*(\d+))?', rest):
            lo = int(r.group(1)); hi = int(r.group(2) or r.group(1))
            rngs.append((lo, hi))
        if not rngs:
            rngs = [(1, 10 ** 9)]          # whole file ('_linalg.py')
        out.setdefault(fn, []).extend(rngs)
    return out


def _functions(src):
    """[(qualname, lo, hi)] of every def in the source (nested defs included)"""
    res = []
    try:
        tree = ast.parse(src)
    except SyntaxError:
        return res

    def walk(node, prefix):
        for ch in ast.iter_child_nodes(node):
            if isinstance(ch, (ast.FunctionDef, ast.AsyncFunctionDef)):
                q = prefix + ch.name
                # from the first body statement: decorators, the def line and default arguments run at import
                res.append((q, ch.body[0].lineno, ch.end_lineno))
                walk(ch, q + '.')
            elif isinstance(ch, ast.ClassDef):
                walk(ch, prefix + ch.name + '.')
            else:
                walk(ch, prefix)
    walk(tree, '')
    return res


def _exec_lines(code, acc):
    for (_, _, ln) in code.co_lines():
        if ln is not None:
            acc.add(ln)
    for c in code.co_consts:
        if hasattr(c, 'co_lines'):
            _exec_lines(c, acc)


def anchored_functions(repo, prop):
    """{abs current file: {qualname: (lo, hi)}} plus the list of anchored functions that vanished"""
    cur = {}
    missing = []
    for mech in prop['anchors'].get('mechanism', []):
        for fn, rngs in _parse_where(mech['where']).items():
            rel = 'geomdl/' + fn
            try:
                old = subprocess.run(['git', '-C', repo, 'show', '%s:%s' % (BASE_COMMIT, rel)], capture_output=True, text=True).stdout
            except Exception:
                old = ''
            path = os.path.join(repo, rel)
            if not os.path.exists(path):
                missing.append(rel); continue
            new = open(path, encoding='utf-8').read()
            oldf = _functions(old) if old else _functions(new)
            names = set()
            for (q, lo, hi) in oldf:
                if any(not (hi < a or b < lo) for (a, b) in rngs):
                    names.add(q)
            # keep innermost + outer: a method and its nested helpers are all anchored
            newf = {q: (lo, hi) for (q, lo, hi) in _functions(new)}
            for q in sorted(names):
                if q in newf:
                    cur.setdefault(os.path.realpath(path), {})[q] = newf[q]
                else:
                    missing.append('%s:%s' % (rel, q))
    return cur, missing


class Recorder(object):
    TOOL = 3

    def __init__(self, files):
        self.files = set(files)
        self.hit = {}
        self.on = False

    def start(self):
        mon = getattr(sys, 'monitoring', None)
        if mon is None:
            return False
        try:
            mon.use_tool_id(self.TOOL, 'anchorcov')
        except ValueError:
            return False
        files, hit = self.files, self.hit

        def on_line(code, line):
            fn = code.co_filename
            if fn in files:
                hit.setdefault(fn, set()).add(line)
            return mon.DISABLE
        mon.register_callback(self.TOOL, mon.events.LINE, on_line)
        mon.set_events(self.TOOL, mon.events.LINE)
        self.on = True
        return True

    def stop(self):
        if not self.on:
            return
        mon = sys.monitoring
        mon.set_events(self.TOOL, 0)
        mon.register_callback(self.TOOL, mon.events.LINE, None)
        mon.free_tool_id(self.TOOL)
        self.on = False


def report(repo, prop, hit):
    funcs, missing = anchored_functions(repo, prop)
    per_file = {}
    tot_exec = tot_hit = 0
    never = []
    for path, fs in funcs.items():
        src = open(path, encoding='utf-8').read()
        ex = set()
        try:
            _exec_lines(compile(src, path, 'exec'), ex)
        except SyntaxError:
            continue
        h = hit.get(path, set())
        rel = os.path.relpath(path, repo)
        frep = {}
        for q, (lo, hi) in sorted(fs.items(), key=lambda kv: kv[1]):
            lines = {l for l in ex if lo <= l <= hi}
            # nested functions are reported on their own; do not double count
            inner = [(a, b) for (qq, (a, b)) in fs.items() if qq != q and qq.startswith(q + '.')]
            lines = {l for l in lines if not any(a <= l <= b for (a, b) in inner)}
            got = lines & h
            tot_exec += len(lines); tot_hit += len(got)
            if lines and not got:
                never.append('%s:%s' % (rel, q))
            miss = sorted(lines - got)
            frep[q] = dict(executable=len(lines), hit=len(got), missed=miss[:60])
        per_file[rel] = frep
    return dict(rule="functions containing the pinned anchor ranges (anchors.mechanism[*].where), looked up by qualified "
                     "name in the current tree; executable lines from the compiled code objects; hit = executed while "
                     "the cases ran through impl() and oracle() (sys.monitoring LINE events)",
                executable_lines=tot_exec, lines_hit=tot_hit,
                share=round(tot_hit / tot_exec, 3) if tot_exec else None,
                functions=sum(len(v) for v in per_file.values()),
                functions_never_entered=never, functions_missing_in_current_tree=missing,
                per_function=per_file)


def load_property(verif, pid):
    for l in open(os.path.join(verif, 'properties.jsonl')):
        p = json.loads(l)
        if p['id'] == pid:
            return p
    return None
