"""Seeded structured generators (DESIGN.md section 4.4).  Everything is a fractions.Fraction."""
from fractions import Fraction as F

STATS = {}


def count(key, sub):
    d = STATS.setdefault(key, {})
    d[str(sub)] = d.get(str(sub), 0) + 1


def knots(rng, p, max_interior=5, clamped=True, allow_range=True, max_mult=None):
    """clamped (or unclamped) non-decreasing knot vector of degree p; returns (kv, n)"""
    den = rng.choice([8, 12, 7, 10, 16, 9])
    nint = rng.randint(0, max_interior)
    ints = sorted(rng.sample([F(i, den) for i in range(1, den)], min(nint, den - 1)))
    mm = p if max_mult is None else max_mult
    if clamped:
        kv = [F(0)] * (p + 1)
        for x in ints:
            kv += [x] * rng.randint(1, max(1, mm))
        kv += [F(1)] * (p + 1)
    else:
        # unclamped: strictly inside a wider knot range, p+1 distinct-ish knots on each side
        kv = [F(-(p - i), den) for i in range(p)] + [F(0)]
        for x in ints:
            kv += [x] * rng.randint(1, max(1, mm))
        kv += [F(1)] + [F(1) + F(i + 1, den) for i in range(p)]
    if allow_range and rng.random() < .35:
        a, b = F(rng.randint(-3, 3)), F(rng.choice([2, 3, 5, F(1, 2), F(7, 3)]))
        r = rng.random()
        if r < .2:
            b = F(1)                      # a range of length exactly 1 that does not start at 0 (unless a = 0)
        elif r < .45 and ints:
            a = -b * ints[0]              # the first interior knot is exactly 0, the range starts below 0
        kv = [a + b * x for x in kv]
        count('knot_range', 'affine')
    else:
        count('knot_range', 'unit')
    count('clamped', clamped)
    count('degree', p)
    count('interior_knots', len(kv) - 2 * (p + 1))
    return kv, len(kv) - p - 1


def param(rng, kv, p, n):
    """parameter in the domain: on a knot / at an end / inside a span / next to a knot"""
    r = rng.random()
    lo, hi = kv[p], kv[n]
    if r < .25:
        u = rng.choice(kv[p:n + 1]); count('param', 'on-knot')
    elif r < .33:
        u = hi; count('param', 'domain-end')
    elif r < .40:
        u = lo; count('param', 'domain-start')
    elif r < .50:
        k = rng.choice(kv[p:n + 1]); u = k + rng.choice([-1, 1]) * (hi - lo) * F(1, 10 ** rng.randint(3, 9))
        u = min(max(u, lo), hi); count('param', 'near-knot')
    else:
        u = lo + (hi - lo) * F(rng.randint(0, 1000), 1000); count('param', 'interior')
    return u


def points(rng, n, dim, lo=-6, hi=6):
    return [[F(rng.randint(lo * 2, hi * 2), rng.choice([1, 1, 2, 3])) for _ in range(dim)] for _ in range(n)]


def weights(rng, n):
    r = rng.random()
    if r < .15:
        return [F(1)] * n
    return [F(rng.randint(1, 9), rng.choice([1, 2, 3, 4])) for _ in range(n)]


def homogeneous(P, w):
    return [[c * wi for c in pt] + [wi] for pt, wi in zip(P, w)]


def span_of(kv, p, n, u):
    """reference span: last k in [p, n-1] with kv[k] <= u and kv[k] < kv[k+1] (end -> last non-empty)"""
    ks = [k for k in range(p, n) if kv[k] < kv[k + 1] and (kv[k] <= u)]
    return max(ks) if ks else p


def cox_de_boor(kv, p, i, u, last):
    """independent exact oracle: N_{i,p}(u) with half-open spans; at the domain end `last` the
    value is the left limit (the last non-empty span is closed)"""
    if p == 0:
        if u == last:
            return F(1) if kv[i] < kv[i + 1] == last else F(0)
        return F(1) if kv[i] <= u < kv[i + 1] else F(0)
    a = F(0)
    d1 = kv[i + p] - kv[i]
    if d1 != 0:
        a += (u - kv[i]) / d1 * cox_de_boor(kv, p - 1, i, u, last)
    d2 = kv[i + p + 1] - kv[i + 1]
    if d2 != 0:
        a += (kv[i + p + 1] - u) / d2 * cox_de_boor(kv, p - 1, i + 1, u, last)
    return a


def knots_empty_last(rng, p):
    """knot vector of degree p with an EMPTY last domain span, U_{n-1} = U_n (valid for knotvector.check): a knot of
    multiplicity 2..p exactly on the domain end of an unclamped vector (p >= 2), or the end knot repeated p+2 (p+3)
    times; returns (kv, n).  Outside the Lean model at u = U_n (F-01b: the repaired span searches step back)"""
    den = rng.choice([4, 6, 8])
    lead = [F(0)] * (p + 1) if rng.random() < .5 else [F(i - p, den) for i in range(p)] + [F(0)]
    ints = sorted(rng.sample([F(i, den) for i in range(1, den)], rng.randint(1, 3)))
    body = []
    for x in ints:
        body += [x] * rng.randint(1, p)
    if p >= 2 and rng.random() < .6:
        m = rng.randint(2, p)                       # a knot of multiplicity m <= p exactly on the domain end, p larger knots behind it
        tail = sorted(F(1) + F(rng.randint(1, den), den) for _ in range(p))
        kv = lead + body + [F(1)] * m + tail
    else:
        kv = lead + body + [F(1)] * (p + 2 + (1 if rng.random() < .25 else 0))      # end knot repeated p+2 (p+3) times
    n = len(kv) - p - 1
    assert kv[n - 1] == kv[n] and n >= p + 1 and kv[p] < kv[n]
    if rng.random() < .3:
        a, b = F(rng.randint(-2, 2)), F(rng.choice([2, 4, F(1, 2)]))
        kv = [a + b * x for x in kv]
    return kv, n
