#!/bin/sh
# runs every claimed check (quick by default): ./runall.sh [quick|thorough] [parallelism]
cd "$(dirname "$0")" || exit 2
TIER=${1:-quick}; PAR=${2:-4}
LOGD=$(mktemp -d "${TMPDIR:-/tmp}/verif_run.XXXXXX") || exit 2
export LOGD
trap 'rm -rf "$LOGD"' EXIT
python3 -c "import json; print('\n'.join(c['property_id'] for c in json.load(open('MANIFEST.json'))['checks']))" |
  xargs -P "$PAR" -I{} sh -c "./check {} --tier $TIER > $LOGD/{}.log 2>&1; echo {} exit=\$? \$(tail -1 $LOGD/{}.log)"
