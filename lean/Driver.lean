import NurbsVerif.Driver.All
partial def loop (h : IO.FS.Stream) (out : IO.FS.Stream) : IO Unit := do
  let line ← h.getLine
  if line.isEmpty then return ()
  out.putStrLn (Drv.step line)
  loop h out
def main : IO Unit := do
  let out ← IO.getStdout
  loop (← IO.getStdin) out
  out.flush
