import NurbsVerif.Model.Knots2
import NurbsVerif.Lemmas.InsertModel

/-!
# C06  Removing a removable knot is exact and inverts insertion

Model: `Geomdl.knotRemoval` (A5.8 as coded after the repair of F-06), `knotRemovalKv`.
-/
namespace C06
open Geomdl
variable {K : Type} [Field K] [LinearOrder K] [IsStrictOrderedRing K]

/-- removing `r` knots ending at the position where `r` copies were inserted restores the knot vector
    (`k` = span used for the insertion; the span found afterwards is `k + r`) -/
theorem removeKv_inverts_insertKv (U : List K) (u : K) (k r : ℕ) (hk : k < U.length) :
    knotRemovalKv (knotInsertionKv U u k r) (k + r) r = U := by
  unfold knotRemovalKv knotInsertionKv
  by_cases hr : r = 0
  · subst hr; simp
  · rw [if_neg hr]
    have e1 : k + r + 1 - r = k + 1 := by omega
    rw [e1]
    have hl : (List.take (k + 1) U).length = k + 1 := by simp; omega
    have hA : (List.take (k + 1) U ++ List.replicate r u).length = k + r + 1 := by simp [hl]; omega
    have t1 : List.take (k + 1) (List.take (k + 1) U ++ List.replicate r u ++ List.drop (k + 1) U) = List.take (k + 1) U := by
      rw [List.append_assoc, List.take_append_of_le_length (by omega), List.take_of_length_le (by omega)]
    have t2 : List.drop (k + r + 1) (List.take (k + 1) U ++ List.replicate r u ++ List.drop (k + 1) U) = List.drop (k + 1) U := by
      rw [← hA, List.drop_left]
    rw [t1, t2, List.take_append_drop]

/-- the knot vector shrinks by exactly the removal count -/
theorem removeKv_length (U : List K) (span r : ℕ) (h1 : r ≤ span + 1) (h2 : span < U.length) :
    (knotRemovalKv U span r).length = U.length - r := by
  unfold knotRemovalKv
  by_cases hr : r = 0
  · simp [hr]
  · rw [if_neg hr]
    simp only [List.length_append, List.length_take, List.length_drop]
    omega

/-- non-vacuity / concrete instance -/
example : knotRemovalKv (knotInsertionKv ([0,0,0,1,1,1] : List ℚ) (1/2) 2 2) 4 2 = [0,0,0,1,1,1] := by
  decide

end C06
